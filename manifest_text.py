"""Texts for MANIFEST.json entries."""
HOOK_COMMITS = ["e90d722"]

NOT_APPLICABLE = {}

TEXT = {
    "C01": {
        "level": "Generated-input search with an independent oracle: every generated (secret spelling, counter, digits, hash, nil/explicit param) tuple is compared with a from-scratch RFC 4226 implementation; a boundary grid is enumerated completely, and the truncation/modulus/formatting stage is enumerated exhaustively through build-tag hooks (every value below 10^6 for both renderers). Exploration is the right level because the input space (2^64 counters x arbitrary keys) cannot be enumerated; the finite formatting stage is.",
        "note": "Trusted: Go's crypto/sha1|sha256|sha512 primitives (shared by reference and library), the reference in /verif/h/ref (self-checked against the RFC vectors), rapid's generator. Holds only on the cases explored; not a proof over all keys and counters.",
        "technique": "property-based testing (rapid) + exhaustive enumeration of the formatting stage + native go fuzzing, differential against an independent RFC 4226 reference",
    },
}
