#!/bin/sh
# Offline warm-up: checks the toolchain and fills the Go build cache so that the first quick check is fast.
set -e
cd "$(dirname "$0")"
export GOFLAGS=-mod=mod GOPROXY=off GOWORK=off
unset GOTOOLCHAIN GOSUMDB || true
mkdir -p .work/setup
( cd h && go version && go test -c -vet=off -tags verif -o ../.work/setup/h.test . )
rm -rf .work/setup
echo "setup ok"
