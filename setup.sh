#!/bin/sh
# Offline warm-up: checks the toolchain and fills the Go build cache (plain, race, wasm, REST server)
# so that the first quick checks are fast. Everything is rebuilt from /repo's working tree by ./check anyway.
set -e
cd "$(dirname "$0")"
REPO=${VERIF_REPO:-/repo}
mkdir -p .work/setup
(
  export GOFLAGS=-mod=mod GOPROXY=off GOWORK=off
  unset GOTOOLCHAIN GOSUMDB || true
  cd h && go version
  go test -c -vet=off -tags verif -o ../.work/setup/h.test .
  go test -c -vet=off -race -tags verif -o ../.work/setup/h.race.test .
)
(
  export GOPROXY=off
  unset GOFLAGS GOWORK GOTOOLCHAIN GOSUMDB || true
  cd "$REPO/internal/app" && go build -o /verif/.work/setup/server ./cmd
  cd "$REPO" && GOOS=js GOARCH=wasm go build -o /verif/.work/setup/otp.wasm ./wasm
)
node --version >/dev/null
# instrumented std packages for the comparison-trace build (C09) take ~40 s the first time
./check C09 quick >/dev/null 2>&1 || true
rm -rf .work/setup
echo "setup ok"
