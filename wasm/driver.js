// Node driver for C20: loads the freshly built wasm module THROUGH the package's entry
// module (src/index.js, which loads src/wasm_exec.js and ../lib/otp.wasm) and executes
// call lists received as JSON lines on stdin. One JSON line out per line in.
"use strict";
const path = require("path");
const readline = require("readline");

// Go's println/log output goes through console.log in wasm_exec.js's fs polyfill: silence it.
const realLog = console.log;
console.log = () => {};
console.error = () => {};

function decodeArg(a) {
  if (a !== null && typeof a === "object" && "$" in a) {
    switch (a.$) {
      case "undefined": return undefined;
      case "NaN": return NaN;
      case "Infinity": return Infinity;
      case "-Infinity": return -Infinity;
      case "object": return {};
      case "bigint": return BigInt(a.v || "5");
      case "boxedString": return new String(a.v || "6");
      case "boxedNumber": return new Number(a.v || "5");
      case "symbol": return Symbol("x");
      case "function": return function () { return 5; };
      case "date": return new Date(0);
      case "negzero": return -0;
      case "array": return [];
      case "num": return Number(a.v);           // numbers beyond JSON-safe text
      default: throw new Error("bad arg " + JSON.stringify(a));
    }
  }
  return a;
}

function encodeResult(r) {
  const t = typeof r;
  if (t === "string" || t === "boolean") return { type: t, value: r };
  if (t === "number") return { type: t, value: String(r) };
  if (r === undefined) return { type: "undefined" };
  if (r === null) return { type: "null" };
  return { type: t, value: String(r) };
}

// --- C09, JavaScript layer -----------------------------------------------------------------------------------
// With VERIF_JS_SPY set, every function the wasm module registers on globalThis (names taken from wasm/main.go by the
// engine, plus whatever else appears during start-up) is reached through a wrapper installed BEFORE the package's
// entry module runs, so references the package captures are wrappers too. The wrappers can (a) log calls and
// (b) replace an HMAC-derived return value (a string of 1..10 digits) by a substitute: a plain string (does the
// package's verdict follow a value that crossed into JavaScript?) or a string-like object that logs which of its
// characters are read (does a comparison in JavaScript read all positions, or stop early / use ===?).
const spy = { on: !!process.env.VERIF_JS_SPY, real: {}, log: [], mode: "off", substitute: null, reads: [] };
function looksDerived(v) { return typeof v === "string" && /^[0-9]{1,10}$/.test(v); }
function stringLike(str) {
  const o = {
    get length() { spy.reads.push("length"); return str.length; },
    charCodeAt(i) { spy.reads.push(i); return str.charCodeAt(i); },
    charAt(i) { spy.reads.push(i); return str.charAt(i); },
    codePointAt(i) { spy.reads.push(i); return str.codePointAt(i); },
    at(i) { spy.reads.push(i); return str.at(i); },
    [Symbol.toPrimitive]() { spy.reads.push("primitive"); return str; },
    toString() { spy.reads.push("primitive"); return str; },
    valueOf() { spy.reads.push("primitive"); return str; },
    [Symbol.iterator]() { spy.reads.push("iterator"); return str[Symbol.iterator](); },
    split(x) { spy.reads.push("split"); return str.split(x); },
  };
  return new Proxy(o, { get(t, k, r) {
    if (typeof k === "string" && /^[0-9]+$/.test(k)) { spy.reads.push(Number(k)); return str[k]; }
    return Reflect.get(t, k, r);
  } });
}
function wrap(name) {
  return function (...args) {
    const f = spy.real[name];
    const r = f.apply(this, args);
    if (spy.mode !== "off") {
      spy.log.push({ name, derived: looksDerived(r) });
      if (looksDerived(r) && spy.mode === "plain") return spy.substitute;
      if (looksDerived(r) && spy.mode === "object") return stringLike(spy.substitute);
    }
    return r;
  };
}
function trap(name) {
  if (Object.prototype.hasOwnProperty.call(spy.real, name)) return;
  spy.real[name] = undefined;
  const w = wrap(name);
  Object.defineProperty(globalThis, name, {
    configurable: true, enumerable: true,
    get() { return typeof spy.real[name] === "function" ? w : spy.real[name]; },
    set(v) { spy.real[name] = v; },
  });
}
const keysBefore = new Set(Object.getOwnPropertyNames(globalThis));
if (spy.on) {
  for (const n of (process.env.VERIF_JS_GLOBALS || "generateHOTP,generateTOTP,validateHOTP,validateTOTP,generateOTPURL").split(",")) if (n) trap(n);
}

(async () => {
  const init = require(path.resolve(__dirname, "src/index.js"));
  let pkg;
  try {
    pkg = await init();
  } catch (e) {
    process.stdout.write(JSON.stringify({ fatal: "init failed: " + e }) + "\n");
    process.exit(3);
  }
  if (spy.on) {
    // functions that appeared on globalThis during start-up under names the engine did not announce
    for (const n of Object.getOwnPropertyNames(globalThis)) {
      if (!keysBefore.has(n) && !(n in spy.real) && typeof globalThis[n] === "function" && n !== "Go") {
        const f = globalThis[n];
        delete globalThis[n];
        trap(n);
        globalThis[n] = f;
      }
    }
  }
  process.stdout.write(JSON.stringify({ ready: true }) + "\n");
  const rl = readline.createInterface({ input: process.stdin, terminal: false });
  rl.on("line", (line) => {
    let msg;
    try { msg = JSON.parse(line); } catch (e) { process.stdout.write(JSON.stringify({ fatal: "bad json" }) + "\n"); return; }
    if (msg.cmd === "names") {
      const out = {};
      for (const k of Object.keys(pkg)) {
        out[k] = { type: typeof pkg[k], sameAsGlobal: pkg[k] === globalThis[k], globalType: typeof globalThis[k] };
      }
      process.stdout.write(JSON.stringify({ names: out }) + "\n");
      return;
    }
    if (msg.cmd === "quit") { process.exit(0); }
    if (msg.cmd === "c09") {
      // one validation call through the package's export: plain, with derived values replaced by `substitute` as a
      // plain string, and with derived values replaced by a string-like object that logs which characters are read
      const f = pkg[msg.fn];
      const out = { missing: typeof f !== "function" };
      if (!out.missing) {
        const args = msg.args.map(decodeArg);
        const run = (mode) => {
          spy.mode = mode; spy.substitute = msg.substitute; spy.log = []; spy.reads = [];
          let r;
          try { r = encodeResult(f.apply(null, args)); } catch (e) { r = { type: "throw", value: String(e) }; }
          spy.mode = "off";
          return { result: r, calls: spy.log.slice(0, 64), reads: spy.reads.slice(0, 64) };
        };
        out.observe = run("observe");
        out.plain = run("plain");
        out.object = run("object");
      }
      process.stdout.write(JSON.stringify({ c09: out }) + "\n");
      return;
    }
    const results = [];
    for (const c of msg.calls) {
      let f = c.via === "pkg" ? pkg[c.fn] : globalThis[c.fn];
      if (typeof f !== "function") { results.push({ type: "missing" }); continue; }
      try {
        results.push(encodeResult(f.apply(null, c.args.map(decodeArg))));
      } catch (e) {
        results.push({ type: "throw", value: String(e) });
      }
    }
    process.stdout.write(JSON.stringify({ results }) + "\n");
  });
  rl.on("close", () => process.exit(0));
})();
