// Node driver for C20: loads the freshly built wasm module THROUGH the package's entry
// module (src/index.js, which loads src/wasm_exec.js and ../lib/otp.wasm) and executes
// call lists received as JSON lines on stdin. One JSON line out per line in.
"use strict";
const path = require("path");
const readline = require("readline");

// Go's println/log output goes through console.log in wasm_exec.js's fs polyfill: silence it.
const realLog = console.log;
console.log = () => {};
console.error = () => {};

function decodeArg(a) {
  if (a !== null && typeof a === "object" && "$" in a) {
    switch (a.$) {
      case "undefined": return undefined;
      case "NaN": return NaN;
      case "Infinity": return Infinity;
      case "-Infinity": return -Infinity;
      case "object": return {};
      case "bigint": return BigInt(a.v || "5");
      case "boxedString": return new String(a.v || "6");
      case "boxedNumber": return new Number(a.v || "5");
      case "symbol": return Symbol("x");
      case "function": return function () { return 5; };
      case "date": return new Date(0);
      case "negzero": return -0;
      case "array": return [];
      case "num": return Number(a.v);           // numbers beyond JSON-safe text
      default: throw new Error("bad arg " + JSON.stringify(a));
    }
  }
  return a;
}

function encodeResult(r) {
  const t = typeof r;
  if (t === "string" || t === "boolean") return { type: t, value: r };
  if (t === "number") return { type: t, value: String(r) };
  if (r === undefined) return { type: "undefined" };
  if (r === null) return { type: "null" };
  return { type: t, value: String(r) };
}

(async () => {
  const init = require(path.resolve(__dirname, "src/index.js"));
  let pkg;
  try {
    pkg = await init();
  } catch (e) {
    process.stdout.write(JSON.stringify({ fatal: "init failed: " + e }) + "\n");
    process.exit(3);
  }
  process.stdout.write(JSON.stringify({ ready: true }) + "\n");
  const rl = readline.createInterface({ input: process.stdin, terminal: false });
  rl.on("line", (line) => {
    let msg;
    try { msg = JSON.parse(line); } catch (e) { process.stdout.write(JSON.stringify({ fatal: "bad json" }) + "\n"); return; }
    if (msg.cmd === "names") {
      const out = {};
      for (const k of Object.keys(pkg)) {
        out[k] = { type: typeof pkg[k], sameAsGlobal: pkg[k] === globalThis[k], globalType: typeof globalThis[k] };
      }
      process.stdout.write(JSON.stringify({ names: out }) + "\n");
      return;
    }
    if (msg.cmd === "quit") { process.exit(0); }
    const results = [];
    for (const c of msg.calls) {
      let f = c.via === "pkg" ? pkg[c.fn] : globalThis[c.fn];
      if (typeof f !== "function") { results.push({ type: "missing" }); continue; }
      try {
        results.push(encodeResult(f.apply(null, c.args.map(decodeArg))));
      } catch (e) {
        results.push({ type: "throw", value: String(e) });
      }
    }
    process.stdout.write(JSON.stringify({ results }) + "\n");
  });
  rl.on("close", () => process.exit(0));
})();
