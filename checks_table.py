"""Per-property run plans used by ./check (sizes live in the Go tests: ev.Pick(quick, thorough))."""

def _h(pattern, quick=1, thorough=16, **kw):
    d = {"name": pattern, "pattern": pattern, "shards": {"quick": quick, "thorough": thorough}}
    d.update(kw)
    return d

CHECKS = {
    "C01": {
        "engine": "gotest", "moddir": "h",
        "runs": [_h("^TestC01_")],
        "fuzz": [{"target": "FuzzC01", "seconds": 90}],
        "rule": "generated (rapid) and enumerated HOTP cases against an independent RFC 4226 reference; formatting stage enumerated through build-tag hooks; see coverage.parts[*].rule for each generator and its non-triviality rule. distinct = distinct canonical JSON encodings of non-trivial cases (FNV-64) plus completely enumerated values",
        "assumptions": ["crypto/sha1, crypto/sha256, crypto/sha512 of the Go standard library are correct (the reference HMAC is written out over them)",
                        "the reference is self-checked against the RFC 4226 / RFC 6238 vectors at start-up"],
    },
}
