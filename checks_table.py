"""Per-property run plans used by ./check (sizes live in the Go tests: ev.Pick(quick, thorough))."""

def _h(pattern, quick=1, thorough=16, **kw):
    if pattern.startswith("^Test") and pattern.endswith("_"):
        pattern = "^(%s.*|TestRegress)$" % pattern[1:]
    d = {"name": pattern, "pattern": pattern, "shards": {"quick": quick, "thorough": thorough}}
    d.update(kw)
    return d

_ASSUME = ["crypto/sha1, crypto/sha256, crypto/sha512 of the Go standard library are correct (the reference HMAC is written out over them)",
           "the reference in /verif/h/ref is self-checked against RFC 4226 / 6238 / 6287 vectors at start-up"]

CHECKS = {
    "C02": {
        "engine": "gotest", "moddir": "h", "runs": [_h("^TestC02_")],
        "rule": "generated instants/periods/parameters against the reference HOTP at floor(unix/period); see coverage.parts[*].rule. distinct = distinct canonical JSON encodings of non-trivial cases",
        "assumptions": _ASSUME + ["time.Time.Unix() is correct"],
    },
    "C03": {
        "engine": "gotest", "moddir": "h", "runs": [_h("^TestC03_")],
        "rule": "generated (counter, window, submitted string) cases against exact membership in the reference window code set; see coverage.parts[*].rule",
        "assumptions": _ASSUME,
    },
    "C04": {
        "engine": "gotest", "moddir": "h", "runs": [_h("^TestC04_")],
        "rule": "generated (instant, period, skew, submitted string) cases against exact membership in the reference step-window code set, each call under a double watchdog; see coverage.parts[*].rule",
        "assumptions": _ASSUME + ["a call that misses a 10 s and then a 20 s watchdog (normal cost ~25 us) is unbounded work, not machine load"],
    },
    "C05": {
        "engine": "gotest", "moddir": "h", "runs": [_h("^TestC05_")],
        "fuzz": [{"target": "FuzzC05", "seconds": 90}],
        "rule": "generated suites (registered / parsed / hand-built) x secrets x admissible inputs against an independent RFC 6287 implementation, plus the unselected-field metamorphic relation; see coverage.parts[*].rule",
        "assumptions": _ASSUME,
    },
    "C06": {
        "engine": "gotest", "moddir": "h", "runs": [_h("^TestC06_")],
        "rule": "generated (suite, secret, input, submitted string) cases incl. failing generations; oracle: equivalence with GenerateOCRA on the same arguments (whose value C05 pins to the RFC); see coverage.parts[*].rule",
        "assumptions": _ASSUME + ["C06 is an equivalence between the two entry points; the absolute value is C05's subject"],
    },
    "C14": {
        "engine": "gotest", "moddir": "h", "runs": [_h("^TestC14_")],
        "rule": "complete enumeration of suite configurations and of field lengths 0..140 (single fields everywhere, pairs on the boundary set in quick and on the full square in thorough) against a predicate written from the statement; distinct = enumerated tuples, all distinct by construction",
        "assumptions": ["challenge formats 0..6 and password hashes 0..3 are the configuration values in scope (values outside the enums are unclassified)",
                        "admission depends on field lengths only, so contents are taken from 4 fixed patterns"],
    },
    "C01": {
        "engine": "gotest", "moddir": "h",
        "runs": [_h("^TestC01_")],
        "fuzz": [{"target": "FuzzC01", "seconds": 90}],
        "rule": "generated (rapid) and enumerated HOTP cases against an independent RFC 4226 reference; formatting stage enumerated through build-tag hooks; see coverage.parts[*].rule for each generator and its non-triviality rule. distinct = distinct canonical JSON encodings of non-trivial cases (FNV-64) plus completely enumerated values",
        "assumptions": ["crypto/sha1, crypto/sha256, crypto/sha512 of the Go standard library are correct (the reference HMAC is written out over them)",
                        "the reference is self-checked against the RFC 4226 / RFC 6238 vectors at start-up"],
    },
}
