#!/usr/bin/env python3
"""Applies each change kept under /verif/seeded/<id>/patch.diff to /repo's working tree, runs the check of the
property it breaks (quick tier by default) and expects exit 1; undoes the change straight afterwards.
usage: selftest/run_seeded.py [--tier quick|thorough] [--only substring ...]"""
import glob, json, os, subprocess, sys, time
ROOT = os.path.dirname(os.path.dirname(os.path.abspath(__file__)))
REPO = os.environ.get("VERIF_REPO", "/repo")
# private scratch roots, so that other checks running in /verif at the same time are not disturbed
SCRATCH = os.path.join(ROOT, ".work", "selftest-%d" % os.getpid())
os.environ["VERIF_WORKROOT"] = os.path.join(SCRATCH, "work")
os.environ["VERIF_REPLAYROOT"] = os.path.join(SCRATCH, "replays")
os.environ["VERIF_EVIDENCEROOT"] = os.path.join(SCRATCH, "evidence")

def sh(cmd, cwd=None):
    p = subprocess.run(cmd, cwd=cwd, shell=isinstance(cmd, str), stdout=subprocess.PIPE, stderr=subprocess.STDOUT, env=dict(os.environ, VERIF_REPO=REPO))
    return p.returncode, p.stdout.decode("utf-8", "replace")

def main():
    tier, only = "quick", []
    a = sys.argv[1:]
    while a:
        x = a.pop(0)
        if x == "--tier": tier = a.pop(0)
        elif x == "--only": only = a; break
    if sh("git status --porcelain", REPO)[1].strip():
        print("/repo is not clean"); sys.exit(3)
    rows = []
    for d in sorted(glob.glob(os.path.join(ROOT, "seeded", "*"))):
        name = os.path.basename(d)
        if only and not any(o in name for o in only): continue
        meta = json.load(open(os.path.join(d, "meta.json")))
        pids = meta.get("checks") or [meta["property"]]
        rc, out = sh(["git", "apply", os.path.join(d, "patch.diff")], REPO)
        if rc != 0:
            rows.append((name, "PATCH-DOES-NOT-APPLY", out.strip()[:80])); print(name, "patch does not apply"); continue
        res = {}
        for pid in pids:
            t0 = time.time()
            rc, out = sh(["./check", pid, tier], ROOT)
            res[pid] = (rc, round(time.time() - t0))
        sh("git checkout -- . && git clean -fdq", REPO)
        sh("rm -rf %s" % SCRATCH)
        verdict = "CAUGHT" if all(v[0] == 1 for v in res.values()) else "MISSED"
        if verdict == "MISSED" and meta.get("expected_verdict") == "MISSED":
            verdict = "MISSED (%s)" % meta.get("expected_note", "documented limit, see DESIGN.md")
        rows.append((name, verdict, " ".join("%s rc=%d %ds" % (k, v[0], v[1]) for k, v in res.items())))
        print("%-12s %-7s %s" % rows[-1], flush=True)
    with open(os.path.join(ROOT, "selftest", "SEEDED-%s.md" % tier), "w") as f:
        f.write("# Seeded changes (independent sub-agents) against the %s tier\n\n| change | verdict | detail |\n|---|---|---|\n" % tier)
        for r in rows: f.write("| %s | %s | %s |\n" % r)
    print("%d seeded changes, %d not caught" % (len(rows), len([r for r in rows if not r[1].startswith("CAUGHT")])))

if __name__ == "__main__":
    main()
