"""Mutants in the REST layer and the wasm binding."""
H = "internal/app/api/handlers.go"
M = [
 ("r01_rest_hotp_validate_ignores_algorithm", ["C18"], H, "\t\tok, _ := otp.ValidateHOTP(req.Secret, req.Code, req.Counter, &otp.Param{\n\t\t\tAlgorithm: algo,\n", "\t\tok, _ := otp.ValidateHOTP(req.Secret, req.Code, req.Counter, &otp.Param{\n\t\t\tAlgorithm: algo & 0,\n"),
 ("r02_rest_totp_validate_drops_skew", ["C18"], H, "\t\t\tPeriod:    req.Period,\n\t\t\tSkew:      req.Skew,\n", "\t\t\tPeriod:    req.Period,\n"),
 ("r03_rest_totp_generate_period_from_digits", ["C18"], H, "\t\t\tDigits:    digits,\n\t\t\tPeriod:    req.Period,\n\t\t})\n\t\tif err != nil {\n\t\t\twriteError(ctx, fasthttp.StatusInternalServerError, \"totp generation failed\"", "\t\t\tDigits:    digits,\n\t\t\tPeriod:    uint(digits) * 5,\n\t\t})\n\t\tif err != nil {\n\t\t\twriteError(ctx, fasthttp.StatusInternalServerError, \"totp generation failed\""),
 ("r04_rest_recovery_removed", ["C19"], "internal/app/api/server.go", "handler := Chain(Logger, Recovery)(routers)", "handler := Chain(Logger)(routers)"),
 ("r05_rest_decode_error_status_200", ["C19"], H, "\t\tvar req otpValidateReq\n\t\tif err := json.Unmarshal(ctx.PostBody(), &req); err != nil {\n\t\t\twriteError(ctx, fasthttp.StatusBadRequest, \"failed to decode body\"", "\t\tvar req otpValidateReq\n\t\tif err := json.Unmarshal(ctx.PostBody(), &req); err != nil {\n\t\t\twriteError(ctx, fasthttp.StatusOK, \"failed to decode body\""),
 ("r06_lib_totp_skew_cap_removed_seen_by_rest", ["C19"], "totp.go", "\tif param.Skew > 10 {\n\t\treturn false, ErrInvalidSkew\n\t}\n\n\tsecretBuf, err := DecodeSecret(secret)\n\tif err != nil {\n\t\treturn false, err\n\t}\n\n\tperiod", "\tsecretBuf, err := DecodeSecret(secret)\n\tif err != nil {\n\t\treturn false, err\n\t}\n\n\tperiod"),
 ("r07_rest_suite_config_crossed_flags", ["C18"], H, "\t\t\t\tIncludeCounter:   cfg.IncludeCounter,\n\t\t\t\tIncludeChallenge: cfg.IncludeChallenge,\n\t\t\t\tIncludePassword:  cfg.IncludePassword,", "\t\t\t\tIncludeCounter:   cfg.IncludePassword,\n\t\t\t\tIncludeChallenge: cfg.IncludeChallenge,\n\t\t\t\tIncludePassword:  cfg.IncludeCounter,"),
 ("r08_rest_url_totp_ignores_period", ["C18"], H, "\t\t\turl, err := otp.GenerateTOTPURL(otp.URLParam{\n\t\t\t\tIssuer:      req.Issuer,\n\t\t\t\tSecret:      req.Secret,\n\t\t\t\tPeriod:      req.Period,\n", "\t\t\turl, err := otp.GenerateTOTPURL(otp.URLParam{\n\t\t\t\tIssuer:      req.Issuer,\n\t\t\t\tSecret:      req.Secret,\n"),
 ("r09_rest_secret_echoes_request_algorithm", ["C18"], H, "\t\t\tAlgorithm: algo.String(),", "\t\t\tAlgorithm: string(ctx.QueryArgs().Peek(\"algorithm\")),"),
 ("r10_rest_ocra_validate_structured_suite_ignores_hash", ["C18"], H, "\t\tok, _ := otp.ValidateOCRA(req.Secret, req.Code, suite, input)", "\t\tif sc, isCfg := suite.(otp.RawSuite); isCfg && req.RawSuite == \"\" {\n\t\t\tsc.Hash = otp.SHA1\n\t\t\tsuite = sc\n\t\t}\n\t\tok, _ := otp.ValidateOCRA(req.Secret, req.Code, suite, input)"),
 ("r11_rest_hotp_generate_counter_32bit", ["C18"], H, "\t\tcode, err := otp.GenerateHOTP(req.Secret, req.Counter, &otp.Param{", "\t\tcode, err := otp.GenerateHOTP(req.Secret, uint64(uint32(req.Counter)), &otp.Param{"),
]
EXTRA = {}
FIRST = {"r05_rest_decode_error_status_200"}
