"""Mutants in the REST layer and the wasm binding."""
H = "internal/app/api/handlers.go"
M = [
 ("r01_rest_hotp_validate_ignores_algorithm", ["C18"], H, "\t\tok, _ := otp.ValidateHOTP(req.Secret, req.Code, req.Counter, &otp.Param{\n\t\t\tAlgorithm: algo,\n", "\t\tok, _ := otp.ValidateHOTP(req.Secret, req.Code, req.Counter, &otp.Param{\n\t\t\tAlgorithm: algo & 0,\n"),
 ("r02_rest_totp_validate_drops_skew", ["C18"], H, "\t\t\tPeriod:    req.Period,\n\t\t\tSkew:      req.Skew,\n", "\t\t\tPeriod:    req.Period,\n"),
 ("r03_rest_totp_generate_period_from_digits", ["C18"], H, "\t\t\tDigits:    digits,\n\t\t\tPeriod:    req.Period,\n\t\t})\n\t\tif err != nil {\n\t\t\twriteError(ctx, fasthttp.StatusInternalServerError, \"totp generation failed\"", "\t\t\tDigits:    digits,\n\t\t\tPeriod:    uint(digits) * 5,\n\t\t})\n\t\tif err != nil {\n\t\t\twriteError(ctx, fasthttp.StatusInternalServerError, \"totp generation failed\""),
 ("r04_rest_recovery_removed", ["C19"], "internal/app/api/server.go", "handler := Chain(Logger, Recovery)(routers)", "handler := Chain(Logger)(routers)"),
 ("r05_rest_decode_error_status_200", ["C19"], H, "\t\tvar req otpValidateReq\n\t\tif err := json.Unmarshal(ctx.PostBody(), &req); err != nil {\n\t\t\twriteError(ctx, fasthttp.StatusBadRequest, \"failed to decode body\"", "\t\tvar req otpValidateReq\n\t\tif err := json.Unmarshal(ctx.PostBody(), &req); err != nil {\n\t\t\twriteError(ctx, fasthttp.StatusOK, \"failed to decode body\""),
 ("r06_lib_totp_skew_cap_removed_seen_by_rest", ["C19"], "totp.go", "\tif param.Skew > 10 {\n\t\treturn false, ErrInvalidSkew\n\t}\n\n\tsecretBuf, err := DecodeSecret(secret)\n\tif err != nil {\n\t\treturn false, err\n\t}\n\n\tperiod", "\tsecretBuf, err := DecodeSecret(secret)\n\tif err != nil {\n\t\treturn false, err\n\t}\n\n\tperiod"),
 ("r07_rest_suite_config_crossed_flags", ["C18"], H, "\t\t\t\tIncludeCounter:   cfg.IncludeCounter,\n\t\t\t\tIncludeChallenge: cfg.IncludeChallenge,\n\t\t\t\tIncludePassword:  cfg.IncludePassword,", "\t\t\t\tIncludeCounter:   cfg.IncludePassword,\n\t\t\t\tIncludeChallenge: cfg.IncludeChallenge,\n\t\t\t\tIncludePassword:  cfg.IncludeCounter,"),
 ("r08_rest_url_totp_ignores_period", ["C18"], H, "\t\t\turl, err := otp.GenerateTOTPURL(otp.URLParam{\n\t\t\t\tIssuer:      req.Issuer,\n\t\t\t\tSecret:      req.Secret,\n\t\t\t\tPeriod:      req.Period,\n", "\t\t\turl, err := otp.GenerateTOTPURL(otp.URLParam{\n\t\t\t\tIssuer:      req.Issuer,\n\t\t\t\tSecret:      req.Secret,\n"),
 ("r09_rest_secret_echoes_request_algorithm", ["C18"], H, "\t\t\tAlgorithm: algo.String(),", "\t\t\tAlgorithm: string(ctx.QueryArgs().Peek(\"algorithm\")),"),
 ("r10_rest_ocra_validate_structured_suite_ignores_hash", ["C18"], H, "\t\tok, _ := otp.ValidateOCRA(req.Secret, req.Code, suite, input)", "\t\tif sc, isCfg := suite.(otp.RawSuite); isCfg && req.RawSuite == \"\" {\n\t\t\tsc.Hash = otp.SHA1\n\t\t\tsuite = sc\n\t\t}\n\t\tok, _ := otp.ValidateOCRA(req.Secret, req.Code, suite, input)"),
 ("r12_rest_totp_generate_any_method", ["C19"], H, "\t\tif !ctx.IsPost() {\n\t\t\twriteError(ctx, fasthttp.StatusMethodNotAllowed, \"method not allowed\", map[string]any{\n\t\t\t\t\"allowed_method\": fasthttp.MethodPost,\n\t\t\t})\n\t\t\treturn\n\t\t}\n\n\t\tvar req otpGenerateReq", "\t\tvar req otpGenerateReq"),
 ("r13_rest_unknown_path_200", ["C19"], "internal/app/api/routers.go", "\t\tctx.SetStatusCode(fasthttp.StatusNotFound)\n", "\t\tctx.SetStatusCode(fasthttp.StatusOK)\n"),
 ("r11_rest_hotp_generate_counter_32bit", ["C18"], H, "\t\tcode, err := otp.GenerateHOTP(req.Secret, req.Counter, &otp.Param{", "\t\tcode, err := otp.GenerateHOTP(req.Secret, uint64(uint32(req.Counter)), &otp.Param{"),
]
W = "wasm/main.go"
M += [
 ("w01_js_export_table_crossed", ["C20"], "otp-js/src/index.js", "          generateHOTP: globalThis.generateHOTP,", "          generateHOTP: globalThis.generateTOTP,"),
 ("w02_wasm_pow10_short", ["C20"], "derive_rfc4226_wasm.go", "\tfor i := 0; i < n; i++ {\n\t\tresult *= 10", "\tfor i := 1; i < n; i++ {\n\t\tresult *= 10"),
 ("w03_wasm_hotp_skew_range_unchecked", ["C20"], W, "\tif skew < 0 || skew > 10 {\n\t\treturn js.ValueOf(\"error: skew must be in range [0,10]\")\n\t}\n", ""),
 ("w04_wasm_totp_validate_ignores_period", ["C20"], W, "\tcounter := otp.TimeCounterFunc(t, uint(period))\n\n\tfor i := -int64(skew)", "\tcounter := otp.TimeCounterFunc(t, 30)\n\n\tfor i := -int64(skew)"),
 ("w05_wasm_negative_numbers_accepted", ["C20"], W, "\tif value < 0 {\n\t\treturn 0, fmt.Errorf(\"%s must be non-negative, got %d\", name, value)\n\t}\n", ""),
 ("w06_wasm_totp_window_forward_only", ["C20"], W, "\tfor i := -int64(skew); i <= int64(skew); i++ {\n\t\tvalid, err := otp.ValidateOTPWasm(code, secretBuf, counter+uint64(i), digits, algo)", "\tfor i := int64(0); i <= int64(skew); i++ {\n\t\tvalid, err := otp.ValidateOTPWasm(code, secretBuf, counter+uint64(i), digits, algo)"),
 ("w07_wasm_validate_short_compare", ["C20"], "validate_wasm.go", "\tif len(code) != digitInt {\n\t\treturn false, ErrInvalidCodeLength\n\t}\n", "\tif len(code) > digitInt {\n\t\treturn false, ErrInvalidCodeLength\n\t}\n\tif len(code) < digitInt {\n\t\tcode = code + \"0\"\n\t}\n"),
]
V = "validate.go"
CT = "\tif subtle.ConstantTimeCompare([]byte(code), []byte(expected)) == 1 {\n\t\treturn true, nil\n\t}\n"
M += [
 ("t01_compare_with_equals", ["C09"], V, CT, "\tif code == expected {\n\t\treturn true, nil\n\t}\n\t_ = subtle.ConstantTimeCompare\n"),
 ("t02_compare_with_bytes_equal", ["C09"], V, CT, "\tif bytes.Equal([]byte(code), []byte(expected)) {\n\t\treturn true, nil\n\t}\n\t_ = subtle.ConstantTimeCompare\n"),
 ("t03_compare_with_early_exit_loop", ["C09"], V, CT, "\tsame := true\n\tfor i := 0; i < len(code); i++ {\n\t\tif code[i] != expected[i] {\n\t\t\tsame = false\n\t\t\tbreak\n\t\t}\n\t}\n\tif same {\n\t\treturn true, nil\n\t}\n\t_ = subtle.ConstantTimeCompare\n"),
 ("t04_compare_with_equalfold", ["C09"], V, CT, "\tif strings.EqualFold(code, expected) {\n\t\treturn true, nil\n\t}\n\t_ = subtle.ConstantTimeCompare\n"),
 ("t05_wasm_compare_with_equals", ["C09"], "validate_wasm.go", "\tif subtle.ConstantTimeCompare([]byte(code), []byte(excepted)) == 1 {", "\t_ = subtle.ConstantTimeCompare\n\tif code == excepted {"),
 ("t06_first_char_precheck", ["C09"], V, CT, "\tif code[0] != expected[0] {\n\t\treturn false, ErrInvalidCode\n\t}\n" + CT),
 ("t07_rest_handler_precheck", ["C09"], H, "\t\tok, _ := otp.ValidateHOTP(req.Secret, req.Code, req.Counter, &otp.Param{", "\t\tif want, gerr := otp.GenerateHOTP(req.Secret, req.Counter, &otp.Param{Algorithm: algo, Digits: digits}); gerr == nil && strings.HasPrefix(want, req.Code[:1]) {\n\t\t\tctx.Response.Header.Set(\"X-Near\", \"1\")\n\t\t}\n\t\tok, _ := otp.ValidateHOTP(req.Secret, req.Code, req.Counter, &otp.Param{"),
 ("t08_hasprefix_fast_reject", ["C09"], V, CT, "\tif !strings.HasPrefix(expected, code[:2]) {\n\t\treturn false, ErrInvalidCode\n\t}\n" + CT),
 ("t09_ordering_compare", ["C09"], V, CT, "\tif strings.Compare(code, expected) == 0 {\n\t\treturn true, nil\n\t}\n\t_ = subtle.ConstantTimeCompare\n"),
]
EXTRA = {
 "t02_compare_with_bytes_equal": (V, "import (\n\t\"crypto/subtle\"\n)", "import (\n\t\"bytes\"\n\t\"crypto/subtle\"\n)"),
 "t04_compare_with_equalfold": (V, "import (\n\t\"crypto/subtle\"\n)", "import (\n\t\"crypto/subtle\"\n\t\"strings\"\n)"),
 "t08_hasprefix_fast_reject": (V, "import (\n\t\"crypto/subtle\"\n)", "import (\n\t\"crypto/subtle\"\n\t\"strings\"\n)"),
 "t09_ordering_compare": (V, "import (\n\t\"crypto/subtle\"\n)", "import (\n\t\"crypto/subtle\"\n\t\"strings\"\n)"),
}
FIRST = {"r05_rest_decode_error_status_200", "r12_rest_totp_generate_any_method"}
