#!/bin/sh
# usage: selftest/run_seeded_matrix.sh [seed ...]   (default 1 2 3) — runs run_seeded.py once per VERIF_SEED and writes
# selftest/SEEDED-matrix.md: one row per seeded change, one column per seed; a change caught at some seeds only is flaky.
cd "$(dirname "$0")/.." || exit 3
SEEDS=${*:-1 2 3}
for s in $SEEDS; do VERIF_SEED=$s python3 selftest/run_seeded.py > /tmp/seeded-matrix-$s.log 2>&1; cp selftest/SEEDED-quick.md /tmp/seeded-matrix-$s.md; done
python3 - $SEEDS <<'P'
import sys,re
seeds=sys.argv[1:]
rows={}
for s in seeds:
    for l in open('/tmp/seeded-matrix-%s.md'%s):
        m=re.match(r'\| (\S+) \| ([^|]+) \|', l)
        if m and m.group(1)!='change': rows.setdefault(m.group(1),{})[s]=m.group(2).strip().split(' ')[0]
with open('selftest/SEEDED-matrix.md','w') as f:
    f.write('# Seeded changes x VERIF_SEED (quick tier)\n\n| change | '+' | '.join('seed '+s for s in seeds)+' |\n|---|'+'---|'*len(seeds)+'\n')
    flaky=0
    for k in sorted(rows):
        v=[rows[k].get(s,'?') for s in seeds]
        if len(set(v))>1: flaky+=1
        f.write('| %s | %s |%s\n' % (k,' | '.join(v),' **flaky**' if len(set(v))>1 else ''))
    f.write('\n%d changes, %d with different verdicts across seeds\n' % (len(rows),flaky))
print(open('selftest/SEEDED-matrix.md').read()[-200:])
P
