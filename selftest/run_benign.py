#!/usr/bin/env python3
"""Applies each property-preserving change kept under /verif/benign/<id>/patch.diff to a scratch worktree of /repo and
runs ALL quick checks against it: every one must stay silent (exit 0). An alarm here is a false alarm of the machinery
(or the change is not benign after all - see the notes next to it).
usage: selftest/run_benign.py [--jobs N] [--checks C01,C07] [--only substring ...]"""
import glob, os, subprocess, sys, concurrent.futures as cf
ROOT = os.path.dirname(os.path.dirname(os.path.abspath(__file__)))
ALL = ["C%02d" % i for i in range(1, 21)]

def one(d):
    name = os.path.basename(d)
    w = "/tmp/bn-%s" % name
    s = os.path.join(ROOT, ".work", "benign-%s" % name)
    subprocess.run("git -C /repo worktree remove --force %s 2>/dev/null; rm -rf %s %s; git -C /repo worktree add -q --detach %s HEAD" % (w, w, s, w), shell=True)
    if subprocess.run(["git", "-C", w, "apply", os.path.join(d, "patch.diff")]).returncode != 0:
        subprocess.run("git -C /repo worktree remove --force %s" % w, shell=True)
        return name, ["PATCH-DOES-NOT-APPLY"]
    alarms = []
    env = dict(os.environ, VERIF_REPO=w, VERIF_WORKROOT=s + "/work", VERIF_REPLAYROOT=s + "/replays", VERIF_EVIDENCEROOT=s + "/evidence", VERIF_SEED=os.environ.get("VERIF_SEED", "1"))
    for pid in ALL:
        p = subprocess.run([os.path.join(ROOT, "check"), pid, "quick"], cwd=ROOT, env=env, stdout=subprocess.PIPE, stderr=subprocess.STDOUT)
        if p.returncode != 0:
            tail = [l for l in p.stdout.decode("utf-8", "replace").splitlines() if "VIOLATION" in l or "INCONCLUSIVE" in l or "violated" in l]
            alarms.append("%s rc=%d %s" % (pid, p.returncode, " | ".join(tail)[:300]))
    subprocess.run("git -C /repo worktree remove --force %s; git -C /repo worktree prune; rm -rf %s" % (w, s), shell=True)
    return name, alarms

def main():
    only, jobs = [], 3
    a = sys.argv[1:]
    while a:
        x = a.pop(0)
        if x == "--jobs": jobs = int(a.pop(0))
        elif x == "--checks":
            global ALL
            ALL = a.pop(0).split(",")
        elif x == "--only": only = a; break
    dirs = [d for d in sorted(glob.glob(os.path.join(ROOT, "benign", "*-[0-9]"))) if not only or any(o in d for o in only)]
    rows = []
    with cf.ThreadPoolExecutor(jobs) as ex:
        for name, alarms in ex.map(one, dirs):
            rows.append((name, alarms)); print("%-8s %s" % (name, "silent (%d/%d)" % (len(ALL), len(ALL)) if not alarms else "ALARM: " + "; ".join(alarms)), flush=True)
    if not only and len(ALL) == 20:
        with open(os.path.join(ROOT, "selftest", "BENIGN-quick.md"), "w") as f:
            f.write("# Property-preserving changes (independent sub-agents) against all 20 quick checks\n\n| change | verdict |\n|---|---|\n")
            for n, al in rows: f.write("| %s | %s |\n" % (n, "silent (20/20)" if not al else "ALARM: " + "; ".join(al)))
    print("%d benign changes, %d with an alarm" % (len(rows), len([r for r in rows if r[1]])))

if __name__ == "__main__":
    main()
