#!/usr/bin/env python3
"""Sensitivity self-test: applies each planted mutant to /repo's working tree, confirms it still builds and
passes the repository's own tests, runs the named checks (quick tier by default) and expects exit 1, then undoes it.
usage: selftest/run_mutants.py [--tier quick|thorough] [--only name-substring ...]"""
import os, subprocess, sys, time, json
ROOT = os.path.dirname(os.path.dirname(os.path.abspath(__file__)))
sys.path.insert(0, os.path.join(ROOT, "selftest"))
REPO = os.environ.get("VERIF_REPO", "/repo")
# private scratch roots, so that other checks running in /verif at the same time are not disturbed
SCRATCH = os.path.join(ROOT, ".work", "selftest-%d" % os.getpid())
os.environ["VERIF_WORKROOT"] = os.path.join(SCRATCH, "work")
os.environ["VERIF_REPLAYROOT"] = os.path.join(SCRATCH, "replays")
os.environ["VERIF_EVIDENCEROOT"] = os.path.join(SCRATCH, "evidence")

def sh(cmd, cwd=None, env=None, timeout=3600):
    p = subprocess.run(cmd, cwd=cwd, env=env, shell=isinstance(cmd, str), stdout=subprocess.PIPE, stderr=subprocess.STDOUT, timeout=timeout)
    return p.returncode, p.stdout.decode("utf-8", "replace")

def clean():
    sh("git checkout -- . && git clean -fdq", cwd=REPO)

def baseline_ok():
    env = dict(os.environ, GOPROXY="off")
    env.pop("GOFLAGS", None)
    rc, out = sh("go build ./... && go test -vet=off -count=1 ./... && cd internal/app && go build ./... ", cwd=REPO, env=env)
    return rc == 0, out

def main():
    from mutants import M, EXTRA
    FIRST = set()
    try:
        from mutants_ext import M as M2, EXTRA as E2, FIRST as F2
        M = M + M2; EXTRA = dict(EXTRA, **E2); FIRST = F2
    except ImportError:
        pass
    tier = "quick"
    only = []
    args = sys.argv[1:]
    while args:
        a = args.pop(0)
        if a == "--tier":
            tier = args.pop(0)
        elif a == "--only":
            only = args
            break
    rc, out = sh("git status --porcelain", cwd=REPO)
    if out.strip():
        print("/repo is not clean"); sys.exit(3)
    rows = []
    for name, props, f, old, new in M:
        if only and not any(o in name for o in only):
            continue
        edits = [(f, old, new)]
        if name in EXTRA:
            edits.append(EXTRA[name])
        okk = True
        for ef, eo, en in edits:
            p = os.path.join(REPO, ef)
            s = open(p).read()
            if s.count(eo) != 1 and not (name in FIRST and s.count(eo) > 1):
                print("%s: anchor text found %d times in %s" % (name, s.count(eo), ef)); okk = False; break
            open(p, "w").write(s.replace(eo, en, 1))
        if not okk:
            clean(); rows.append((name, props, "ANCHOR-MISSING", {})); continue
        sh("git diff > %s" % os.path.join(ROOT, "selftest", "mutants", name + ".diff"), cwd=REPO)
        good, out = baseline_ok()
        if not good:
            clean(); rows.append((name, props, "INVALID (does not build or fails the repository's tests)", {})); print(name, "INVALID"); print(out[-600:]); continue
        res = {}
        for pid in props:
            t0 = time.time()
            rc, out = sh(["./check", pid, tier], cwd=ROOT, env=dict(os.environ, VERIF_REPO=REPO))
            res[pid] = (rc, round(time.time() - t0, 1))
        clean()
        sh("rm -rf %s" % SCRATCH)
        verdict = "CAUGHT" if all(v[0] == 1 for v in res.values()) else "MISSED"
        rows.append((name, props, verdict, res))
        print("%-40s %-7s %s" % (name, verdict, " ".join("%s:rc=%d(%.0fs)" % (k, v[0], v[1]) for k, v in res.items())), flush=True)
    with open(os.path.join(ROOT, "selftest", "RESULTS-%s.md" % tier), "w") as f:
        f.write("# Planted-mutant sensitivity run (%s tier)\n\n| mutant | checks | verdict | detail |\n|---|---|---|---|\n" % tier)
        for name, props, verdict, res in rows:
            f.write("| %s | %s | %s | %s |\n" % (name, ",".join(props), verdict, " ".join("%s rc=%d %.0fs" % (k, v[0], v[1]) for k, v in res.items())))
    bad = [r for r in rows if r[2] != "CAUGHT"]
    print("%d mutants, %d not caught/invalid" % (len(rows), len(bad)))

if __name__ == "__main__":
    main()
