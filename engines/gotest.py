"""Engine: Go test binaries of a harness module (rapid properties, enumerations, native fuzz)."""
import glob
import os
import re
import subprocess
import time
from concurrent.futures import ThreadPoolExecutor


_ENV_KNOWN = {"TZ", "ZONEINFO", "TMPDIR", "HOME", "PATH", "PWD", "USER", "LOGNAME", "HOSTNAME", "TERM", "SHELL",
              "HTTP_PROXY", "HTTPS_PROXY", "NO_PROXY", "ALL_PROXY", "http_proxy", "https_proxy", "no_proxy", "all_proxy", "REQUEST_METHOD",
              "SSL_CERT_FILE", "SSL_CERT_DIR", "LOCALDOMAIN", "RES_OPTIONS", "HOSTALIASES", "RESOLV_HOST_CONF", "SYSTEMROOT", "NODE_OPTIONS",
              "XDG_CONFIG_HOME", "XDG_CACHE_HOME", "XDG_DATA_HOME", "XDG_RUNTIME_DIR", "COLUMNS", "LINES", "NO_COLOR"}


def _env_known(name):
    """Variables the harness itself or the Go standard library / toolchain reads."""
    return (name in _ENV_KNOWN or name.startswith("VERIF_") or name.startswith("GO") or name.startswith("CGO_")
            or name.startswith("RAPID") or name.startswith("NODE_"))


def _env_value(name):
    """What a consulted variable is set to for the second run, or None if it is left alone.
    Settings that are meant to be observational must not change results: variables that name a locale get a locale whose
    case mapping differs from ASCII's, debug / trace / verbosity switches are switched on. Everything else the code under
    test consults is an operator's policy knob (limits, sizes, time-outs, modes): what the service does once an operator
    has asked for a restriction is the operator's decision, not a statement about the code's behaviour by default, so these
    are listed in the evidence and not varied (F29)."""
    u = name.upper()
    if u in ("LANG", "LANGUAGE") or u.startswith("LC_") or "LOCALE" in u or u.endswith("_LANG"):
        return "tr_TR.UTF-8"
    if any(w in u for w in ("DEBUG", "TRACE", "VERBOSE")):
        return "1"
    return None


def _build_h09(ctx, mode="trace"):
    """Comparison-trace build: library, REST layer and selected std packages with -d=libfuzzer, the js/wasm
    validation files compiled natively through an overlay, an exported router hook added to the api package."""
    import json as _json, re as _re, shutil
    work, repo, root = ctx["work"], ctx["repo"], ctx["root"]
    ov = os.path.join(work, "ov")
    os.makedirs(ov, exist_ok=True)
    repl = {}
    for src, name in (("validate_wasm.go", "zz_verif_validate_w.go"), ("derive_rfc4226_wasm.go", "zz_verif_derive_w.go")):
        text = open(os.path.join(repo, src)).read()
        text2 = _re.sub(r"(?m)^//go:build js && wasm\s*$", "", text, count=1)
        if text2 == text:
            ctx["infra"]("%s has no 'js && wasm' build line any more: the overlay cannot compile it natively" % src)
        open(os.path.join(ov, name), "w").write(text2)
        repl[os.path.join(repo, name)] = os.path.join(ov, name)
    open(os.path.join(ov, "api_export.go"), "w").write(
        "package api\n\nimport \"github.com/valyala/fasthttp\"\n\n// VerifHandle runs the router on a request context (build overlay of /verif/h09).\nfunc VerifHandle(ctx *fasthttp.RequestCtx) { routers(ctx) }\n\n"
        "// VerifHandleRecovered runs the router behind the service's own Recovery middleware.\nfunc VerifHandleRecovered(ctx *fasthttp.RequestCtx) { Chain(Recovery)(routers)(ctx) }\n")
    repl[os.path.join(repo, "internal", "app", "api", "zz_verif_export.go")] = os.path.join(ov, "api_export.go")
    moddir = os.path.join(root, "h09")
    # ordering comparisons are implemented in assembly and emit no compiler event: hook the two
    # library entry points (strings.Compare, bytes.Compare) through an overlay of the std sources
    rc, goroot = ctx["run"](["go", "env", "GOROOT"], moddir, ctx["env"], 60)
    goroot = goroot.strip().splitlines()[-1] if rc == 0 and goroot.strip() else ""
    sc = os.path.join(goroot, "src", "strings", "compare.go")
    bc = os.path.join(goroot, "src", "bytes", "bytes.go")
    hooked = 0
    if os.path.exists(sc):
        t = open(sc).read()
        t2 = t.replace("func Compare(a, b string) int {\n\treturn bytealg.CompareString(a, b)\n}",
                       "// VerifCompareHook (overlay of /verif/h09) receives the operands of every Compare call.\nvar VerifCompareHook func(a, b string)\n\nfunc Compare(a, b string) int {\n\tif h := VerifCompareHook; h != nil {\n\t\th(a, b)\n\t}\n\treturn bytealg.CompareString(a, b)\n}")
        if t2 != t:
            open(os.path.join(ov, "strings_compare.go"), "w").write(t2)
            repl[sc] = os.path.join(ov, "strings_compare.go")
            hooked += 1
    if os.path.exists(bc):
        t = open(bc).read()
        t2 = t.replace("func Compare(a, b []byte) int {\n\treturn bytealg.Compare(a, b)\n}",
                       "func Compare(a, b []byte) int {\n\tif h := VerifCompareHook; h != nil {\n\t\th(a, b)\n\t}\n\treturn bytealg.Compare(a, b)\n}\n\n// VerifCompareHook (overlay of /verif/h09) receives the operands of every Compare call.\nvar VerifCompareHook func(a, b []byte)")
        if t2 != t:
            open(os.path.join(ov, "bytes_bytes.go"), "w").write(t2)
            repl[bc] = os.path.join(ov, "bytes_bytes.go")
            hooked += 1
    if hooked != 2:
        ctx["infra"]("cannot hook strings.Compare / bytes.Compare in %s (std sources differ from what the overlay expects)" % goroot)
    # time spent asleep is time too: time.Sleep is implemented in the runtime and the timer constructors compute their
    # deadline in time.when; both get a hook (overlay of time/sleep.go, and of the one linkname line in runtime/time.go
    # that gives the runtime's sleep its name), so that durations that depend on the submitted code become visible
    sleep_ok = False
    if not ctx.get("no_sleephook"):
        ts, rt = os.path.join(goroot, "src", "time", "sleep.go"), os.path.join(goroot, "src", "runtime", "time.go")
        if os.path.exists(ts) and os.path.exists(rt):
            t, r = open(ts).read(), open(rt).read()
            t2 = t.replace("func Sleep(d Duration)\n",
                           "func Sleep(d Duration) {\n\tif h := VerifDurationHook; h != nil {\n\t\th(int64(d))\n\t}\n\tverifRuntimeSleep(d)\n}\n\n"
                           "// verifRuntimeSleep is the runtime's sleep (overlay of /verif/h09: runtime/time.go pushes it under this name).\nfunc verifRuntimeSleep(d Duration)\n\n"
                           "// VerifDurationHook (overlay of /verif/h09) receives every duration handed to Sleep and to the timer constructors.\nvar VerifDurationHook func(d int64)\n", 1)
            t2 = t2.replace("func when(d Duration) int64 {\n", "func when(d Duration) int64 {\n\tif h := VerifDurationHook; h != nil {\n\t\th(int64(d))\n\t}\n", 1)
            r2 = r.replace("//go:linkname timeSleep time.Sleep\n", "//go:linkname timeSleep time.verifRuntimeSleep\n", 1)
            if t2.count("VerifDurationHook") == 4 and r2 != r:
                open(os.path.join(ov, "time_sleep.go"), "w").write(t2)
                open(os.path.join(ov, "runtime_time.go"), "w").write(r2)
                repl[ts] = os.path.join(ov, "time_sleep.go")
                repl[rt] = os.path.join(ov, "runtime_time.go")
                sleep_ok = True
    # the js/wasm binding itself (wasm/main.go, package main, imports syscall/js) is compiled natively as a sub-package of
    # the harness against a stand-in syscall/js, so that its own window loops and argument handling are traced too
    wm_ok = False
    if not ctx.get("no_wasmmain"):
        try:
            text = open(os.path.join(repo, "wasm", "main.go")).read()
            text2 = _re.sub(r"(?m)^//go:build js && wasm\s*$", "", text, count=1)
            text2 = _re.sub(r"(?m)^package main\s*$", "package wasmmain", text2, count=1)
            jsdir = os.path.join(goroot, "src", "syscall", "js")
            if text2 != text and "package wasmmain" in text2 and os.path.isdir(jsdir):
                open(os.path.join(ov, "wasmmain_main.go"), "w").write(text2)
                open(os.path.join(ov, "wasmmain_export.go"), "w").write(
                    "package wasmmain\n\n// VerifMain runs the binding's main (registers the exported functions, then blocks).\nfunc VerifMain() { main() }\n")
                repl[os.path.join(moddir, "wasmmain", "main.go")] = os.path.join(ov, "wasmmain_main.go")
                repl[os.path.join(moddir, "wasmmain", "zz_export.go")] = os.path.join(ov, "wasmmain_export.go")
                shutil.copy(os.path.join(moddir, "fakejs", "js.go.txt"), os.path.join(ov, "fakejs_js.go"))
                open(os.path.join(ov, "fakejs_func.go"), "w").write("package js\n")
                repl[os.path.join(jsdir, "js.go")] = os.path.join(ov, "fakejs_js.go")
                repl[os.path.join(jsdir, "func.go")] = os.path.join(ov, "fakejs_func.go")
                wm_ok = True
        except OSError:
            wm_ok = False
    # the shared part/recorder helpers of the main harness join the package through the overlay as well: nothing is
    # written into the source directory, so any number of checks can build at the same time
    shutil.copy(os.path.join(root, "h", "common_test.go"), os.path.join(ov, "zz_common_test.go"))
    repl[os.path.join(moddir, "zz_common_test.go")] = os.path.join(ov, "zz_common_test.go")
    _json.dump({"Replace": repl}, open(os.path.join(ov, "overlay.json"), "w"))
    out = os.path.join(work, "h09.%s.test" % mode)
    env = dict(ctx["env"])
    cmd = ["./build.sh", out, os.path.join(ov, "overlay.json"), mode + ("" if wm_ok else ":nowasmmain") + ("" if sleep_ok else ":nosleephook")]
    if repo != "/repo":
        src = open(os.path.join(moddir, "go.mod")).read().replace("=> /repo", "=> " + repo)
        mf = os.path.join(work, "h09.go.mod")
        open(mf, "w").write(src)
        shutil.copy(os.path.join(moddir, "go.sum"), os.path.join(work, "h09.go.sum"))
        cmd.append("-modfile=" + mf)
    rc, o = ctx["run"](cmd, moddir, env, 1800, os.path.join(work, "build.log"))
    if rc != 0 and sleep_ok and ("verifRuntimeSleep" in o or "VerifDurationHook" in o or "runtime/time.go" in o or "time/sleep.go" in o):
        # the std sources differ from what the overlay expects: build without the duration hook; the evidence says so
        ctx["no_sleephook"] = True
        ctx["sleephook_error"] = o[-1500:]
        return _build_h09(ctx, mode)
    if rc != 0 and wm_ok:
        # the binding did not compile against the stand-in syscall/js (it uses more of the API than is modelled):
        # build without that part rather than giving up on the whole property; the evidence says so
        ctx["no_wasmmain"] = True
        ctx["wasmmain_error"] = o[-1500:]
        return _build_h09(ctx, mode)
    if rc != 0:
        ctx["infra"]("instrumented build failed", o)
    if mode == "fuzz":
        return moddir, out
    return moddir, {"plain": out}


def _bins(ctx):
    spec = ctx["spec"]
    if spec.get("builder") == "h09":
        moddir, bins = _build_h09(ctx)
        if spec.get("also_h"):  # parts of the property that live in the main harness module (they need Node / the wasm module)
            hmod = os.path.join(ctx["root"], "h")
            path = os.path.join(ctx["work"], "h.plain.test")
            ctx["build"](hmod, path, ctx["work"], ctx["env"], tags="verif")
            bins["hplain"] = path
        return moddir, bins
    moddir = os.path.join(ctx["root"], spec.get("moddir", "h"))
    need = set(r.get("bin", "plain") for r in spec["runs"])
    if ctx["tier"] == "thorough" and any(f.get("module") != "h09" for f in spec.get("fuzz", [])) and not ctx.get("replay"):
        need.add("fuzz")  # built with -fuzz so that the binary carries coverage instrumentation
    out = {}
    for kind in sorted(need):
        path = os.path.join(ctx["work"], "h.%s.test" % kind)
        extra = list(spec.get("build_extra") or [])
        if kind == "fuzz":
            extra.append("-fuzz=Fuzz")
        ctx["build"](moddir, path, ctx["work"], ctx["env"], race=(kind == "race"), tags=spec.get("tags", "verif"),
                     extra=extra, pkg=spec.get("pkg", "."))
        out[kind] = path
    return moddir, out


def _prebuild(ctx):
    """Builds the artefacts a check needs from the repository's working tree (REST server, wasm module)."""
    spec, work, repo = ctx["spec"], ctx["work"], ctx["repo"]
    for what in spec.get("prebuild", []):
        env = dict(os.environ)
        env["GOPROXY"] = "off"
        for k in ("GOFLAGS", "GOWORK", "GOTOOLCHAIN", "GOSUMDB"):
            env.pop(k, None)
        if what == "server":
            appdir = os.path.join(repo, "internal", "app")
            rc, out = ctx["run"](["go", "list", "-m", "-f", "{{.Dir}}", "github.com/ja7ad/otp"], appdir, env, 120)
            if rc != 0 or out.strip().splitlines()[-1] != repo:
                ctx["infra"]("the REST module does not resolve github.com/ja7ad/otp to %s (workspace mode expected)" % repo, out)
            binp = os.path.join(work, "server")
            rc, out = ctx["run"](["go", "build", "-o", binp, "./cmd"], appdir, env, 900, os.path.join(work, "build.log"))
            if rc != 0:
                ctx["infra"]("REST server build failed", out)
            ctx["env"]["VERIF_SERVER_BIN"] = binp
            if ctx["tier"] == "thorough" and spec.get("race_server"):
                binr = os.path.join(work, "server-race")
                rc, out = ctx["run"](["go", "build", "-race", "-o", binr, "./cmd"], appdir, env, 900, os.path.join(work, "build.log"))
                if rc != 0:
                    ctx["infra"]("REST server race build failed", out)
                ctx["env"]["VERIF_SERVER_BIN_RACE"] = binr
        elif what == "wasm":
            env["GOOS"], env["GOARCH"] = "js", "wasm"
            d = os.path.join(work, "js", "lib")
            os.makedirs(d, exist_ok=True)
            os.makedirs(os.path.join(work, "js", "src"), exist_ok=True)
            rc, out = ctx["run"](["go", "build", "-o", os.path.join(d, "otp.wasm"), "./wasm"], repo, env, 900, os.path.join(work, "build.log"))
            if rc != 0:
                ctx["infra"]("wasm build failed", out)
            import shutil
            for f in ("index.js", "wasm_exec.js"):
                shutil.copy(os.path.join(repo, "otp-js", "src", f), os.path.join(work, "js", "src", f))
            shutil.copy(os.path.join(ctx["root"], "wasm", "driver.js"), os.path.join(work, "js", "driver.js"))
            ctx["env"]["VERIF_JS_DIR"] = os.path.join(work, "js")
            # names the binding registers on globalThis (the C09 JavaScript-layer part wraps them before start-up)
            try:
                names = sorted(set(re.findall(r'\.Set\(\s*"([A-Za-z_$][\w$]*)"', open(os.path.join(repo, "wasm", "main.go")).read())))
            except OSError:
                names = []
            ctx["env"]["VERIF_JS_GLOBALS"] = ",".join(names)


def execute(ctx):
    spec, tier, seed, work = ctx["spec"], ctx["tier"], ctx["seed"], ctx["work"]
    moddir, bins = _bins(ctx)
    _prebuild(ctx)
    jobs = []
    max_shards = 1
    for r in spec["runs"]:
        if tier not in r.get("tiers", ("quick", "thorough")):
            continue
        n = r.get("shards", {}).get(tier, 1)
        max_shards = max(max_shards, n)
        tmo = r.get("timeout", {}).get(tier, 600 if tier == "quick" else 3600)
        for k in range(n):
            env = dict(ctx["env"])
            env["VERIF_SHARD"] = str(k)
            env["VERIF_NSHARDS"] = str(n)
            env.update({k: v.replace("{work}", work) for k, v in r.get("env", {}).items()})
            cmd = [bins[r.get("bin", "plain")], "-test.run", r["pattern"], "-test.count=1",
                   "-rapid.seed=%d" % (seed * 1000 + k + 1), "-rapid.nofailfile", "-rapid.shrinktime=12s",
                   "-test.timeout=%ds" % tmo,
                   # the testing package logs every os.Getenv / file access made while the tests run
                   "-test.testlogfile=" + os.path.join(work, "testlog-%d-%d.txt" % (len(jobs), k))] + r.get("args", [])
            # a cap on the address space of the pure library checks (a change that makes the library allocate without end
            # must end the worker, not the machine): not for race builds (the race detector's shadow memory) and not for
            # workers that start Node or the REST server themselves
            if r.get("bin", "plain") == "plain" and not spec.get("prebuild") and spec.get("builder") != "h09" and os.environ.get("VERIF_NO_MEMCAP") != "1":
                cmd = ["sh", "-c", "ulimit -v %d 2>/dev/null; exec \"$@\"" % (24 << 20), "sh"] + cmd
            jobs.append(("%s#%d" % (r["name"], k), cmd, env, tmo + 60, os.path.join(ctx["root"], r["cwd"]) if r.get("cwd") else moddir))
    failed = []

    def one(job):
        name, cmd, env, tmo, cwd = job
        rc, out = ctx["run"](cmd, cwd, env, tmo, os.path.join(work, "run.log"))
        return name, rc, out

    with ThreadPoolExecutor(max_workers=ctx["ncpu"]) as ex:
        for name, rc, out in ex.map(one, jobs):
            if rc != 0:
                failed.append((name, rc, out))
    extra = {}
    # Environment as an input: any environment variable consulted while the checks ran, other than the
    # harness's own and the ones the standard library reads, is consulted by the code under test. The
    # checks are then run once more with those variables set; their oracles are unchanged.
    if not failed:
        consulted = set()
        for f in glob.glob(os.path.join(work, "testlog-*.txt")):
            for line in open(f, errors="replace"):
                if line.startswith("getenv "):
                    consulted.add(line[7:].strip())
        unknown = sorted(n for n in consulted if not _env_known(n))
        extra["environment"] = {"variables_consulted_by_code_under_test": unknown}
        extra["environment"]["left_alone_as_operator_policy"] = [n for n in unknown if _env_value(n) is None]
        unknown = [n for n in unknown if _env_value(n) is not None]
        if unknown:
            def again(job):
                name, cmd, env, tmo, cwd = job
                env = dict(env)
                for n in unknown:
                    env[n] = _env_value(n)
                env["VERIF_EXTRA_ENV"] = "\x1f".join("%s=%s" % (n, _env_value(n)) for n in unknown)
                cmd = [c for c in cmd if not c.startswith("-test.testlogfile=")]
                rc, out = ctx["run"](cmd, cwd, env, tmo, os.path.join(work, "run.log"))
                return name + "[env " + ",".join("%s=%s" % (n, _env_value(n)) for n in unknown) + "]", rc, out
            with ThreadPoolExecutor(max_workers=ctx["ncpu"]) as ex:
                for name, rc, out in ex.map(again, jobs):
                    if rc != 0:
                        failed.append((name, rc, out))
            extra["environment"]["rerun_with_variables_set"] = True
    if tier == "thorough" and not failed:
        fz = {}
        for f in spec.get("fuzz", []):
            secs = int(os.environ.get("VERIF_FUZZ_SECONDS") or f.get("seconds", 60))  # longer background campaigns: VERIF_FUZZ_SECONDS=600
            cache = os.path.join(work, "fuzzcache-" + f["target"])
            os.makedirs(cache, exist_ok=True)
            fmod, fbin = moddir, bins.get("fuzz")
            if f.get("module") == "h09":
                fmod, fbin = _build_h09(ctx, mode="fuzz")
            corpus_dir = os.path.join(fmod, "testdata", "fuzz", f["target"])
            before = set(os.listdir(corpus_dir)) if os.path.isdir(corpus_dir) else set()
            cmd = [fbin, "-test.run", "^$", "-test.fuzz", "^%s$" % f["target"],
                   "-test.fuzztime=%ds" % secs, "-test.fuzzcachedir=" + cache, "-test.timeout=%ds" % (secs + 600)]
            if os.environ.get("VERIF_FUZZ_WORKERS"):
                cmd.append("-test.parallel=" + os.environ["VERIF_FUZZ_WORKERS"])
            rc, out = ctx["run"](cmd, fmod, ctx["env"], secs + 900, os.path.join(work, "run.log"))
            after = set(os.listdir(corpus_dir)) if os.path.isdir(corpus_dir) else set()
            for nf in after - before:  # crashers are reported through the JSON replay file, not kept here
                os.replace(os.path.join(corpus_dir, nf), os.path.join(work, "fuzz-crasher-%s-%s" % (f["target"], nf)))
            m = re.findall(r"execs: (\d+)", out)
            ni = re.findall(r"new interesting: \d+ \(total: (\d+)\)", out)
            if "not built with coverage instrumentation" in out:
                failed.append(("fuzz:" + f["target"], 3, "fuzz binary lacks coverage instrumentation\n" + out[-2000:]))
                break
            fz[f["target"]] = {"seconds": secs, "execs": int(m[-1]) if m else 0,
                               "corpus_entries_with_new_coverage": int(ni[-1]) if ni else 0}
            if rc != 0:
                failed.append(("fuzz:" + f["target"], rc, out))
                break
        if fz:
            extra["native_fuzz"] = fz
    if ctx.get("no_sleephook"):
        extra["sleep_durations_not_traced"] = "time.Sleep / timer durations were not observed in this run (the overlay of time/sleep.go and runtime/time.go did not apply): " + ctx.get("sleephook_error", "std sources differ")[-600:]
    if ctx.get("wasmmain_error"):
        extra["wasm_main_not_traced"] = "wasm/main.go did not compile against the stand-in syscall/js; its exported functions were not traced in this run: " + ctx["wasmmain_error"][-600:]
    return {"failed": failed, "extra_cov": extra, "nshards": max_shards}


def replay(ctx):
    import json as _json
    try:
        part = _json.load(open(ctx["replay"])).get("part", "")
    except Exception:
        part = ""
    if part == "fuzz-inprocess":  # cases of the in-process REST fuzz target live in the h09 module
        moddir, bins = _build_h09(ctx)
    else:
        moddir, bins = _bins(ctx)
        _prebuild(ctx)
    env = dict(ctx["env"])
    env["VERIF_REPLAY"] = ctx["replay"]
    try:
        for kv in _json.load(open(ctx["replay"])).get("env") or []:
            k, _, v = kv.partition("=")
            env[k] = v
    except Exception:
        pass
    kind = "plain" if "plain" in bins else sorted(bins)[0]
    if part == "js-layer" and "hplain" in bins:  # C09's JavaScript-layer part lives in the main harness module
        kind, moddir = "hplain", os.path.join(ctx["root"], "h")
    rc, out = ctx["run"]([bins[kind], "-test.run", "^TestReplay$", "-test.count=1", "-test.v", "-test.timeout=600s"],
                         moddir, env, 700)
    if "REPLAY-VIOLATION" in out:
        return 1, out
    if rc not in (0, None) and ("fatal error:" in out or "\npanic:" in out or "SIGSEGV" in out):
        # the stored case kills the test process again (an unrecoverable runtime error in the code under test)
        return 1, out
    if rc == 0 and "REPLAY-PASS" in out:
        return 0, out
    return 2, out
