"""Engine: Go test binaries of a harness module (rapid properties, enumerations, native fuzz)."""
import glob
import os
import re
import subprocess
import time
from concurrent.futures import ThreadPoolExecutor


def _bins(ctx):
    spec = ctx["spec"]
    moddir = os.path.join(ctx["root"], spec.get("moddir", "h"))
    need = set(r.get("bin", "plain") for r in spec["runs"])
    if ctx["tier"] == "thorough" and spec.get("fuzz"):
        need.add("plain")
    out = {}
    for kind in sorted(need):
        path = os.path.join(ctx["work"], "h.%s.test" % kind)
        ctx["build"](moddir, path, ctx["work"], ctx["env"], race=(kind == "race"), tags=spec.get("tags", "verif"),
                     extra=spec.get("build_extra"), pkg=spec.get("pkg", "."))
        out[kind] = path
    return moddir, out


def execute(ctx):
    spec, tier, seed, work = ctx["spec"], ctx["tier"], ctx["seed"], ctx["work"]
    moddir, bins = _bins(ctx)
    jobs = []
    max_shards = 1
    for r in spec["runs"]:
        if tier not in r.get("tiers", ("quick", "thorough")):
            continue
        n = r.get("shards", {}).get(tier, 1)
        max_shards = max(max_shards, n)
        tmo = r.get("timeout", {}).get(tier, 600 if tier == "quick" else 3600)
        for k in range(n):
            env = dict(ctx["env"])
            env["VERIF_SHARD"] = str(k)
            env["VERIF_NSHARDS"] = str(n)
            env.update({k: v.replace("{work}", work) for k, v in r.get("env", {}).items()})
            cmd = [bins[r.get("bin", "plain")], "-test.run", r["pattern"], "-test.count=1",
                   "-rapid.seed=%d" % (seed * 1000 + k + 1), "-rapid.nofailfile",
                   "-test.timeout=%ds" % tmo] + r.get("args", [])
            jobs.append(("%s#%d" % (r["name"], k), cmd, env, tmo + 60))
    failed = []

    def one(job):
        name, cmd, env, tmo = job
        rc, out = ctx["run"](cmd, moddir, env, tmo, os.path.join(work, "run.log"))
        return name, rc, out

    with ThreadPoolExecutor(max_workers=ctx["ncpu"]) as ex:
        for name, rc, out in ex.map(one, jobs):
            if rc != 0:
                failed.append((name, rc, out))
    extra = {}
    if tier == "thorough" and not failed:
        fz = {}
        for f in spec.get("fuzz", []):
            secs = f.get("seconds", 60)
            cache = os.path.join(work, "fuzzcache-" + f["target"])
            os.makedirs(cache, exist_ok=True)
            corpus_dir = os.path.join(moddir, "testdata", "fuzz", f["target"])
            before = set(os.listdir(corpus_dir)) if os.path.isdir(corpus_dir) else set()
            cmd = [bins["plain"], "-test.run", "^$", "-test.fuzz", "^%s$" % f["target"],
                   "-test.fuzztime=%ds" % secs, "-test.fuzzcachedir=" + cache, "-test.timeout=%ds" % (secs + 600)]
            rc, out = ctx["run"](cmd, moddir, ctx["env"], secs + 900, os.path.join(work, "run.log"))
            after = set(os.listdir(corpus_dir)) if os.path.isdir(corpus_dir) else set()
            for nf in after - before:  # crashers are reported through the JSON replay file, not kept here
                os.replace(os.path.join(corpus_dir, nf), os.path.join(work, "fuzz-crasher-%s-%s" % (f["target"], nf)))
            m = re.findall(r"execs: (\d+)", out)
            ni = re.findall(r"new interesting: (\d+)", out)
            fz[f["target"]] = {"seconds": secs, "execs": int(m[-1]) if m else 0,
                               "new_interesting": int(ni[-1]) if ni else 0}
            if rc != 0:
                failed.append(("fuzz:" + f["target"], rc, out))
                break
        if fz:
            extra["native_fuzz"] = fz
    return {"failed": failed, "extra_cov": extra, "nshards": max_shards}


def replay(ctx):
    moddir, bins = _bins(ctx)
    env = dict(ctx["env"])
    env["VERIF_REPLAY"] = ctx["replay"]
    kind = "plain" if "plain" in bins else sorted(bins)[0]
    rc, out = ctx["run"]([bins[kind], "-test.run", "^TestReplay$", "-test.count=1", "-test.v", "-test.timeout=600s"],
                         moddir, env, 700)
    if "REPLAY-VIOLATION" in out:
        return 1, out
    if rc == 0 and "REPLAY-PASS" in out:
        return 0, out
    return 2, out
