#!/usr/bin/env python3
"""Regenerates MANIFEST.json from checks_table.py (claimed checks) and properties.jsonl (everything else -> not_applicable)."""
import json, os, subprocess
ROOT = os.path.dirname(os.path.abspath(__file__))
import sys
sys.path.insert(0, ROOT)
from checks_table import CHECKS
from manifest_text import TEXT, NOT_APPLICABLE, HOOK_COMMITS

props = [json.loads(l)["id"] for l in open(os.path.join(ROOT, "properties.jsonl")) if l.strip()]
checks = []
for pid in props:
    if pid not in CHECKS or pid not in TEXT:
        continue
    t = TEXT[pid]
    c = {
        "property_id": pid,
        "quick_cmd": "./check %s quick" % pid,
        "thorough_cmd": "./check %s thorough" % pid,
        "evidence_file": "/verif/evidence/%s.json" % pid,
        "replay_cmd_template": "./check %s --replay {path}" % pid,
        "engine": CHECKS[pid]["engine"],
        "level_claimed": {"category": CHECKS[pid].get("level", "exploration"), "text": t["level"], "design_ref": "DESIGN.md §4 " + pid},
        "level_note": t["note"],
        "technique": t["technique"],
    }
    checks.append(c)
na = []
for pid in props:
    if pid in CHECKS and pid in TEXT:
        continue
    na.append({"property_id": pid, "reason": NOT_APPLICABLE.get(pid, "check not built yet in this round (planned; see DESIGN.md §4)")})
m = {
    "version": 1,
    "setup_cmd": "./setup.sh",
    "hooks": {
        "guard": "verif",
        "enable": "go build tag: every harness binary is compiled with -tags verif (file /repo/verif_hooks.go, //go:build verif)",
        "baseline_off_cmd": "cd /repo && GOPROXY=off go test -vet=off -count=1 ./... && cd /repo/internal/app && GOPROXY=off go test -vet=off -count=1 ./...",
        "source_commits": HOOK_COMMITS,
        "add_only": True,
    },
    "engines": [
        {"name": "gotest", "path": "engines/gotest.py", "serves_properties": [p for p in props if p in CHECKS and CHECKS[p]["engine"] == "gotest"],
         "kind_free_text": "Go test binaries (pgregory.net/rapid v1.3.0 generators with shrinking, complete enumerations, native go fuzzing in the thorough tier) against independent reference oracles in /verif/h/ref"},
    ],
    "checks": checks,
    "not_applicable": na,
    "notes": "Driver: ./check <ID> quick|thorough|--replay <file>; exit 0 held / 1 VIOLATION / 2 inconclusive. known_findings.json lists fixed defects (suppress nothing).",
}
for eng, path, txt in [("race", "engines/gotest.py", None)]:
    pass
json.dump(m, open(os.path.join(ROOT, "MANIFEST.json"), "w"), indent=1, ensure_ascii=False)
print("MANIFEST.json: %d checks, %d not_applicable" % (len(checks), len(na)))
