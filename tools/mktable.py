#!/usr/bin/env python3
"""usage: tools/mktable.py <dir with quick evidence> <dir with thorough evidence> — prints the 'Measured sizes' table of DESIGN.md"""
import json, os, sys
q, t = sys.argv[1], sys.argv[2]
def row(d, pid):
    p = os.path.join(d, pid + ".json")
    if not os.path.exists(p):
        return None
    e = json.load(open(p)); c = e["coverage"]
    return e["tier"], c["evaluations"], c["distinct_nontrivial"], e["wall_s"], ("distinct count is a lower bound" in c["rule"]), c.get("fuzz", {})
print("| Check | quick cases | quick distinct non-trivial | quick wall | thorough cases | thorough distinct non-trivial | thorough wall |")
print("|---|---|---|---|---|---|---|")
for i in range(1, 21):
    pid = "C%02d" % i
    a, b = row(q, pid), row(t, pid)
    def f(r):
        if not r:
            return ["—", "—", "—"]
        return ["{:,}".format(r[1]), "{:,}".format(r[2]) + (" (lower bound)" if r[4] else ""), "%d s" % round(r[3])]
    print("| %s | %s | %s |" % (pid, " | ".join(f(a)), " | ".join(f(b))))
