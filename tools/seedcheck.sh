#!/bin/sh
# usage: tools/seedcheck.sh <ID>   — independent confirmation of a sub-agent's seeded change in a fresh scratch worktree:
# the patch applies to /repo HEAD, builds, passes the repository's tests; its demonstration fails with it and passes without it.
ID=$1; OUT=/tmp/seed/$ID.out; W=/tmp/sv-$ID
export GOPROXY=off; unset GOFLAGS
git -C /repo worktree remove --force $W 2>/dev/null; rm -rf $W
git -C /repo worktree add -q --detach $W HEAD || exit 3
cd $W
if ! git apply $OUT/patch.diff; then echo "PATCH DOES NOT APPLY to HEAD"; git -C /repo worktree remove --force $W; exit 3; fi
echo "== build"; go build ./... && (cd internal/app && go build ./...) && GOOS=js GOARCH=wasm go build -o /dev/null ./wasm || echo "BUILD FAILED"
echo "== existing tests with the change"; go test -vet=off -count=1 ./... 2>&1 | tail -2
if [ -f $OUT/demo_test.go ]; then
  cp $OUT/demo_test.go $W/zz_demo_test.go
  echo "== demo WITH the change (must fail)"; go test -vet=off -count=1 -run 'Demo|C[0-9][0-9]|demo|RandomSecret' . 2>&1 | tail -4
  git apply -R $OUT/patch.diff
  echo "== demo WITHOUT the change (must pass)"; go test -vet=off -count=1 -run 'Demo|C[0-9][0-9]|demo|RandomSecret' . 2>&1 | tail -3
else
  echo "(no demo_test.go: run the agent's script by hand)"; ls $OUT
fi
cd /; git -C /repo worktree remove --force $W
