#!/bin/sh
# usage: tools/seedrun.sh <ID> [check-id ...] — apply /tmp/seed/<ID>.out/patch.diff to a private scratch worktree of /repo and run
# the quick check(s) (default: <ID>) against it with private work/replay/evidence roots; prints the verdict line(s).
ID=$1; shift; CHECKS=${*:-$ID}
W=/tmp/sr-$ID; S=/verif/.work/seedrun-$ID
git -C /repo worktree remove --force $W 2>/dev/null; rm -rf $W $S
git -C /repo worktree add -q --detach $W HEAD || exit 3
git -C $W apply ${PATCH:-/tmp/seed/$ID.out/patch.diff} || { echo "PATCH DOES NOT APPLY"; git -C /repo worktree remove --force $W; exit 3; }
for c in $CHECKS; do
  VERIF_REPO=$W VERIF_WORKROOT=$S/work VERIF_REPLAYROOT=$S/replays VERIF_EVIDENCEROOT=$S/evidence VERIF_SEED=${VERIF_SEED:-1} /verif/check $c ${TIER:-quick} > $S.$c.log 2>&1
  echo "$ID vs $c: rc=$? $(grep -h 'VIOLATION\|^OK\|INCONCLUSIVE' $S.$c.log | head -2)"
done
git -C /repo worktree remove --force $W; git -C /repo worktree prune
