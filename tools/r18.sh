#!/bin/bash
# usage: tools/r12.sh <ID> [extra checks] — confirm both round-12 changes of a property and run the check(s); appends to /tmp/seed18/results.log
export SEEDROOT=/tmp/seed18
ID=$1; shift
for v in a; do /verif/tools/seed2.sh $ID $v $ID "$@" 2>&1 | grep -v "^WARNING" >> /tmp/seed18/results.log; done
