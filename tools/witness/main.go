// Command witness searches for HMAC inputs whose RFC 4226 dynamic-truncation value (31 bits) is one of a small set of
// rare targets (0..99, 10^k and neighbours, 2^31-1 ...). End-to-end generated testing meets such values with
// probability ~2^-31 per case; the witnesses found here are stored under /verif/witness and replayed by the checks.
//
//	usage: witness <hotp|ocra> <algo 0|1|2> <log2 N> <start> > out.jsonl
//
// hotp: key = the 20 ASCII bytes "12345678901234567890", message = 8-byte big-endian counter
// ocra: key as above, message = "OCRA-1:HOTP-SHAx-10:C" 0x00 counter (a hand-built 10-digit counter-only suite)
package main

import (
	"crypto/hmac"
	"crypto/sha1"
	"crypto/sha256"
	"crypto/sha512"
	"encoding/binary"
	"fmt"
	"hash"
	"os"
	"runtime"
	"sort"
	"strconv"
	"sync"
)

func targets() []uint32 {
	var t []uint32
	for v := uint32(0); v < 100; v++ {
		t = append(t, v)
	}
	p := uint32(10)
	for k := 1; k <= 9; k++ {
		for j := -2; j <= 2; j++ {
			t = append(t, uint32(int64(p)+int64(j)))
		}
		t = append(t, 2*p, 2*p-1)
		p *= 10
	}
	for j := uint32(0); j < 3; j++ {
		t = append(t, 1<<31-1-j, 1<<30+j, 2000000000+j, 2147483640+j)
	}
	sort.Slice(t, func(i, j int) bool { return t[i] < t[j] })
	return t
}

func main() {
	kind, algo := os.Args[1], os.Args[2]
	lg, _ := strconv.Atoi(os.Args[3])
	start, _ := strconv.ParseUint(os.Args[4], 10, 64)
	n := uint64(1) << uint(lg)
	tg := targets()
	isT := func(v uint32) bool {
		if v < 100 {
			return true
		}
		i := sort.Search(len(tg), func(i int) bool { return tg[i] >= v })
		return i < len(tg) && tg[i] == v
	}
	newH := map[string]func() hash.Hash{"0": sha1.New, "1": sha256.New, "2": sha512.New}[algo]
	name := map[string]string{"0": "SHA1", "1": "SHA256", "2": "SHA512"}[algo]
	key := []byte("12345678901234567890")
	prefix := []byte{}
	if kind == "ocra" {
		prefix = append([]byte("OCRA-1:HOTP-"+name+"-10:C"), 0)
	}
	w := runtime.NumCPU()
	var mu sync.Mutex
	var wg sync.WaitGroup
	per := n / uint64(w)
	for g := 0; g < w; g++ {
		wg.Add(1)
		go func(g int) {
			defer wg.Done()
			mac := hmac.New(newH, key)
			msg := make([]byte, len(prefix)+8)
			copy(msg, prefix)
			sum := make([]byte, 0, 64)
			lo := start + uint64(g)*per
			for c := lo; c < lo+per; c++ {
				binary.BigEndian.PutUint64(msg[len(prefix):], c)
				mac.Reset()
				mac.Write(msg)
				s := mac.Sum(sum[:0])
				off := s[len(s)-1] & 0x0f
				v := binary.BigEndian.Uint32(s[off:off+4]) & 0x7fffffff
				if v < 100 || (v >= 1<<30 || v%5 == 0 || v%10 == 1 || v%10 == 9 || v%10 == 2 || v%10 == 8) && isT(v) {
					mu.Lock()
					fmt.Printf("{\"kind\":%q,\"algo\":%s,\"counter\":%d,\"value\":%d}\n", kind, algo, c, v)
					mu.Unlock()
				}
			}
		}(g)
	}
	wg.Wait()
}
