module collide

go 1.23
