// Command collide finds, for a set of cheap non-cryptographic hash functions, pairs of DIFFERENT valid base32 secrets of
// equal length whose texts hash to the same 32-bit value (a birthday search of ~2^17 random secrets per function). A cache
// of decoded keys, prepared MACs or validation memos keyed by such a hash of the secret text (instead of the text) mixes
// the two secrets up; generated testing meets such a pair with probability 2^-32. Output: JSON lines {hash,a,b}.
package main

import (
	"encoding/base32"
	"encoding/binary"
	"fmt"
	"hash/adler32"
	"hash/crc32"
	"hash/fnv"
	"math/rand"
)

type hf struct {
	name string
	f    func(s string) uint32
}

func murmur3(data []byte, seed uint32) uint32 {
	const c1, c2 = 0xcc9e2d51, 0x1b873593
	h := seed
	n := len(data) / 4
	for i := 0; i < n; i++ {
		k := binary.LittleEndian.Uint32(data[i*4:])
		k *= c1
		k = k<<15 | k>>17
		k *= c2
		h ^= k
		h = h<<13 | h>>19
		h = h*5 + 0xe6546b64
	}
	var k uint32
	tail := data[n*4:]
	switch len(tail) {
	case 3:
		k ^= uint32(tail[2]) << 16
		fallthrough
	case 2:
		k ^= uint32(tail[1]) << 8
		fallthrough
	case 1:
		k ^= uint32(tail[0])
		k *= c1
		k = k<<15 | k>>17
		k *= c2
		h ^= k
	}
	h ^= uint32(len(data))
	h ^= h >> 16
	h *= 0x85ebca6b
	h ^= h >> 13
	h *= 0xc2b2ae35
	h ^= h >> 16
	return h
}

func main() {
	hs := []hf{
		{"fnv1a-32", func(s string) uint32 { h := fnv.New32a(); h.Write([]byte(s)); return h.Sum32() }},
		{"fnv1-32", func(s string) uint32 { h := fnv.New32(); h.Write([]byte(s)); return h.Sum32() }},
		{"fnv1a-64-low32", func(s string) uint32 { h := fnv.New64a(); h.Write([]byte(s)); return uint32(h.Sum64()) }},
		{"fnv1a-64-fold", func(s string) uint32 { h := fnv.New64a(); h.Write([]byte(s)); v := h.Sum64(); return uint32(v) ^ uint32(v>>32) }},
		{"crc32-ieee", func(s string) uint32 { return crc32.ChecksumIEEE([]byte(s)) }},
		{"crc32-castagnoli", func(s string) uint32 { return crc32.Checksum([]byte(s), crc32.MakeTable(crc32.Castagnoli)) }},
		{"adler32", func(s string) uint32 { return adler32.Checksum([]byte(s)) }},
		{"djb2", func(s string) uint32 { h := uint32(5381); for i := 0; i < len(s); i++ { h = h*33 + uint32(s[i]) }; return h }},
		{"djb2-xor", func(s string) uint32 { h := uint32(5381); for i := 0; i < len(s); i++ { h = h*33 ^ uint32(s[i]) }; return h }},
		{"sdbm", func(s string) uint32 { var h uint32; for i := 0; i < len(s); i++ { h = uint32(s[i]) + h<<6 + h<<16 - h }; return h }},
		{"java-31", func(s string) uint32 { var h uint32; for i := 0; i < len(s); i++ { h = h*31 + uint32(s[i]) }; return h }},
		{"jenkins-oaat", func(s string) uint32 { var h uint32; for i := 0; i < len(s); i++ { h += uint32(s[i]); h += h << 10; h ^= h >> 6 }; h += h << 3; h ^= h >> 11; h += h << 15; return h }},
		{"murmur3-32", func(s string) uint32 { return murmur3([]byte(s), 0) }},
		{"byte-sum", func(s string) uint32 { var h uint32; for i := 0; i < len(s); i++ { h += uint32(s[i]) }; return h }},
		{"byte-xor", func(s string) uint32 { var h uint32; for i := 0; i < len(s); i++ { h ^= uint32(s[i]) << (8 * uint(i%4)) }; return h }},
		{"first8-bytes", func(s string) uint32 { return crc32.ChecksumIEEE([]byte(s[:8])) }},
		{"last8-bytes", func(s string) uint32 { return crc32.ChecksumIEEE([]byte(s[len(s)-8:])) }},
	}
	enc := base32.StdEncoding.WithPadding(base32.NoPadding)
	rng := rand.New(rand.NewSource(20261003))
	for _, klen := range []int{20, 32, 64, 10} {
		for _, h := range hs {
			seen := map[uint32]string{}
			for n := 0; n < 1<<22; n++ {
				key := make([]byte, klen)
				rng.Read(key)
				if h.name == "first8-bytes" || h.name == "last8-bytes" {
					// equal first / last 8 characters by construction (5 key bytes)
					if h.name == "first8-bytes" {
						copy(key, "AAAAA")
					} else {
						copy(key[klen-5:], "ZZZZZ")
					}
				}
				t := enc.EncodeToString(key)
				v := h.f(t)
				if o, ok := seen[v]; ok && o != t {
					fmt.Printf("{\"hash\":%q,\"keylen\":%d,\"a\":%q,\"b\":%q}\n", h.name, klen, o, t)
					break
				}
				seen[v] = t
			}
		}
	}
}
