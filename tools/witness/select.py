#!/usr/bin/env python3
"""usage: select.py <out.jsonl> <in.jsonl ...> — keeps at most 2 witnesses per (kind, algo, value)"""
import json, sys
seen = {}
out = []
for f in sys.argv[2:]:
    for l in open(f):
        w = json.loads(l)
        k = (w["kind"], w["algo"], w["value"])
        if seen.get(k, 0) < 2:
            seen[k] = seen.get(k, 0) + 1
            out.append(w)
out.sort(key=lambda w: (w["kind"], w["algo"], w["value"], w["counter"]))
with open(sys.argv[1], "w") as fh:
    for w in out:
        fh.write(json.dumps(w, separators=(",", ":")) + "\n")
print(len(out), "witnesses,", len(seen), "distinct (kind, algo, value)")
