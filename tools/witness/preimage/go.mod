module preimage

go 1.23
