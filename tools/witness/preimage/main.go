// Command preimage finds, for a set of cheap non-cryptographic 32-bit hash functions, UNKNOWN spellings whose hash equals
// that of a known option word ("SHA1", "SHA256", "SHA512", "6", "8", "9", "10", "totp", "hotp"). A lookup table that stores
// only the hash of each known spelling (a generated perfect-hash or sorted-hash table) takes such a spelling for the known
// word; generated testing meets one with probability 2^-32 per draw. One pass per hash function over 7-character
// alphanumeric strings checks all target values at once (about 3 * 2^32 evaluations). Output: JSON lines
// {hash, known, spelling}.  usage: preimage [workers]
package main

import (
	"encoding/binary"
	"fmt"
	"hash/adler32"
	"hash/crc32"
	"os"
	"strconv"
	"sync"
	"sync/atomic"
)

type hf struct {
	name string
	f    func(s []byte) uint32
}

func murmur3(data []byte, seed uint32) uint32 {
	const c1, c2 = 0xcc9e2d51, 0x1b873593
	h := seed
	n := len(data) / 4
	for i := 0; i < n; i++ {
		k := binary.LittleEndian.Uint32(data[i*4:])
		k *= c1
		k = k<<15 | k>>17
		k *= c2
		h ^= k
		h = h<<13 | h>>19
		h = h*5 + 0xe6546b64
	}
	var k uint32
	tail := data[n*4:]
	switch len(tail) {
	case 3:
		k ^= uint32(tail[2]) << 16
		fallthrough
	case 2:
		k ^= uint32(tail[1]) << 8
		fallthrough
	case 1:
		k ^= uint32(tail[0])
		k *= c1
		k = k<<15 | k>>17
		k *= c2
		h ^= k
	}
	h ^= uint32(len(data))
	h ^= h >> 16
	h *= 0x85ebca6b
	h ^= h >> 13
	h *= 0xc2b2ae35
	h ^= h >> 16
	return h
}

var castagnoli = crc32.MakeTable(crc32.Castagnoli)

var hs = []hf{
	{"fnv1a-32", func(s []byte) uint32 { h := uint32(2166136261); for _, c := range s { h ^= uint32(c); h *= 16777619 }; return h }},
	{"fnv1-32", func(s []byte) uint32 { h := uint32(2166136261); for _, c := range s { h *= 16777619; h ^= uint32(c) }; return h }},
	{"fnv1a-64-low32", func(s []byte) uint32 { h := uint64(14695981039346656037); for _, c := range s { h ^= uint64(c); h *= 1099511628211 }; return uint32(h) }},
	{"fnv1a-64-fold", func(s []byte) uint32 { h := uint64(14695981039346656037); for _, c := range s { h ^= uint64(c); h *= 1099511628211 }; return uint32(h) ^ uint32(h>>32) }},
	{"crc32-ieee", func(s []byte) uint32 { return crc32.ChecksumIEEE(s) }},
	{"crc32-castagnoli", func(s []byte) uint32 { return crc32.Checksum(s, castagnoli) }},
	{"adler32", func(s []byte) uint32 { return adler32.Checksum(s) }},
	{"djb2", func(s []byte) uint32 { h := uint32(5381); for _, c := range s { h = h*33 + uint32(c) }; return h }},
	{"djb2-xor", func(s []byte) uint32 { h := uint32(5381); for _, c := range s { h = h*33 ^ uint32(c) }; return h }},
	{"sdbm", func(s []byte) uint32 { var h uint32; for _, c := range s { h = uint32(c) + h<<6 + h<<16 - h }; return h }},
	{"java-31", func(s []byte) uint32 { var h uint32; for _, c := range s { h = h*31 + uint32(c) }; return h }},
	{"jenkins-oaat", func(s []byte) uint32 { var h uint32; for _, c := range s { h += uint32(c); h += h << 10; h ^= h >> 6 }; h += h << 3; h ^= h >> 11; h += h << 15; return h }},
	{"murmur3-32", func(s []byte) uint32 { return murmur3(s, 0) }},
}

const alnum = "0123456789ABCDEFGHIJKLMNOPQRSTUVWXYZabcdefghijklmnopqrstuvwxyz"

func main() {
	workers := 8
	if len(os.Args) > 1 {
		workers, _ = strconv.Atoi(os.Args[1])
	}
	known := []string{"SHA1", "SHA256", "SHA512", "6", "8", "9", "10", "totp", "hotp"}
	for _, h := range hs {
		want := map[uint32]string{}
		for _, k := range known {
			want[h.f([]byte(k))] = k
		}
		var mu sync.Mutex
		found := map[string]string{}
		var done atomic.Bool
		var wg sync.WaitGroup
		const total = uint64(1) << 35 // at most 8 * 2^32 candidates per function
		per := total / uint64(workers)
		for w := 0; w < workers; w++ {
			wg.Add(1)
			go func(w int) {
				defer wg.Done()
				var buf [8]byte
				buf[0] = 'z' // never a known spelling
				for n := uint64(w) * per; n < uint64(w+1)*per && !done.Load(); n++ {
					x := n
					for i := 7; i >= 1; i-- {
						buf[i] = alnum[x%62]
						x /= 62
					}
					v := h.f(buf[:])
					if k, hit := want[v]; hit {
						mu.Lock()
						if _, have := found[k]; !have {
							found[k] = string(buf[:])
							fmt.Printf("{\"hash\":%q,\"known\":%q,\"spelling\":%q}\n", h.name, k, string(buf[:]))
							if len(found) == len(want) {
								done.Store(true)
							}
						}
						mu.Unlock()
					}
				}
			}(w)
		}
		wg.Wait()
	}
}
