module witness

go 1.23
