#!/bin/sh
# usage: tools/seedboth.sh <ID> [check ids...] — confirm a sub-agent's seed (Go demo) and run the check(s) against it
ID=$1; shift
/verif/tools/seedcheck.sh $ID 2>&1 | grep -A3 "existing tests\|demo WITH\|demo WITHOUT\|DOES NOT APPLY\|BUILD FAILED" | grep -v "^--" | cut -c1-220
/verif/tools/seedrun.sh $ID "$@"
