#!/bin/bash
# usage: tools/seed2.sh <ID> <a|b> [check ids...] — confirm variant a/b of a two-change seed (Go demo_test.go or bash demo.sh) in a fresh scratch
# worktree and run the check(s) against it
ID=$1; V=$2; shift 2; OUT=${SEEDROOT:-/tmp/seed}/$ID.out/$V; W=/tmp/sv-$ID$V
export GOPROXY=off; unset GOFLAGS
[ -f $OUT/patch.diff ] || { echo "$ID$V: no patch.diff"; exit 3; }
git -C /repo worktree remove --force $W 2>/dev/null; rm -rf $W
git -C /repo worktree add -q --detach $W HEAD || exit 3
cd $W
if ! git apply $OUT/patch.diff; then echo "$ID$V: PATCH DOES NOT APPLY"; cd /; git -C /repo worktree remove --force $W; exit 3; fi
(go build ./... && (cd internal/app && go build ./...) && GOOS=js GOARCH=wasm go build -o /dev/null ./wasm) >/dev/null 2>&1 || echo "$ID$V: BUILD FAILED"
echo "$ID$V suite: $(go test -vet=off -count=1 ./... 2>&1 | tail -1)"
if [ -f $OUT/demo_test.go ]; then
  cp $OUT/demo_test.go $W/zz_demo_test.go
  go test -vet=off -count=1 -run 'Demo' . > $OUT/with.log 2>&1; echo "$ID$V demo with: rc=$? $(grep -m1 -h 'zz_demo_test.go' $OUT/with.log | cut -c1-200)"
  git apply -R $OUT/patch.diff
  go test -vet=off -count=1 -run 'Demo' . > $OUT/without.log 2>&1; echo "$ID$V demo without: rc=$?"
elif [ -f $OUT/demo.sh ]; then
  bash $OUT/demo.sh $W > $OUT/with.log 2>&1; echo "$ID$V demo with: rc=$? $(tail -1 $OUT/with.log | cut -c1-200)"
  git apply -R $OUT/patch.diff
  bash $OUT/demo.sh $W > $OUT/without.log 2>&1; echo "$ID$V demo without: rc=$? $(tail -1 $OUT/without.log | cut -c1-120)"
else echo "$ID$V: no demonstration found: $(ls $OUT)"; fi
cd /; git -C /repo worktree remove --force $W
PATCH=$OUT/patch.diff /verif/tools/seedrun.sh $ID$V ${*:-$ID}
