#!/bin/sh
# usage: tools/benrun4.sh <Bxx> — run all 20 quick checks against the three round-5 benign changes of sub-agent Bxx, in parallel
C=$1; ALL="C01 C02 C03 C04 C05 C06 C07 C08 C09 C10 C11 C12 C13 C14 C15 C16 C17 C18 C19 C20"
for K in 1 2 3; do
  ( PATCH=/tmp/ben8/$C.out/benign$K.diff /verif/tools/seedrun.sh V$C-$K ${CHECKS:-$ALL} > /tmp/ben8/$C.out/run$K.log 2>&1
    grep -v "rc=0" /tmp/ben8/$C.out/run$K.log | sed "s/^/ALARM? /"; echo "V$C-$K done: $(grep -c 'rc=0' /tmp/ben8/$C.out/run$K.log) silent" ) &
done; wait
