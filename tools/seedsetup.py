#!/usr/bin/env python3
"""usage: tools/seedsetup.py <root e.g. /tmp/seed12> — one scratch worktree of /repo HEAD per property plus <ID>.out/PROPERTY.txt
(statement, quantifier, and the ideas already taken for that property, read from seeded/*/meta.json)"""
import sys, os, json, glob, subprocess
root = sys.argv[1]
props = [json.loads(l) for l in open("/verif/properties.jsonl")]
for p in props:
    pid = p["id"]
    w = "%s/%s" % (root, pid); out = w + ".out"
    os.makedirs(out + "/a", exist_ok=True); os.makedirs(out + "/b", exist_ok=True)
    if not os.path.isdir(w):
        subprocess.check_call(["git", "-C", "/repo", "worktree", "add", "-q", "--detach", w, "HEAD"])
    ideas = []
    for m in sorted(glob.glob("/verif/seeded/%s-r*/meta.json" % pid)):
        d = json.load(open(m))
        ideas.append("- %s — trigger: %s" % (d.get("change", "?"), d.get("needs_to_manifest", "?")))
    with open(out + "/PROPERTY.txt", "w") as f:
        f.write("PROPERTY %s: %s\n\nSTATEMENT: %s\n\nQUANTIFIED OVER: %s\n\n" % (pid, p["title"], p["statement"], p["quantifier"]["text"]))
        f.write("IDEAS ALREADY USED by colleagues for this property (%d) — yours must be of a different kind:\n%s\n" % (len(ideas), "\n".join(ideas)))
    print(pid, len(ideas))
