#!/usr/bin/env python3
"""usage: tools/seedset.py <substring of seeded/ names> [--jobs N] [--seed S] — runs kept seeded changes against the checks named in their
meta.json (default: the property's own check) in private scratch worktrees (never touches /repo's working tree); prints one row each.
A change whose meta says expected_verdict=silent must stay silent; every other one must be caught by at least one of its checks."""
import sys, os, json, glob, subprocess, concurrent.futures as cf
ROOT = os.path.dirname(os.path.dirname(os.path.abspath(__file__)))
def one(d):
    name = os.path.basename(d)
    meta = json.load(open(os.path.join(d, "meta.json")))
    checks = meta.get("checks") or [meta["property"]]
    w, s = "/tmp/ss-%s" % name, os.path.join(ROOT, ".work", "seedset-%s" % name)
    subprocess.run("git -C /repo worktree remove --force %s 2>/dev/null; rm -rf %s %s; git -C /repo worktree add -q --detach %s HEAD" % (w, w, s, w), shell=True)
    if subprocess.run(["git", "-C", w, "apply", os.path.join(d, "patch.diff")]).returncode != 0:
        subprocess.run("git -C /repo worktree remove --force %s" % w, shell=True)
        return name, "PATCH-DOES-NOT-APPLY", False
    env = dict(os.environ, VERIF_REPO=w, VERIF_WORKROOT=s + "/work", VERIF_REPLAYROOT=s + "/replays", VERIF_EVIDENCEROOT=s + "/evidence", VERIF_SEED=SEED)
    res = []
    for c in checks:
        p = subprocess.run([os.path.join(ROOT, "check"), c, "quick"], cwd=ROOT, env=env, stdout=subprocess.PIPE, stderr=subprocess.STDOUT)
        res.append((c, p.returncode))
    subprocess.run("git -C /repo worktree remove --force %s; git -C /repo worktree prune; rm -rf %s" % (w, s), shell=True)
    silent = meta.get("expected_verdict") in ("silent", "MISSED")  # MISSED: the older spelling (judged not a violation, or a documented limit)
    good = all(rc == 0 for _, rc in res) if silent else any(rc == 1 for _, rc in res)
    return name, " ".join("%s:%d" % x for x in res) + (" (expected silent)" if silent else ""), good
a = sys.argv[1:]; jobs = 3; SEED = "1"; pats = []
while a:
    x = a.pop(0)
    if x == "--jobs": jobs = int(a.pop(0))
    elif x == "--seed": SEED = a.pop(0)
    else: pats.append(x)
dirs = [d for d in sorted(glob.glob(os.path.join(ROOT, "seeded", "*"))) if any(p in os.path.basename(d) for p in pats)]
bad = 0
with cf.ThreadPoolExecutor(jobs) as ex:
    for name, row, good in ex.map(one, dirs):
        print("%-10s %s %s" % (name, "ok    " if good else "WRONG ", row), flush=True); bad += not good
print("%d changes, %d with a wrong verdict (seed %s)" % (len(dirs), bad, SEED))
