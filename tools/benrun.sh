#!/bin/sh
# usage: tools/benrun.sh <Bxx> <k> — run all 20 quick checks against benign change k of sub-agent Bxx (expected: all rc=0)
B=$1; K=$2; ALL="C01 C02 C03 C04 C05 C06 C07 C08 C09 C10 C11 C12 C13 C14 C15 C16 C17 C18 C19 C20"
PATCH=/tmp/ben/$B.out/benign$K.diff /verif/tools/seedrun.sh $B-$K ${CHECKS:-$ALL} > /tmp/ben/$B.out/run$K.log 2>&1
grep -v "rc=0" /tmp/ben/$B.out/run$K.log | sed "s/^/ALARM? /"; echo "$B-$K done: $(grep -c 'rc=0' /tmp/ben/$B.out/run$K.log)/20 silent"
