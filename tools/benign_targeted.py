#!/usr/bin/env python3
"""usage: tools/benign_targeted.py [--jobs N] [--always C11,...] [--only substr ...] — re-runs, against every kept property-preserving
change, the quick checks whose parts were added or changed late in a session, chosen by the files the change touches (a change
to the REST layer cannot disturb a check of the suite parser). A cheaper complement to selftest/run_benign.py (all 20 checks
on every change); every run must stay silent."""
import glob, os, re, subprocess, sys, concurrent.futures as cf
ROOT = os.path.dirname(os.path.dirname(os.path.abspath(__file__)))
RULES = [  # (regex on touched paths, regex on the patch text or None, checks)
    (r"^internal/app/", None, ["C18", "C19"]),
    (r"^(wasm/|otp-js/|.*_wasm\.go)", None, ["C20"]),
    (r"\.go$", r"RandomSecret|crypto/rand|rand\.Read", ["C08"]),
    (r"\.go$|\.js$", r"otpauth|Issuer|issuer|AccountName|GenerateTOTPURL|GenerateHOTPURL|ParseOTPAuthURL", ["C16", "C18", "C20"]),
    (r"^suite", None, ["C15"]),
]
def touched(patch):
    return re.findall(r"(?m)^diff --git a/(\S+) ", open(patch, errors="replace").read())
def checks_for(patch, always):
    cs = list(always)
    files = touched(patch)
    text = open(patch, errors="replace").read()
    if any(f.endswith(".go") and not f.startswith("internal/") and not f.startswith("wasm/") and not f.endswith("_test.go") for f in files):
        cs.append("C11")
    for rx, tx, add in RULES:
        if any(re.search(rx, f) for f in files) and (tx is None or re.search(tx, text)):
            cs += add
    return sorted(set(cs))
def one(job):
    d, cs = job
    name = os.path.basename(d)
    if not cs:
        return name, cs, []
    w, s = "/tmp/bt-%s" % name, os.path.join(ROOT, ".work", "bt-%s" % name)
    subprocess.run("git -C /repo worktree remove --force %s 2>/dev/null; rm -rf %s %s; git -C /repo worktree add -q --detach %s HEAD" % (w, w, s, w), shell=True)
    if subprocess.run(["git", "-C", w, "apply", os.path.join(d, "patch.diff")]).returncode != 0:
        subprocess.run("git -C /repo worktree remove --force %s" % w, shell=True)
        return name, cs, ["PATCH-DOES-NOT-APPLY"]
    env = dict(os.environ, VERIF_REPO=w, VERIF_WORKROOT=s + "/work", VERIF_REPLAYROOT=s + "/replays", VERIF_EVIDENCEROOT=s + "/evidence", VERIF_SEED=os.environ.get("VERIF_SEED", "1"))
    alarms = []
    for c in cs:
        p = subprocess.run([os.path.join(ROOT, "check"), c, "quick"], cwd=ROOT, env=env, stdout=subprocess.PIPE, stderr=subprocess.STDOUT)
        if p.returncode != 0:
            tail = [l for l in p.stdout.decode("utf-8", "replace").splitlines() if "VIOLATION" in l or "INCONCLUSIVE" in l or "violated" in l]
            alarms.append("%s rc=%d %s" % (c, p.returncode, " | ".join(tail)[:300]))
    subprocess.run("git -C /repo worktree remove --force %s; git -C /repo worktree prune; rm -rf %s" % (w, s), shell=True)
    return name, cs, alarms
a = sys.argv[1:]; jobs = 3; always = []; only = []
while a:
    x = a.pop(0)
    if x == "--jobs": jobs = int(a.pop(0))
    elif x == "--always": always = a.pop(0).split(",")
    elif x == "--only": only = a; break
dirs = [d for d in sorted(glob.glob(os.path.join(ROOT, "benign", "*-[0-9]"))) if not only or any(o in d for o in only)]
work = [(d, checks_for(os.path.join(d, "patch.diff"), always)) for d in dirs]
n = bad = runs = 0
with cf.ThreadPoolExecutor(jobs) as ex:
    for name, cs, alarms in ex.map(one, work):
        n += 1; runs += len(cs); bad += bool(alarms)
        print("%-8s %-40s %s" % (name, ",".join(cs), "silent" if not alarms else "ALARM: " + "; ".join(alarms)), flush=True)
print("%d changes, %d check runs, %d changes with an alarm" % (n, runs, bad))
