#!/bin/sh
# usage: tools/harvest.sh <fix-commit> <ID> <name>  — revert a fix, run the check, keep the shrunk replay as a regress file
cd /verif
git -C /repo diff $1~1 $1 > /tmp/fix.$$.diff
rm -rf /verif/replays
tools/mut -R /tmp/fix.$$.diff $2 >/dev/null 2>&1
f=$(ls -t /verif/replays/$2/*.json 2>/dev/null | head -1)
if [ -n "$f" ]; then mkdir -p /verif/regress/$2; cp "$f" /verif/regress/$2/$3.json; echo "$3 <- $f"; else echo "NO REPLAY for $3"; fi
rm -f /tmp/fix.$$.diff
rm -rf /verif/replays
