#!/usr/bin/env python3
"""usage: tools/seedkeep.py <ID> <round> <missed_at_first:0|1> <change> ;; <needs> ;; <caught_by> [;; checks=C11,C12]
copies /tmp/seed/<ID>.out/{patch.diff,demo*,NOTES.md,*.sh,*.js,*.go} to /verif/seeded/<ID>-r<round>/ and writes meta.json"""
import sys, os, shutil, json, glob
pid, rnd, missed = sys.argv[1], sys.argv[2], sys.argv[3] == "1"
parts = [x.strip() for x in " ".join(sys.argv[4:]).split(";;")]
src = os.environ.get("SEEDSRC") or "/tmp/seed/%s.out" % pid
dst = "/verif/seeded/%s-r%s" % (pid, rnd)
os.makedirs(dst, exist_ok=True)
for f in glob.glob(src + "/*"):
    b = os.path.basename(f)
    if b == "PROPERTY.txt" or os.path.isdir(f) or os.path.getsize(f) > 300_000:
        continue
    if b in ("server", "otp.wasm") or b.endswith(".wasm") or b.endswith(".test"):
        continue
    shutil.copy(f, dst)
meta = {
    "property": pid,
    "origin": "independent sub-agent (saw the property text, the earlier ideas to avoid, and a scratch worktree; asked for something the checks had not seen yet), round " + rnd,
    "change": parts[0], "needs_to_manifest": parts[1],
    "confirmed_by_me": "fresh scratch worktree of /repo HEAD: patch applies, go build ./... (+ internal/app, js/wasm) ok, repository tests pass with the change, the demonstration fails with the change and passes without it",
    "ran": "checks as committed at that moment and current checks",
    "caught_by": parts[2], "missed_at_first": missed,
}
for p in parts[3:]:
    if p.startswith("checks="):
        meta["checks"] = p[7:].split(",")
    if p.startswith("expected="):
        meta["expected_verdict"] = p[9:]
json.dump(meta, open(dst + "/meta.json", "w"), indent=1)
print("kept", dst, os.listdir(dst))
