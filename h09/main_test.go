package verifh

import (
	"os"
	"testing"
)

func TestMain(m *testing.M) { os.Exit(m.Run()) }
