#!/bin/sh
# usage: build.sh <out-binary> <overlay.json> [-modfile=...]   (run in /verif/h09)
G="-d=libfuzzer"
exec go test -c -vet=off $3 -tags "libfuzzer verif" -overlay "$2" \
  -gcflags=github.com/ja7ad/otp/...=$G -gcflags=bytes=$G -gcflags=strings=$G -gcflags=slices=$G \
  -gcflags=reflect=$G -gcflags=crypto/subtle=$G -gcflags=crypto/internal/fips140/subtle=$G \
  -o "$1" .
