#!/bin/sh
# usage: build.sh <out-binary> <overlay.json> [trace|fuzz] [-modfile=...]   (run in /verif/h09)
#   trace: library, REST layer and selected std packages with the compiler's libFuzzer comparison instrumentation (C09)
#   fuzz : plain build with native-fuzzing coverage instrumentation (FuzzC19, in-process REST router)
MODE=${3:-trace}
XT=""
case "$MODE" in *:nowasmmain*) XT="$XT nowasmmain";; esac
case "$MODE" in *:nosleephook*) XT="$XT nosleephook";; esac
MODE=${MODE%%:*}
if [ "$MODE" = "fuzz" ]; then
  exec go test -c -vet=off $4 -tags "verif$XT" -overlay "$2" -fuzz=Fuzz -o "$1" .
fi
G="-d=libfuzzer"
exec go test -c -vet=off $4 -tags "libfuzzer verif$XT" -overlay "$2" \
  -gcflags=github.com/ja7ad/otp/...=$G -gcflags=bytes=$G -gcflags=strings=$G -gcflags=slices=$G \
  -gcflags=reflect=$G -gcflags=crypto/subtle=$G -gcflags=crypto/internal/fips140/subtle=$G \
  -gcflags=regexp=$G -gcflags=regexp/syntax=$G -gcflags=sort=$G -gcflags=strconv=$G -gcflags=fmt=$G \
  -gcflags=unicode=$G -gcflags=unicode/utf8=$G -gcflags=math/big=$G -gcflags=encoding/hex=$G \
  -gcflags=encoding/base32=$G -gcflags=encoding/json=$G -gcflags=container/list=$G -gcflags=path=$G \
  -gcflags=net/url=$G -gcflags=text/scanner=$G -gcflags=hash/fnv=$G -gcflags=hash/crc32=$G -gcflags=hash/maphash=$G \
  -o "$1" .
