// Package trace exposes the comparison-trace sanitizer hooks (hooks.c) to Go.
package trace

// #include "hooks.h"
import "C"

// Kinds of events, in the order of the count vector.
var Kinds = []string{"cmp1", "cmp2", "cmp4", "cmp8", "const_cmp1", "const_cmp2", "const_cmp4", "const_cmp8", "strcmp"}

// Vector is the number of events per kind.
type Vector [9]uint64

// StrEvent holds the two operands of an unequal string comparison (truncated to 159 bytes, cut at NUL).
type StrEvent struct{ A, B string }

// Start clears the buffers and switches tracing on.
func Start() {
	C.verif_reset()
	C.verif_on = 1
}

// Stop switches tracing off and returns what was recorded.
func Stop() (Vector, []StrEvent, bool) {
	C.verif_on = 0
	var v Vector
	for i := range v {
		v[i] = uint64(C.verif_counts[i])
	}
	n := int(C.verif_nstr)
	overflow := n > C.VERIF_MAXSTR
	if overflow {
		n = C.VERIF_MAXSTR
	}
	ev := make([]StrEvent, n)
	for i := 0; i < n; i++ {
		ev[i] = StrEvent{A: C.GoString(&C.verif_strs[i].a[0]), B: C.GoString(&C.verif_strs[i].b[0])}
	}
	return v, ev, overflow
}


// CountersLen is the number of basic-block execution counters of the instrumented packages (0 if the runtime did not
// announce a counter section).
func CountersLen() int { return int(C.verif_cnt_len()) }

// ZeroCounters clears all block counters.
func ZeroCounters() { C.verif_cnt_zero() }

// SnapshotCounters copies the block counters into dst (len(dst) >= CountersLen()).
func SnapshotCounters(dst []byte) {
	if len(dst) == 0 || len(dst) < CountersLen() {
		return
	}
	C.verif_cnt_copy((*C.uint8_t)(&dst[0]))
}
