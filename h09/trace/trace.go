// Package trace exposes the comparison-trace sanitizer hooks (hooks.c) to Go.
package trace

// #include "hooks.h"
import "C"

// Kinds of events, in the order of the count vector.
var Kinds = []string{"cmp1", "cmp2", "cmp4", "cmp8", "const_cmp1", "const_cmp2", "const_cmp4", "const_cmp8", "strcmp"}

// Vector is the number of events per kind.
type Vector [9]uint64

// StrEvent holds the two operands of an unequal string comparison (truncated to 159 bytes, cut at NUL).
type StrEvent struct{ A, B string }

// Start clears the buffers and switches tracing on.
func Start() {
	C.verif_reset()
	C.verif_on = 1
}

// Stop switches tracing off and returns what was recorded.
func Stop() (Vector, []StrEvent, bool) {
	C.verif_on = 0
	var v Vector
	for i := range v {
		v[i] = uint64(C.verif_counts[i])
	}
	n := int(C.verif_nstr)
	overflow := n > C.VERIF_MAXSTR
	if overflow {
		n = C.VERIF_MAXSTR
	}
	ev := make([]StrEvent, n)
	for i := 0; i < n; i++ {
		ev[i] = StrEvent{A: C.GoString(&C.verif_strs[i].a[0]), B: C.GoString(&C.verif_strs[i].b[0])}
	}
	return v, ev, overflow
}
