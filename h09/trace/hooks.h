#include <stdint.h>
#define VERIF_KINDS 9
#define VERIF_MAXSTR 4096
#define VERIF_STRLEN 160
struct verif_str { char a[VERIF_STRLEN]; char b[VERIF_STRLEN]; };
extern volatile int verif_on;
extern volatile uint64_t verif_counts[VERIF_KINDS];
extern struct verif_str verif_strs[VERIF_MAXSTR];
extern volatile uint32_t verif_nstr;
void verif_reset(void);
#include <stddef.h>
size_t verif_cnt_len(void);
void verif_cnt_zero(void);
void verif_cnt_copy(uint8_t *dst);
