// Comparison-trace sanitizer hooks. Go's libFuzzer instrumentation (-d=libfuzzer) makes the
// compiler report every integer comparison and every unequal string ==/!=/EqualFold of the
// instrumented packages to these functions. They run on the g0 stack: no Go calls, no locks.
#include <stdint.h>
#include <string.h>
#include "hooks.h"

volatile int verif_on = 0;
volatile uint64_t verif_counts[VERIF_KINDS];
struct verif_str verif_strs[VERIF_MAXSTR];
volatile uint32_t verif_nstr = 0;

static inline void bump(int k) {
	if (verif_on) __atomic_fetch_add(&verif_counts[k], 1, __ATOMIC_RELAXED);
}

void __sanitizer_cov_trace_cmp1(uint8_t a, uint8_t b) { bump(0); }
void __sanitizer_cov_trace_cmp2(uint16_t a, uint16_t b) { bump(1); }
void __sanitizer_cov_trace_cmp4(uint32_t a, uint32_t b) { bump(2); }
void __sanitizer_cov_trace_cmp8(uint64_t a, uint64_t b) { bump(3); }
void __sanitizer_cov_trace_const_cmp1(uint8_t a, uint8_t b) { bump(4); }
void __sanitizer_cov_trace_const_cmp2(uint16_t a, uint16_t b) { bump(5); }
void __sanitizer_cov_trace_const_cmp4(uint32_t a, uint32_t b) { bump(6); }
void __sanitizer_cov_trace_const_cmp8(uint64_t a, uint64_t b) { bump(7); }

void __sanitizer_weak_hook_strcmp(void *pc, const char *s1, const char *s2, int result) {
	if (!verif_on) return;
	bump(8);
	uint32_t i = __atomic_fetch_add(&verif_nstr, 1, __ATOMIC_RELAXED);
	if (i >= VERIF_MAXSTR) return;
	strncpy(verif_strs[i].a, s1 ? s1 : "", VERIF_STRLEN - 1);
	verif_strs[i].a[VERIF_STRLEN - 1] = 0;
	strncpy(verif_strs[i].b, s2 ? s2 : "", VERIF_STRLEN - 1);
	verif_strs[i].b[VERIF_STRLEN - 1] = 0;
}

// The compiler also gives every basic-block edge of the instrumented packages an 8-bit execution counter (it wraps from
// 255 to 1, never back to 0); the runtime announces the counter section once at start-up.
static uint8_t *cnt_start = 0, *cnt_stop = 0;
void __sanitizer_cov_8bit_counters_init(uint8_t *start, uint8_t *stop) {
	if (!cnt_start) { cnt_start = start; cnt_stop = stop; }
}
size_t verif_cnt_len(void) { return cnt_start ? (size_t)(cnt_stop - cnt_start) : 0; }
void verif_cnt_zero(void) { if (cnt_start) memset(cnt_start, 0, (size_t)(cnt_stop - cnt_start)); }
void verif_cnt_copy(uint8_t *dst) { if (cnt_start) memcpy(dst, cnt_start, (size_t)(cnt_stop - cnt_start)); }
void __sanitizer_cov_pcs_init(const uintptr_t *beg, const uintptr_t *end) {}

void verif_reset(void) {
	for (int i = 0; i < VERIF_KINDS; i++) verif_counts[i] = 0;
	verif_nstr = 0;
}
