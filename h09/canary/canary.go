// Package canary holds planted leaks: before every run the tracer must see them,
// otherwise the instrumentation is not working and the run is inconclusive.
package canary

import (
	"crypto/subtle"
	"strings"
)

// Eq compares with the early-exit built-in string equality.
func Eq(a, b string) bool { return a == b }

// Loop compares byte by byte and returns at the first difference.
func Loop(a, b []byte) bool {
	if len(a) != len(b) {
		return false
	}
	for i := range a {
		if a[i] != b[i] {
			return false
		}
	}
	return true
}

// CT is the constant-time comparison (must NOT trip the oracles).
func CT(a, b []byte) bool { return subtle.ConstantTimeCompare(a, b) == 1 }

// Ord compares with the (assembly-implemented) ordering comparison.
func Ord(a, b string) bool { return strings.Compare(a, b) == 0 }
