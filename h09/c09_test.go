package verifh

import (
	"bytes"
	"encoding/hex"
	"encoding/json"
	"fmt"
	"os"
	"sort"
	"strings"
	"testing"
	"time"

	otp "github.com/ja7ad/otp"
	"github.com/ja7ad/otp/internal/app/api"
	"github.com/ja7ad/otp/internal/app/verifh09/canary"
	"github.com/ja7ad/otp/internal/app/verifh09/trace"
	"github.com/valyala/fasthttp"
	"pgregory.net/rapid"

	"verifh/ev"
	"verifh/ref"
)

// ---------------------------------------------------------------------------
// C09 — submitted codes are compared with the expected code in constant time.
//
// Decided on comparison traces: the library, the REST handlers, the js/wasm
// validation files (compiled natively through an overlay) and the std packages a
// comparison could hide in are built with Go's libFuzzer instrumentation, which
// reports every integer comparison and every unequal string ==/!=/EqualFold to
// the hooks in ./trace.

type c09Case struct {
	Entry  string      `json:"entry"` // hotp totp ocra wasm rest-hotp rest-totp rest-ocra
	Key    []byte      `json:"key"`
	N      uint64      `json:"n"` // counter / unix seconds
	Digits int         `json:"digits"`
	Algo   int         `json:"algo"`
	Skew   int         `json:"skew"`
	Period int         `json:"period"`
	Reg    string      `json:"reg"` // OCRA: registered suite name ("" = hand-built configuration Cfg)
	Cfg    ref.OCRACfg `json:"cfg"`
	In     ref.OCRAIn  `json:"in"`
	Salt   uint64      `json:"salt"` // derives the tails of the wrong codes
}

// public renders every caller-supplied value of the case as text (see tainted).
func (c c09Case) public(submitted string) string {
	return strings.Join([]string{submitted, fmt.Sprint(c.N), fmt.Sprintf("%x", c.N), fmt.Sprintf("%016x", c.N), fmt.Sprint(c.N / 30), fmt.Sprint(c.Digits), fmt.Sprint(c.Algo), fmt.Sprint(c.Skew),
		fmt.Sprint(c.Period), ref.B32(c.Key), fmt.Sprintf("%x", c.Key), c.Reg, c.Cfg.Raw, fmt.Sprint(c.Cfg.Digits), fmt.Sprint(c.Cfg.TimeStep),
		fmt.Sprintf("%x|%x|%x|%x|%x", c.In.C, c.In.Q, c.In.P, c.In.S, c.In.T), string(c.In.Q), string(c.In.S), "SHA1 SHA256 SHA512 sha1 sha256 sha512"}, "\x00")
}

func (c c09Case) ocraSuite() (otp.Suite, ref.OCRACfg) {
	if c.Reg != "" {
		su, _ := otp.NewRawSuite(c.Reg)
		rd, _ := ref.ReadSuite(c.Reg, true)
		return su, rd.Cfg
	}
	k := c.Cfg
	return otp.SuiteConfig{Raw: k.Raw, Hash: otp.Algorithm(k.Hash), Digits: k.Digits, Challenge: otp.ChallengeFormat(k.QFormat), IncludeCounter: k.C, IncludeChallenge: k.Q,
		IncludePassword: k.P, IncludeSession: k.S, IncludeTimestamp: k.T, PasswordHash: otp.PasswordHashAlgorithm(k.PHash), TimeStep: k.TimeStep}, k
}

func toLibIn(in ref.OCRAIn) otp.OCRAInput {
	return otp.OCRAInput{Counter: in.C, Challenge: in.Q, Password: in.P, SessionInfo: in.S, Timestamp: in.T}
}

var digitNames = map[int]string{6: "6", 8: "8", 9: "9", 10: "10"}
var algoNames = []string{"SHA1", "SHA256", "SHA512"}

// run performs one validation with the submitted code; returns the verdict.
func (c c09Case) run(code string) bool { return c.prepare(code)() }

// prepare builds everything the call needs (arguments, request body) and returns the
// call itself, so that only the entry point under test runs inside the traced region.
func (c c09Case) prepare(code string) func() bool {
	secret := ref.B32(c.Key)
	p := &otp.Param{Digits: otp.Digits(c.Digits), Algorithm: otp.Algorithm(c.Algo), Period: uint(c.Period), Skew: uint(c.Skew)}
	switch c.Entry {
	case "hotp":
		return func() bool { okk, _ := otp.ValidateHOTP(secret, code, c.N, p); return okk }
	case "totp":
		tm := time.Unix(int64(c.N), 0)
		return func() bool { okk, _ := otp.ValidateTOTP(secret, code, tm, p); return okk }
	case "ocra":
		su, _ := c.ocraSuite()
		in := toLibIn(c.In)
		return func() bool { okk, _ := otp.ValidateOCRA(secret, code, su, in); return okk }
	case "wasm":
		return func() bool {
			okk, _ := otp.ValidateOTPWasm(code, c.Key, c.N, otp.Digits(c.Digits), otp.Algorithm(c.Algo))
			return okk
		}
	case "wasmjs-hotp", "wasmjs-totp":
		// the binding's own exported function (wasm/main.go compiled natively against the stand-in syscall/js)
		name := "validateHOTP"
		args := wasmArgs(secret, code, float64(c.N), digitNames[c.Digits], algoNames[c.Algo], c.Skew)
		if c.Entry == "wasmjs-totp" {
			name = "validateTOTP"
			args = wasmArgs(secret, code, float64(c.N), digitNames[c.Digits], algoNames[c.Algo], c.Skew, c.Period)
		}
		fn := wasmFn(name)
		return func() bool {
			okk, text := wasmCall(fn, args)
			if text != "" {
				panic("HARNESS: the binding answered " + text)
			}
			return okk
		}
	case "rest-hotp", "rest-totp", "rest-ocra":
		var body []byte
		path := ""
		switch c.Entry {
		case "rest-hotp":
			path = "/hotp/validate"
			body, _ = json.Marshal(map[string]any{"secret": secret, "code": code, "counter": c.N, "digits": digitNames[c.Digits], "algorithm": algoNames[c.Algo], "skew": c.Skew})
		case "rest-totp":
			path = "/totp/validate"
			body, _ = json.Marshal(map[string]any{"secret": secret, "code": code, "timestamp": c.N, "digits": digitNames[c.Digits], "algorithm": algoNames[c.Algo], "skew": c.Skew, "period": c.Period})
		default:
			path = "/ocra/validate"
			in := map[string]any{}
			put := func(k string, b []byte) {
				if len(b) > 0 {
					in[k] = hex.EncodeToString(b)
				}
			}
			put("counter_hex", c.In.C)
			put("challenge_hex", c.In.Q)
			put("password_hex", c.In.P)
			put("session_info_hex", c.In.S)
			put("timestamp_hex", c.In.T)
			if c.Reg != "" {
				body, _ = json.Marshal(map[string]any{"secret": secret, "code": code, "raw_suite": c.Reg, "input": in})
			} else {
				k := c.Cfg
				body, _ = json.Marshal(map[string]any{"secret": secret, "code": code, "input": in, "suite": map[string]any{"hash_function": algoNames[k.Hash], "code_digits": k.Digits,
					"challenge_format": k.QFormat, "include_counter": k.C, "include_challenge": k.Q, "include_password": k.P, "include_session": k.S, "include_timestamp": k.T,
					"password_hash": k.PHash, "timestep": k.TimeStep}})
			}
		}
		return func() bool {
			var ctx fasthttp.RequestCtx
			ctx.Request.Header.SetMethod("POST")
			ctx.Request.SetRequestURI(path)
			ctx.Request.SetBody(body)
			api.VerifHandle(&ctx)
			resp := ctx.Response.Body()
			return len(resp) >= 13 && string(resp[:13]) == `{"valid":true`
		}
	}
	panic("HARNESS: entry " + c.Entry)
}

// expected returns the code the validation compares with at the centre, every
// acceptable code of the window, and renderings of the HMAC digest.
func (c c09Case) expected() (centre string, window []string, digests []string) {
	switch c.Entry {
	case "ocra", "rest-ocra":
		_, cfg := c.ocraSuite()
		if c.Entry == "rest-ocra" && c.Reg == "" {
			cfg.Raw = "" // a structured REST suite has no name
		}
		e, err := ref.OCRA(c.Key, cfg, c.In)
		if err != nil {
			panic("HARNESS: inadmissible OCRA case")
		}
		d := ref.HMAC(cfg.Hash, c.Key, ref.OCRAMessage(cfg, c.In))
		return e, []string{e}, []string{string(d), hex.EncodeToString(d), strings.ToUpper(hex.EncodeToString(d))}
	}
	n := c.N
	if c.Entry == "totp" || c.Entry == "rest-totp" || c.Entry == "wasmjs-totp" {
		n /= uint64(c.Period)
	}
	skew := uint64(c.Skew)
	if c.Entry == "wasm" {
		skew = 0
	}
	for x := n - skew; x <= n+skew; x++ {
		window = append(window, ref.MustHOTP(c.Key, x, c.Digits, c.Algo))
	}
	var ctr [8]byte
	for i := 0; i < 8; i++ {
		ctr[i] = byte(n >> (56 - 8*uint(i)))
	}
	d := ref.HMAC(c.Algo, c.Key, ctr[:])
	return ref.MustHOTP(c.Key, n, c.Digits, c.Algo), window, []string{string(d), hex.EncodeToString(d), strings.ToUpper(hex.EncodeToString(d))}
}

// wrongCode shares exactly k leading characters with e. variant 0: the rest equals e
// except position k; variant 1: the rest is derived from salt.
func wrongCode(e string, k int, variant int, salt uint64, window []string) string {
	for try := uint64(0); ; try++ {
		b := []byte(e)
		b[k] = '0' + (b[k]-'0'+1+byte((salt+try)%9))%10
		if variant == 1 {
			x := salt*6364136223846793005 + try + 1442695040888963407
			for i := k + 1; i < len(b); i++ {
				x = x*6364136223846793005 + 1442695040888963407
				b[i] = '0' + byte((x>>33)%10)
			}
		}
		s := string(b)
		hit := false
		for _, w := range window {
			if w == s {
				hit = true
			}
		}
		if !hit {
			return s
		}
	}
}

type traceResult struct {
	vec trace.Vector
	str []trace.StrEvent
	dur []int64 // durations handed to time.Sleep / the timer constructors during the call, sorted
	blk []byte  // execution counters of every basic-block edge of the instrumented packages (8 bit, wrapping 255 -> 1)
}

// diffBlocks lists the first indexes at which two block profiles differ.
func diffBlocks(a, b []byte) (n int, first []int) {
	for i := range a {
		if i < len(b) && a[i] != b[i] {
			n++
			if len(first) < 8 {
				first = append(first, i)
			}
		}
	}
	return
}

func sameDur(a, b []int64) bool {
	if len(a) != len(b) {
		return false
	}
	for i := range a {
		if a[i] != b[i] {
			return false
		}
	}
	return true
}

// ordering comparisons (assembly, no compiler event) are observed at the two library
// entry points through hooks added to the std sources by the build overlay
var (
	cmpOn     bool
	cmpEvents []trace.StrEvent
)

func init() {
	strings.VerifCompareHook = func(a, b string) {
		if cmpOn && len(cmpEvents) < 4096 {
			cmpEvents = append(cmpEvents, trace.StrEvent{A: strings.Clone(a), B: strings.Clone(b)})
		}
	}
	bytes.VerifCompareHook = func(a, b []byte) {
		if cmpOn && len(cmpEvents) < 4096 {
			cmpEvents = append(cmpEvents, trace.StrEvent{A: string(a), B: string(b)})
		}
	}
}

func traced(f func()) traceResult {
	cmpEvents = cmpEvents[:0]
	cmpOn = true
	durStart()
	blk := make([]byte, trace.CountersLen())
	trace.ZeroCounters()
	trace.Start()
	f()
	v, s, _ := trace.Stop()
	trace.SnapshotCounters(blk)
	d := durStop()
	cmpOn = false
	s = append(s, cmpEvents...)
	sort.Slice(d, func(i, j int) bool { return d[i] < d[j] })
	return traceResult{v, s, d, blk}
}

// tainted reports a string-comparison operand that carries the expected code, an
// acceptable code, a fragment of it that is not in the submitted code, or the digest.
// public is the text of everything the caller supplied (submitted code, counter / time in decimal and hex, digits,
// window, period, secret text, suite name, input fields in hex): an operand that occurs there is caller data, even if
// it happens to coincide with a stretch of the expected code (a counter 128 and an expected code 01284788).
func tainted(evs []trace.StrEvent, public string, window, digests []string) string {
	msg, _ := taintedOperand(evs, public, window, digests)
	return msg
}

func taintedOperand(evs []trace.StrEvent, public string, window, digests []string) (string, string) {
	for _, e := range evs {
		for _, o := range []string{e.A, e.B} {
			for _, w := range window {
				if o == w && !strings.Contains(public, o) {
					return fmt.Sprintf("string comparison %q vs %q: an operand is the expected code", e.A, e.B), o
				}
				if len(o) >= 3 && len(o) < len(w) && strings.Contains(w, o) && !strings.Contains(public, o) {
					return fmt.Sprintf("string comparison %q vs %q: an operand is a fragment of the expected code %s", e.A, e.B, w), o
				}
			}
			for _, d := range digests {
				if len(o) >= 8 && (o == d || strings.HasPrefix(d, o)) {
					return fmt.Sprintf("string comparison %q vs %q: an operand is the HMAC digest", e.A, e.B), o
				}
			}
		}
	}
	return "", ""
}

// taintOf is tainted plus a confirmation: taint by value can be a coincidence — a constant of the program ("256" of an
// algorithm-name table) or a piece of caller data happens to occur inside the expected code. A value derived from the
// HMAC changes with the key; a constant does not. The same call is traced again under a different secret: if the very
// same operand shows up there as well and is not derived from THAT secret's codes either, it is not HMAC-derived.
func (c c09Case) taintOf(evs []trace.StrEvent, submitted string, window, digests []string) string {
	msg, operand := taintedOperand(evs, c.public(submitted), window, digests)
	if msg == "" {
		return ""
	}
	c2 := c
	c2.Key = append([]byte(nil), c.Key...)
	if len(c2.Key) == 0 {
		c2.Key = []byte{0x5a}
	} else {
		c2.Key[0] ^= 0x5a
		c2.Key[len(c2.Key)-1] ^= 0xa5
	}
	e2, window2, digests2 := c2.expected()
	// the same protocol as for the case itself: the expected code is accepted once first (state a validator keeps
	// about its last acceptance then belongs to this secret), and the case's own acceptance is redone afterwards
	c2.run(e2)
	e1, _, _ := c.expected()
	defer c.run(e1)
	call := c2.prepare(submitted)
	tr := traced(func() { call() })
	for _, e := range tr.str {
		if e.A == operand || e.B == operand {
			if m2, _ := taintedOperand([]trace.StrEvent{{A: operand, B: ""}}, c2.public(submitted), window2, digests2); m2 == "" {
				return "" // the same operand under another secret, unrelated to that secret's codes: a constant or caller data
			}
		}
	}
	return msg
}

func checkC09(c c09Case) verdict {
	e, window, digests := c.expected()
	labels := []string{"entry=" + c.Entry, fmt.Sprintf("digits=%d", len(e))}
	// warm-up (pools, lazily initialised tables), untraced
	if !c.run(e) {
		return bad(true, labels, "HARNESS/C03: the expected code %s is not accepted by %s", e, c.Entry)
	}
	// reference trace: an unrelated wrong code of the same length (no position matches)
	un := []byte(e)
	for i := range un {
		un[i] = '0' + (un[i]-'0'+1+byte((c.Salt>>uint(i))%8))%10
	}
	baseCall := c.prepare(string(un))
	base := traced(func() { baseCall() })
	if t := c.taintOf(base.str, string(un), window, digests); t != "" {
		return bad(true, labels, "%s: %s (submitted %s, expected %s)", c.Entry, t, un, e)
	}
	for k := 0; k < len(e); k++ {
		for variant := 0; variant < 2; variant++ {
			code := wrongCode(e, k, variant, c.Salt+uint64(k), window)
			var accepted bool
			call := c.prepare(code)
			tr := traced(func() { accepted = call() })
			if accepted {
				return bad(true, labels, "HARNESS/C03: wrong code %s accepted (expected %s)", code, e)
			}
			if t := c.taintOf(tr.str, code, window, digests); t != "" {
				return bad(true, labels, "%s: %s (submitted %s, expected %s, %d leading characters correct)", c.Entry, t, code, e, k)
			}
			if !sameDur(tr.dur, base.dur) && durationsDependOnCode(c, code, string(un)) {
				return bad(true, labels, "%s: the time the call spends asleep depends on how many leading characters are correct: with %d correct (submitted %s, expected %s) the durations handed to time.Sleep / timers are %v ns, with none correct %v ns — stable for each code over six repetitions", c.Entry, k, code, e, tr.dur, base.dur)
			}
			if !bytes.Equal(tr.blk, base.blk) && blocksDependOnCode(c, code, string(un)) {
				n, first := diffBlocks(tr.blk, base.blk)
				return bad(true, labels, "%s: the work done for a rejection depends on how many leading characters are correct: with %d correct (submitted %s, expected %s) %d basic blocks of the instrumented code are executed a different number of times than with none correct (block counters %v ...), in six paired repetitions", c.Entry, k, code, e, n, first)
			}
			if tr.vec != base.vec && consistentlyDiffers(c, code, string(un)) {
				return bad(true, labels, "%s: the comparison trace depends on how many leading characters are correct: %d correct (submitted %s, expected %s) gives events %v, none correct gives %v (kinds %v)", c.Entry, k, code, e, tr.vec, base.vec, trace.Kinds)
			}
		}
	}
	// presentations: the way people type or paste a code — two groups separated by a blank or a dash, a trailing line break,
	// full-width digits, quotes. On a tree that takes codes literally these are refused at once, whatever they contain; on
	// one that reads them leniently the digits they carry meet the expected code on another path, and that path must not
	// exit early either: "the expected code is only ever compared with caller-supplied data by a constant-time equality".
	{
		d := len(e)
		forms := []func(string) string{
			func(x string) string { return x[:d/2] + " " + x[d/2:] },
			func(x string) string { return x[:d/2] + "-" + x[d/2:] },
			func(x string) string { return x + "\n" },
			func(x string) string {
				var sb strings.Builder
				for _, ch := range x {
					sb.WriteRune(0xFF10 + (ch - '0'))
				}
				return sb.String()
			},
			func(x string) string { return " " + x },
		}
		for fi, form := range forms {
			baseP := form(string(un))
			bcall := c.prepare(baseP)
			pbase := traced(func() { bcall() })
			for _, k := range []int{1, d / 2, d - 1} {
				code := form(wrongCode(e, k, 0, c.Salt+uint64(k), window))
				var accepted bool
				call := c.prepare(code)
				tr := traced(func() { accepted = call() })
				if accepted {
					continue // C03 / C06 judge what is accepted; a lenient tree may accept nothing wrong here anyway
				}
				if t := c.taintOf(tr.str, code, window, digests); t != "" {
					return bad(true, labels, "%s: %s (submitted %q, expected %s, %d leading digits correct, typed form %d)", c.Entry, t, code, e, k, fi)
				}
				if !bytes.Equal(tr.blk, pbase.blk) && blocksDependOnCode(c, code, baseP) {
					n, first := diffBlocks(tr.blk, pbase.blk)
					return bad(true, labels, "%s: the work done to reject a code in typed form depends on how many of its leading digits are correct: with %d correct (submitted %q, expected %s) %d basic blocks are executed a different number of times than with none correct (%q; block counters %v ...), in six paired repetitions", c.Entry, k, code, e, n, baseP, first)
				}
				if tr.vec != pbase.vec && consistentlyDiffers(c, code, baseP) {
					return bad(true, labels, "%s: the comparison trace of rejecting a code in typed form depends on how many of its leading digits are correct: %d correct (submitted %q, expected %s) gives events %v, none correct (%q) gives %v", c.Entry, k, code, e, tr.vec, baseP, pbase.vec)
				}
			}
		}
		labels = append(labels, "typed-forms")
	}
	// sequences: the codes of this and the next one or two counters / steps written one after the other (2d or 3d
	// characters; RFC 4226 resynchronisation sends such a sequence). On a tree that knows nothing of sequences these are
	// refused for their length at once; on one that accepts them, checking value by value and stopping at the first wrong
	// one is an early exit in units of a whole code. The trace must not depend on how many leading characters are right.
	if !strings.Contains(c.Entry, "ocra") {
		step := uint64(1)
		if strings.Contains(c.Entry, "totp") {
			step = uint64(c.Period)
		}
		c1, c2 := c, c
		c1.N, c2.N = c.N+step, c.N+2*step
		e1, _, _ := c1.expected()
		e2, _, _ := c2.expected()
		for _, full := range []string{e + e1, e + e1 + e2} {
			mk := func(k int) string { // k leading characters right, all others wrong
				b := []byte(full)
				for i := k; i < len(b); i++ {
					b[i] = '0' + (b[i]-'0'+1+byte((c.Salt>>uint(i%40))%8))%10
				}
				return string(b)
			}
			d := len(e)
			baseS := mk(0)
			bcall := c.prepare(baseS)
			sbase := traced(func() { bcall() })
			for _, k := range []int{d - 1, d, d + 1, 2*d - 1, 2 * d, len(full) - 1} {
				if k >= len(full) {
					continue
				}
				code := mk(k)
				call := c.prepare(code)
				tr := traced(func() { call() })
				if !bytes.Equal(tr.blk, sbase.blk) && blocksDependOnCode(c, code, baseS) {
					n, first := diffBlocks(tr.blk, sbase.blk)
					return bad(true, labels, "%s: a sequence of %d codes (%d characters) is rejected with work that depends on how many leading characters are correct: with %d correct (submitted %s, the genuine sequence is %s) %d basic blocks run a different number of times than with none correct (block counters %v ...), in six paired repetitions", c.Entry, len(full)/d, len(full), k, code, full, n, first)
				}
				if tr.vec != sbase.vec && consistentlyDiffers(c, code, baseS) {
					return bad(true, labels, "%s: a sequence of %d codes is rejected with a comparison trace that depends on how many leading characters are correct: %d correct gives events %v, none correct gives %v", c.Entry, len(full)/d, k, tr.vec, sbase.vec)
				}
			}
		}
		labels = append(labels, "sequences")
	}
	return ok(true, labels...)
}

// durationsDependOnCode re-measures six times: the durations of the reference code must be the same in two
// consecutive runs (a deadline computed from the wall clock, or a background timer falling into the window, is not)
// while those of the code under test differ from them every time.
func durationsDependOnCode(c c09Case, code, baseCode string) bool {
	bc, cc := c.prepare(baseCode), c.prepare(code)
	for i := 0; i < 6; i++ {
		b1 := traced(func() { bc() })
		t := traced(func() { cc() })
		b2 := traced(func() { bc() })
		if !sameDur(b1.dur, b2.dur) || sameDur(t.dur, b1.dur) {
			return false
		}
	}
	return true
}

// blocksDependOnCode re-measures six times, like durationsDependOnCode: the reference code's block profile must be the
// same in two consecutive runs (pool and allocator state settle) while the code under test differs from it every time.
func blocksDependOnCode(c c09Case, code, baseCode string) bool {
	bc, cc := c.prepare(baseCode), c.prepare(code)
	for i := 0; i < 6; i++ {
		b1 := traced(func() { bc() })
		t := traced(func() { cc() })
		b2 := traced(func() { bc() })
		if !bytes.Equal(b1.blk, b2.blk) || bytes.Equal(t.blk, b1.blk) {
			return false
		}
	}
	return true
}

// consistentlyDiffers re-measures both traces up to five times: allocator / pool state can
// add or remove a few events in a single run, a data-dependent comparison differs every time.
func consistentlyDiffers(c c09Case, code, baseCode string) bool {
	bc, cc := c.prepare(baseCode), c.prepare(code)
	for i := 0; i < 5; i++ {
		b := traced(func() { bc() })
		t := traced(func() { cc() })
		if t.vec == b.vec {
			return false
		}
	}
	return true
}

var c09Main = newPart("C09", "traces",
	"rapid: validation entry points {ValidateHOTP, ValidateTOTP, ValidateOCRA, ValidateOTPWasm (js/wasm file compiled natively through an overlay), the binding's own validateHOTP / validateTOTP (wasm/main.go compiled natively against a stand-in syscall/js and called through the functions it registers), REST /hotp/validate, /totp/validate, /ocra/validate driven in-process} x keys x counters/instants x digits 6..10 (OCRA: registered suites) x hashes x windows 0..3; for each, the family of wrong codes sharing exactly k = 0..d-1 leading characters with the expected code E (two tails each; also in typed forms — grouped by a blank or dash, with a trailing line break, in full-width digits, with a leading blank — compared among themselves), traced with the compiler's libFuzzer comparison instrumentation of the library, the REST layer, bytes, strings, slices, reflect, crypto/subtle and crypto/internal/fips140/subtle; oracles: (A) no string-comparison event has an operand equal to E, to any acceptable code of the window, to a >=3-character fragment of one that the submitted code does not contain, or to the HMAC digest (raw/hex); (B) the vector of event counts per kind is identical for all k and equal to that of a wrong code with no matching position; (D) the execution counters of every basic-block edge of the instrumented packages (the compiler's 8-bit coverage counters, zeroed before and read after the call) are identical for all k, judged like (C) only when the reference code's profile is reproducible; (C) the durations handed to time.Sleep and to the timer constructors during the call (hook added to package time by the build overlay) are the same for all k, judged only when the reference code's durations are stable over repeated runs; a planted ==, a planted early-exit byte loop, a planted 3 us sleep and a planted 7 us timer must be seen before every run; non-trivial = every case (each has k >= 1 members)",
	checkC09)

func genC09(t *rapid.T) c09Case {
	entries := []string{"hotp", "totp", "ocra", "wasm", "rest-hotp", "rest-totp", "rest-ocra"}
	if wasmMainAvailable {
		entries = append(entries, "wasmjs-hotp", "wasmjs-totp")
	}
	c := c09Case{Entry: rapid.SampledFrom(entries).Draw(t, "entry")}
	c.Key = rapid.SliceOfN(rapid.Byte(), 10, 40).Draw(t, "key")
	c.Digits = rapid.SampledFrom([]int{6, 8, 9, 10}).Draw(t, "digits")
	if !strings.HasPrefix(c.Entry, "rest") && !strings.HasPrefix(c.Entry, "wasmjs") && c.Entry != "ocra" {
		c.Digits = rapid.IntRange(6, 10).Draw(t, "digitsAny")
	}
	c.Algo = rapid.IntRange(0, 2).Draw(t, "algo")
	c.Skew = rapid.IntRange(0, 3).Draw(t, "skew")
	c.Period = rapid.SampledFrom([]int{30, 60, 1}).Draw(t, "period")
	c.N = rapid.Uint64Range(100, 1<<40).Draw(t, "n")
	if strings.HasSuffix(c.Entry, "totp") {
		c.N = rapid.Uint64Range(1_000_000, 1<<40).Draw(t, "unix")
	}
	c.Salt = rapid.Uint64().Draw(t, "salt")
	if strings.HasSuffix(c.Entry, "ocra") {
		names := otp.ListSuites()
		for i := 1; i < len(names); i++ {
			for j := i; j > 0 && names[j] < names[j-1]; j-- {
				names[j], names[j-1] = names[j-1], names[j]
			}
		}
		var cfg ref.OCRACfg
		if rapid.Bool().Draw(t, "registered") {
			c.Reg = rapid.SampledFrom(names).Draw(t, "reg")
			rd, _ := ref.ReadSuite(c.Reg, true)
			cfg = rd.Cfg
		} else { // hand-built configuration: every digit count 4..10
			mask := rapid.IntRange(1, 31).Draw(t, "fields")
			cfg = ref.OCRACfg{Raw: "OCRA-1:custom", Hash: c.Algo, Digits: rapid.IntRange(4, 10).Draw(t, "ocraDigits"), C: mask&1 != 0, Q: mask&2 != 0, P: mask&4 != 0, S: mask&8 != 0, T: mask&16 != 0,
				QFormat: rapid.IntRange(1, 6).Draw(t, "qf"), PHash: rapid.IntRange(1, 3).Draw(t, "ph"), TimeStep: 60, SessionNN: -1}
			if c.Entry == "rest-ocra" {
				cfg.Raw = ""
			}
			c.Cfg = cfg
		}
		fill := func(n int, label string) []byte { return rapid.SliceOfN(rapid.Byte(), n, n).Draw(t, label) }
		if cfg.C {
			c.In.C = fill(8, "inC")
		}
		if cfg.Q {
			c.In.Q = fill(rapid.IntRange(ref.QMin(cfg.QFormat), 128).Draw(t, "qLen"), "inQ")
		}
		if cfg.P {
			c.In.P = fill(ref.PLen(cfg.PHash), "inP")
		}
		if cfg.S {
			c.In.S = fill(rapid.IntRange(1, 128).Draw(t, "sLen"), "inS")
		}
		if cfg.T {
			c.In.T = fill(8, "inT")
		}
	}
	return c
}

// canaryCheck makes sure the instrumentation sees planted leaks; exit 3 otherwise.
func canaryCheck() error {
	e := "7391624508"
	base := traced(func() { canary.Eq("1111111111", e) })
	if tainted(base.str, "1111111111", []string{e}, nil) == "" {
		return fmt.Errorf("a planted == on the expected code produced no string-comparison event (events %v)", base.vec)
	}
	var lps []traceResult
	for _, in := range []string{"2222222222", "1111111111", "7391611111"} {
		lps = append(lps, traced(func() { canary.Loop([]byte(in), []byte(e)) }))
	}
	l0, l5 := lps[1], lps[2]
	if l0.vec == l5.vec {
		return fmt.Errorf("a planted early-exit byte loop produced identical traces for 0 and 5 matching characters (%v)", l0.vec)
	}
	o0 := traced(func() { canary.Ord("1111111111", e) })
	if tainted(o0.str, "1111111111", []string{e}, nil) == "" {
		return fmt.Errorf("a planted strings.Compare on the expected code was not observed")
	}
	// one closure for all inputs: the compiler inlines the comparison into each function literal, and every copy has block
	// counters of its own
	// (and it inlines a small helper closure at each call site, copying the literal inside: hence the loop — one call site)
	var cts []traceResult
	for _, in := range []string{"2222222222", "1111111111", "7391611111"} { // the first is a warm-up
		cts = append(cts, traced(func() { canary.CT([]byte(in), []byte(e)) }))
	}
	c0, c5 := cts[1], cts[2]
	if c0.vec != c5.vec || tainted(c0.str, "1111111111", []string{e}, nil) != "" {
		return fmt.Errorf("the constant-time comparison trips the oracles (%v vs %v)", c0.vec, c5.vec)
	}
	// block counters: present, different for the planted early-exit loop, equal for the constant-time comparison
	if trace.CountersLen() == 0 {
		return fmt.Errorf("the runtime announced no block-counter section")
	}
	if bytes.Equal(l0.blk, l5.blk) {
		return fmt.Errorf("a planted early-exit byte loop produced identical block profiles for 0 and 5 matching characters")
	}
	if !bytes.Equal(c0.blk, c5.blk) {
		n, first := diffBlocks(c0.blk, c5.blk)
		var vals []string
		for _, k := range first {
			vals = append(vals, fmt.Sprintf("%d:%d/%d", k, c0.blk[k], c5.blk[k]))
		}
		return fmt.Errorf("the constant-time comparison produces different block profiles (%d blocks, %v)", n, vals)
	}
	if sleepHookAvailable {
		// a planted sleep and a planted timer must be observed with their durations, and only those
		s1 := traced(func() { time.Sleep(3 * time.Microsecond) })
		s2 := traced(func() { tm := time.NewTimer(7 * time.Microsecond); <-tm.C })
		s3 := traced(func() { canary.CT([]byte("1111111111"), []byte(e)) })
		if len(s1.dur) != 1 || s1.dur[0] != 3000 || len(s2.dur) != 1 || s2.dur[0] != 7000 || len(s3.dur) != 0 {
			return fmt.Errorf("planted time.Sleep(3us) / NewTimer(7us) / no sleep were observed as %v / %v / %v", s1.dur, s2.dur, s3.dur)
		}
	}
	var sum uint64
	for _, x := range c0.vec {
		sum += x
	}
	if sum == 0 {
		return fmt.Errorf("crypto/subtle is not instrumented (no event from ConstantTimeCompare)")
	}
	return nil
}

func TestC09_Traces(t *testing.T) {
	if err := canaryCheck(); err != nil {
		fmt.Println("INFRA: comparison tracing is not working:", err)
		os.Exit(3)
	}
	c09Main.rapid(t, ev.Pick(400, 6_000), genC09)
}
