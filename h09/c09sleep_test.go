//go:build !nosleephook

package verifh

import (
	"sync"
	"time"
)

// Durations handed to time.Sleep and to the timer constructors (NewTimer, After, AfterFunc, Reset, NewTicker, and
// through them context deadlines) while a traced call runs, through the hook the build overlay adds to package time.
const sleepHookAvailable = true

var (
	durMu  sync.Mutex
	durOn  bool
	durLog []int64
)

func init() {
	time.VerifDurationHook = func(d int64) {
		durMu.Lock()
		if durOn && len(durLog) < 256 {
			durLog = append(durLog, d)
		}
		durMu.Unlock()
	}
}

func durStart() {
	durMu.Lock()
	durOn, durLog = true, durLog[:0]
	durMu.Unlock()
}

func durStop() []int64 {
	durMu.Lock()
	durOn = false
	out := append([]int64(nil), durLog...)
	durMu.Unlock()
	return out
}
