package verifh

import (
	"bytes"
	"encoding/json"
	"fmt"
	"testing"
	"time"

	"github.com/ja7ad/otp/internal/app/api"
	"github.com/valyala/fasthttp"

	"verifh/ev"
)

// FuzzC19 — coverage-guided fuzzing of the REST router in-process (thorough tier of C19):
// (endpoint selector, method selector, body bytes) -> router wrapped in the service's own
// Recovery middleware. Oracle: the handler returns within a watchdog, sets a valid status,
// answers syntactically broken JSON on the POST endpoints with a status >= 400, and no
// panic escapes the middleware.

type c19FuzzCase struct {
	Path   string `json:"path"`
	Method string `json:"method"`
	Body   []byte `json:"body"`
}

var c19Paths = []string{"/totp/generate", "/totp/validate", "/hotp/generate", "/hotp/validate", "/ocra/generate", "/ocra/validate", "/ocra/suite", "/otp/url", "/ocra/suites", "/otp/secret", "/", "/nope"}

func checkC19Fuzz(c c19FuzzCase) error {
	var ctx fasthttp.RequestCtx
	ctx.Request.Header.SetMethod(c.Method)
	ctx.Request.SetRequestURI(c.Path)
	ctx.Request.SetBody(c.Body)
	done := make(chan any, 1)
	go func() {
		defer func() { done <- recover() }()
		api.VerifHandleRecovered(&ctx)
	}()
	select {
	case r := <-done:
		if r != nil {
			return fmt.Errorf("a panic escaped the recovery middleware: %v", r)
		}
	case <-time.After(20 * time.Second):
		return fmt.Errorf("the handler did not return within 20 s")
	}
	st := ctx.Response.StatusCode()
	if st < 100 || st > 599 {
		return fmt.Errorf("status %d", st)
	}
	isPost := false
	for _, p := range c19Paths[:8] {
		if p == c.Path {
			isPost = true
		}
	}
	if isPost && c.Method == "POST" {
		// "syntactically broken" is a matter of the JSON grammar (json.Valid), not of whether Go can hold the value: 1e700 is a
		// well-formed number that no float64 holds, and {"":1e700} next to a valid request is a well-formed body (F26)
		if !json.Valid(c.Body) && st < 400 {
			return fmt.Errorf("POST %s with syntactically broken JSON %q answered %d", c.Path, c.Body, st)
		}
		if t := bytes.TrimLeft(c.Body, " \t\r\n"); json.Valid(c.Body) && len(t) > 0 && t[0] != '{' && string(bytes.TrimSpace(c.Body)) != "null" && st < 400 {
			return fmt.Errorf("POST %s with a non-object JSON body %q answered %d", c.Path, c.Body, st)
		}
	}
	if isPost && c.Method != "POST" && c.Method != "HEAD" && st < 400 {
		return fmt.Errorf("%s %s answered %d; a wrong method must get a failure status (>= 400)", c.Method, c.Path, st)
	}
	return nil
}

func FuzzC19(f *testing.F) {
	seeds := []string{
		`{"secret":"JBSWY3DPEHPK3PXP","timestamp":1700000000,"digits":"6","period":30,"algorithm":"SHA1"}`,
		`{"secret":"JBSWY3DPEHPK3PXP","code":"123456","timestamp":1700000000,"skew":18446744073709551615,"period":0}`,
		`{"secret":"JBSWY3DPEHPK3PXP","code":"123456","counter":18446744073709551615,"skew":10,"digits":"10"}`,
		`{"secret":"JBSWY3DPEHPK3PXP","raw_suite":"OCRA-1:HOTP-SHA1-6:QN08","input":{"challenge_hex":"3132333435363738"}}`,
		`{"secret":"JBSWY3DPEHPK3PXP","raw_suite":"  ","suite":{"hash_function":"SHA1","code_digits":6,"challenge_format":1,"include_challenge":true},"input":{}}`,
		`{"secret":"JBSWY3DPEHPK3PXP","code":"1","suite":{"hash_function":"SHA512","code_digits":10,"challenge_format":6,"include_counter":true,"include_challenge":true,"include_password":true,"include_session":true,"include_timestamp":true,"password_hash":3,"timestep":1},"input":{"counter_hex":"0000000000000001","challenge_hex":"00112233445566778899","password_hex":"00","session_info_hex":"ff","timestamp_hex":"0000000000000002"}}`,
		`{"raw_suite":"OCRA-1:HOTP-SHA1-6:QN08-S-T1"}`,
		`{"type":"totp","secret":"JBSWY3DPEHPK3PXP","issuer":"My Company","account_name":"a b","period":30}`,
		`{`, `[]`, `null`, `{"secret":1}`, ``,
		`{"seCret":"22","":1e700}`, // F26: a well-formed number beyond float64 next to a valid request
	}
	for i, s := range seeds {
		f.Add(uint8(i), uint8(0), []byte(s))
	}
	f.Fuzz(func(t *testing.T, sel, msel uint8, body []byte) {
		if len(body) > 1<<16 {
			return
		}
		c := c19FuzzCase{Path: c19Paths[int(sel)%len(c19Paths)], Method: []string{"POST", "POST", "POST", "GET", "PUT", "HEAD"}[int(msel)%6], Body: body}
		if err := checkC19Fuzz(c); err != nil {
			p := ev.WriteReplay("C19", "fuzz-inprocess", c, err)
			t.Fatalf("C19 violated: %v [replay %s]", err, p)
		}
	})
}

var _ = newPart("C19", "fuzz-inprocess",
	"native coverage-guided fuzzing of the REST router in-process (endpoint selector, method selector, body bytes): handler wrapped in the service's Recovery middleware returns within 20 s, sets a valid status, refuses broken or non-object JSON on the POST endpoints with a status >= 400, answers wrong methods (GET, PUT) with a failure status, no panic escapes",
	func(c c19FuzzCase) verdict {
		if err := checkC19Fuzz(c); err != nil {
			return verdict{NT: true, Err: err}
		}
		return verdict{NT: true}
	})
