//go:build nosleephook

package verifh

const sleepHookAvailable = false

func durStart()        {}
func durStop() []int64 { return nil }
