//go:build nowasmmain

package verifh

// The binding did not compile against the stand-in syscall/js: its entries are left out (see the evidence).
const wasmMainAvailable = false

type wasmValue struct{}

func wasmFn(name string) wasmValue                              { panic("wasm/main.go is not part of this build") }
func wasmArgs(args ...any) []any                                { return nil }
func wasmCall(fn wasmValue, args []any) (ok bool, text string) { panic("wasm/main.go is not part of this build") }
