module github.com/ja7ad/otp/internal/app/verifh09

go 1.24

require (
	github.com/ja7ad/otp v1.3.3
	github.com/ja7ad/otp/internal/app v0.0.0
	github.com/valyala/fasthttp v1.60.0
	pgregory.net/rapid v1.3.0
	verifh v0.0.0
	early.verif v0.0.0 // indirect
)

require (
	github.com/KyleBanks/depth v1.2.1 // indirect
	github.com/andybalholm/brotli v1.1.1 // indirect
	github.com/go-openapi/jsonpointer v0.21.1 // indirect
	github.com/go-openapi/jsonreference v0.21.0 // indirect
	github.com/go-openapi/spec v0.21.0 // indirect
	github.com/go-openapi/swag v0.23.1 // indirect
	github.com/josharian/intern v1.0.0 // indirect
	github.com/klauspost/compress v1.18.0 // indirect
	github.com/mailru/easyjson v0.9.0 // indirect
	github.com/swaggo/fasthttp-swagger v1.0.2 // indirect
	github.com/swaggo/files/v2 v2.0.2 // indirect
	github.com/swaggo/swag v1.16.4 // indirect
	github.com/valyala/bytebufferpool v1.0.0 // indirect
	golang.org/x/tools v0.31.0 // indirect
	gopkg.in/yaml.v3 v3.0.1 // indirect
)

replace github.com/ja7ad/otp => /repo

replace github.com/ja7ad/otp/internal/app => /repo/internal/app

replace verifh => ../h

replace early.verif => ../h/early
