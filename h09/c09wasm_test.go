//go:build !nowasmmain

package verifh

import (
	"sync"
	"syscall/js" // the native stand-in put in place through the build overlay (see fakejs/js.go.txt)
	"time"

	wm "github.com/ja7ad/otp/internal/app/verifh09/wasmmain" // wasm/main.go of the tree under test, through the overlay
)

const wasmMainAvailable = true

var wasmMainOnce sync.Once

// wasmFn returns the function the binding registered on the (stand-in) JavaScript global object.
func wasmFn(name string) js.Value {
	wasmMainOnce.Do(func() {
		go wm.VerifMain() // registers the exported functions, then blocks for ever like the real module
		for i := 0; i < 500; i++ {
			if js.Global().Get("validateTOTP").Type() == js.TypeFunction && js.Global().Get("validateHOTP").Type() == js.TypeFunction {
				return
			}
			time.Sleep(10 * time.Millisecond)
		}
		panic("HARNESS: the binding did not register validateHOTP / validateTOTP")
	})
	return js.Global().Get(name)
}

// wasmArgs converts Go values to JavaScript values outside the traced region.
func wasmArgs(args ...any) []any {
	out := make([]any, len(args))
	for i, a := range args {
		out[i] = js.ValueOf(a)
	}
	return out
}

// wasmCall invokes a registered function; ok is its boolean answer, text its string answer (an "error: ..." string).
func wasmCall(fn js.Value, args []any) (ok bool, text string) {
	v := fn.Invoke(args...)
	if v.Type() == js.TypeBoolean {
		return v.Bool(), ""
	}
	return false, v.String()
}
