package verifh

import (
	"bufio"
	"bytes"
	"compress/gzip"
	"compress/zlib"
	"encoding/json"
	"errors"
	"fmt"
	"io"
	"net"
	"net/http"
	"net/url"
	"os"
	"path/filepath"
	"regexp"
	"sort"
	"strings"
	"sync"
	"testing"
	"time"

	"pgregory.net/rapid"

	"verifh/ev"
	"verifh/gen"
	"verifh/ref"
)

// ---------------------------------------------------------------------------
// C19 — the REST service answers every request promptly and keeps serving.

type hostileReq struct {
	Method string `json:"method"`
	Path   string `json:"path"`
	// Body is built from Base (a well-formed body of endpoint Ep) by one mutation.
	Ep        string   `json:"ep"`       // which endpoint's well-formed body is the base ("" = none)
	Mutation  string   `json:"mutation"` // see mutateBody
	Field     string   `json:"field"`
	Value     string   `json:"value"` // raw JSON text put in place of the field's value
	Cut       int      `json:"cut"`
	Raw       []byte   `json:"raw"`            // for Mutation == "raw"
	Size      int      `json:"size"`           // for big bodies
	Unit      string   `json:"unit,omitempty"` // big strings: the repeated unit ("" = "A")
	KeepAlive bool     `json:"keep_alive"`     // send on a pooled keep-alive connection instead of a connection of its own
	Probe     bool     `json:"probe"`
	ProbeReq  restStep `json:"probe_req"`
}

type c19Case struct {
	Reqs []hostileReq `json:"reqs"`
}

var postEndpoints = map[string]string{"totp-gen": "/totp/generate", "totp-val": "/totp/validate", "hotp-gen": "/hotp/generate", "hotp-val": "/hotp/validate",
	"ocra-gen": "/ocra/generate", "ocra-val": "/ocra/validate", "suite": "/ocra/suite", "url": "/otp/url"}
var getEndpoints = []string{"/ocra/suites", "/otp/secret", "/"}

// required fields per POST endpoint (a body without one of them must be refused)
var requiredFields = map[string][]string{
	"totp-gen": {"secret"}, "hotp-gen": {"secret"}, "totp-val": {"secret", "code"}, "hotp-val": {"secret", "code"},
	"ocra-gen": {"secret", "input"}, "ocra-val": {"secret", "code", "input"}, "suite": {"raw_suite"}, "url": {"type", "secret", "issuer", "account_name"},
}

// field types per endpoint: "s" string, "u" unsigned number, "i" signed number, "o" object
var fieldTypes = map[string]map[string]string{
	"totp-gen": {"secret": "s", "timestamp": "i", "counter": "u", "digits": "s", "period": "u", "algorithm": "s"},
	"hotp-gen": {"secret": "s", "timestamp": "i", "counter": "u", "digits": "s", "period": "u", "algorithm": "s"},
	"totp-val": {"secret": "s", "timestamp": "i", "counter": "u", "code": "s", "digits": "s", "period": "u", "skew": "u", "algorithm": "s"},
	"hotp-val": {"secret": "s", "timestamp": "i", "counter": "u", "code": "s", "digits": "s", "period": "u", "skew": "u", "algorithm": "s"},
	"ocra-gen": {"secret": "s", "raw_suite": "s", "suite": "o", "input": "o"},
	"ocra-val": {"secret": "s", "code": "s", "raw_suite": "s", "suite": "o", "input": "o"},
	"suite":    {"raw_suite": "s"},
	"url":      {"type": "s", "secret": "s", "issuer": "s", "account_name": "s", "period": "u", "digits": "s", "algorithm": "s"},
}

func baseBody(ep string) map[string]any {
	switch ep {
	case "totp-gen", "hotp-gen":
		return map[string]any{"secret": "JBSWY3DPEHPK3PXP", "timestamp": 1700000000, "counter": 5, "digits": "6", "period": 30, "algorithm": "SHA1"}
	case "totp-val", "hotp-val":
		return map[string]any{"secret": "JBSWY3DPEHPK3PXP", "code": "123456", "timestamp": 1700000000, "counter": 5, "digits": "6", "period": 30, "skew": 1, "algorithm": "SHA1"}
	case "ocra-gen":
		return map[string]any{"secret": "JBSWY3DPEHPK3PXP", "raw_suite": "OCRA-1:HOTP-SHA1-6:QN08", "input": map[string]any{"challenge_hex": "3132333435363738"}}
	case "ocra-val":
		return map[string]any{"secret": "JBSWY3DPEHPK3PXP", "code": "123456", "raw_suite": "OCRA-1:HOTP-SHA1-6:QN08", "input": map[string]any{"challenge_hex": "3132333435363738"}}
	case "suite":
		return map[string]any{"raw_suite": "OCRA-1:HOTP-SHA1-6:QN08"}
	case "url":
		return map[string]any{"type": "totp", "secret": "JBSWY3DPEHPK3PXP", "issuer": "Iss", "account_name": "acc", "period": 30, "digits": "6", "algorithm": "SHA1"}
	}
	return nil
}

// buildBody returns the request body and whether a status >= 400 is REQUIRED for it
// on the POST endpoint it is sent to (mustRefuse), plus a class label.
func (h hostileReq) buildBody() (body []byte, mustRefuse bool, class string) {
	base := baseBody(h.Ep)
	enc := func(m map[string]any) []byte { b, _ := json.Marshal(m); return b }
	// a body with one field's value replaced by raw JSON text
	splice := func(field, raw string) []byte {
		m := map[string]json.RawMessage{}
		for k, v := range base {
			b, _ := json.Marshal(v)
			m[k] = b
		}
		m[field] = json.RawMessage(raw)
		var sb bytes.Buffer
		sb.WriteByte('{')
		first := true
		for _, k := range sortedKeys(m) {
			if !first {
				sb.WriteByte(',')
			}
			first = false
			kb, _ := json.Marshal(k)
			sb.Write(kb)
			sb.WriteByte(':')
			sb.Write(m[k])
		}
		sb.WriteByte('}')
		return sb.Bytes()
	}
	if h.Mutation == "type" && (h.Ep == "totp-val" || h.Ep == "hotp-val") && fieldTypes[h.Ep][h.Field] != "s" {
		// a code that can never match (10-digit codes are below 2^31): the window loop, if any, runs its full course
		base["digits"], base["code"] = "10", "9999999999"
	}
	switch h.Mutation {
	case "none":
		return enc(base), false, "wellformed"
	case "empty":
		return nil, true, "empty-body"
	case "truncate":
		b := enc(base)
		cut := 1 + h.Cut%(len(b)-1)
		return b[:cut], true, "truncated-json"
	case "unterminated":
		return []byte(`{"secret":"JBSWY3DPEHPK3PXP","code":"12`), true, "unterminated-string"
	case "badnum":
		// a numeric field written in a way the JSON grammar does not allow (leading zero, bare sign, missing digits around the
		// point or after the exponent, hex, separators, NaN): not a JSON text, whatever a lenient lexer makes of it
		return splice(h.Field, h.Value), true, "malformed-number"
	case "rawctl":
		// a string field with a raw (unescaped) control character inside the quotes: not a JSON text
		return splice(h.Field, "\"JBSWY3DP"+h.Value+"EHPK3PXP\""), true, "raw-control-character-in-string"
	case "trailing":
		// a complete, valid request object followed by more bytes: not a JSON text any more
		return append(enc(base), h.Value...), true, "trailing-data"
	case "raw":
		valid := json.Valid(h.Raw) // the JSON grammar decides, not whether Go can hold the value (1e700 is well-formed; F26)
		if !valid {
			return h.Raw, true, "raw-invalid-json"
		}
		return h.Raw, false, "raw-valid-json"
	case "drop":
		delete(base, h.Field)
		req := false
		for _, r := range requiredFields[h.Ep] {
			if r == h.Field {
				req = true
			}
		}
		if h.Field == "raw_suite" && (h.Ep == "ocra-gen" || h.Ep == "ocra-val") {
			req = true // base has no structured suite: one of the two is required
		}
		return enc(base), req, "missing-field"
	case "type":
		// Value is raw JSON of some type; decide whether it is the wrong type / out of range for the field
		ft := fieldTypes[h.Ep][h.Field]
		v := strings.TrimSpace(h.Value)
		wrong := false
		switch {
		case v == "null":
			wrong = false // null leaves the zero value: not classified
			return splice(h.Field, h.Value), false, "null-field"
		case strings.HasPrefix(v, `"`):
			wrong = ft != "s"
		case v == "true" || v == "false":
			wrong = true
		case strings.HasPrefix(v, "["):
			wrong = true
		case strings.HasPrefix(v, "{"):
			wrong = ft != "o"
			if !wrong {
				return splice(h.Field, h.Value), false, "object-field"
			}
		default: // number
			switch ft {
			case "s", "o":
				wrong = true
			case "u":
				wrong = !isUintText(v, "18446744073709551615")
			case "i":
				wrong = !isIntText(v)
			}
			if !wrong {
				return splice(h.Field, h.Value), false, "extreme-number"
			}
			return splice(h.Field, h.Value), true, "out-of-range-number"
		}
		if wrong {
			return splice(h.Field, h.Value), true, "wrong-type"
		}
		// a string value for a string field: empty/blank required strings must be refused
		req := false
		for _, r := range requiredFields[h.Ep] {
			if r == h.Field {
				req = true
			}
		}
		var s string
		json.Unmarshal([]byte(v), &s)
		if req && strings.TrimSpace(s) == "" && h.Field != "raw_suite" {
			return splice(h.Field, h.Value), true, "blank-required-string"
		}
		return splice(h.Field, h.Value), false, "odd-string"
	case "contradictory":
		base["suite"] = map[string]any{"hash_function": "SHA1", "code_digits": 6, "challenge_format": 1, "include_challenge": true}
		base["raw_suite"] = h.Value
		return enc(base), false, "contradictory-suites"
	case "big-string":
		unit := h.Unit
		if unit == "" {
			unit = "A"
		}
		base[h.Field] = strings.Repeat(unit, h.Size/len(unit)+1)[:h.Size]
		b := enc(base)
		if len(b) > 1<<20 {
			return b, true, "over-limit-body"
		}
		return b, false, "huge-string"
	case "nested":
		return []byte(strings.Repeat("[", h.Size) + strings.Repeat("]", h.Size)), true, "nested-arrays"
	}
	return enc(base), false, "wellformed"
}

func sortedKeys(m map[string]json.RawMessage) []string {
	var ks []string
	for k := range m {
		ks = append(ks, k)
	}
	sortStrings(ks)
	return ks
}

func isUintText(v, max string) bool {
	if v == "" {
		return false
	}
	for i := 0; i < len(v); i++ {
		if v[i] < '0' || v[i] > '9' {
			return false
		}
	}
	if len(v) > 1 && v[0] == '0' {
		return false
	}
	return len(v) < len(max) || (len(v) == len(max) && v <= max)
}

func isIntText(v string) bool {
	neg := strings.HasPrefix(v, "-")
	if neg {
		return isUintText(v[1:], "9223372036854775808")
	}
	return isUintText(v, "9223372036854775807")
}

// rawHTTP sends one request on its own connection and reads the whole response.
func rawHTTP(addr, method, path string, body []byte, timeout time.Duration) (status int, respBody []byte, err error) {
	return rawHTTPWith(addr, method, path, nil, body, timeout)
}

// rawHTTPWith: rawHTTP with extra header lines ("Name: value").
func rawHTTPWith(addr, method, path string, extra []string, body []byte, timeout time.Duration) (status int, respBody []byte, err error) {
	c, err := net.DialTimeout("tcp", addr, 5*time.Second)
	if err != nil {
		return 0, nil, err
	}
	defer c.Close()
	c.SetDeadline(time.Now().Add(timeout))
	var req bytes.Buffer
	fmt.Fprintf(&req, "%s %s HTTP/1.1\r\nHost: x\r\nConnection: close\r\n", method, path)
	if body != nil || method == "POST" || method == "PUT" || method == "PATCH" {
		fmt.Fprintf(&req, "Content-Type: application/json\r\nContent-Length: %d\r\n", len(body))
	}
	for _, h := range extra {
		req.WriteString(h + "\r\n")
	}
	req.WriteString("\r\n")
	done := make(chan error, 1)
	go func() {
		_, e := c.Write(req.Bytes())
		if e == nil && len(body) > 0 {
			_, e = c.Write(body)
		}
		done <- e
	}()
	br := bufio.NewReader(c)
	resp, rerr := http.ReadResponse(br, &http.Request{Method: method})
	if rerr != nil {
		werr := <-done
		return 0, nil, fmt.Errorf("no complete response: %v (write: %v)", rerr, werr)
	}
	defer resp.Body.Close()
	b, rerr := io.ReadAll(io.LimitReader(resp.Body, 4<<20))
	if rerr != nil {
		return resp.StatusCode, b, fmt.Errorf("response body incomplete: %v", rerr)
	}
	if method == "HEAD" && len(body) == 0 {
		// (a HEAD request that itself carries a body is left out: fasthttp does not consume it, so it is read as a second,
		// malformed request and answered with a second response — a property of the HTTP library, not of the service)
		// the answer to HEAD ends with the header block; the request said "Connection: close", so everything the server
		// still sends before closing would be read as the start of the next response on a reused connection
		if rest, _ := io.ReadAll(io.LimitReader(br, 1<<20)); len(rest) > 0 {
			return resp.StatusCode, b, fmt.Errorf("%w: %d bytes follow the header block (%q...)", errHeadBody, len(rest), trunc(string(rest), 60))
		}
	}
	return resp.StatusCode, b, nil
}

var errHeadBody = errors.New("the response to HEAD carries a body")

func checkC19(c c19Case) verdict {
	sv := server()
	labels := []string{}
	nt := false
	for i, h := range c.Reqs {
		if h.Probe {
			l, _, err := runRestStep(sv, h.ProbeReq)
			labels = append(labels, "probe")
			_ = l
			if err != nil {
				return bad(true, labels, "request %d: well-formed probe after %d hostile requests failed: %v", i, i, err)
			}
			continue
		}
		body, mustRefuse, class := h.buildBody()
		labels = append(labels, "class="+class, "method="+h.Method)
		nt = nt || class != "wellformed"
		t0 := time.Now()
		var status int
		var rb []byte
		var err error
		if h.KeepAlive && len(body) <= 1<<17 && len(h.Path) < 200 && h.Path != "*" && !strings.ContainsAny(h.Path, "%\x00 ") {
			// the same hostile request on a reused connection (what follows it on that connection must still work)
			labels = append(labels, "keep-alive")
			r := sv.do(h.Method, h.Path, body, false, 5*time.Second)
			status, rb, err = r.Status, r.Body, r.Err
		} else {
			status, rb, err = rawHTTP(sv.addr, h.Method, h.Path, body, 5*time.Second)
		}
		if errors.Is(err, errHeadBody) {
			return bad(true, labels, "request %d: HEAD %s: %v — not a complete, correctly framed HTTP response", i, trunc(h.Path, 80), err)
		}
		if err != nil && class != "over-limit-body" {
			// once more, alone, with a long budget: only a second miss counts
			status, rb, err = rawHTTP(sv.addr, h.Method, h.Path, body, 15*time.Second)
			if err != nil {
				// a stuck worker cannot be shrunk around (every further run would wait again): report and stop
				hang("C19", "hostile-histories", c, recorders["C19/hostile-histories"], fmt.Sprintf("request %d: %s %s (%s, %d body bytes: %s) got no complete HTTP response within 5 s and again within 15 s: %v", i, h.Method, trunc(h.Path, 80), class, len(body), trunc(string(body), 200), err))
			}
		}
		if err != nil { // over-limit body: the server may close while we are still sending
			labels = append(labels, "over-limit-conn-closed")
			continue
		}
		if d := time.Since(t0); d > 3*time.Second && (class == "extreme-number" || class == "huge-string") {
			// work must not grow with a numeric parameter (normal cost ~100 us) nor faster than linearly with a string
			// (normal cost of a 1 MiB body: a few ms): measure once more, alone
			t1 := time.Now()
			_, _, err2 := rawHTTP(sv.addr, h.Method, h.Path, body, 15*time.Second)
			if d2 := time.Since(t1); err2 != nil || d2 > 3*time.Second {
				hang("C19", "hostile-histories", c, recorders["C19/hostile-histories"], fmt.Sprintf("request %d: POST %s with %s=%s took %v and again %v: the work grows with a request parameter", i, h.Path, h.Field, h.Value, d.Round(time.Millisecond), d2.Round(time.Millisecond)))
			}
			labels = append(labels, "slow-once")
		}
		known := ""
		for ep, p := range postEndpoints {
			if p == h.Path {
				known = ep
			}
		}
		isGetEp := false
		for _, p := range getEndpoints {
			if p == h.Path {
				isGetEp = true
			}
		}
		switch {
		case class == "over-limit-body":
			// the body limit is enforced before routing: any refusal will do
			if status < 400 {
				return bad(true, labels, "request %d: %s %s with a %d-byte body (over the 1 MiB limit) answered %d", i, h.Method, trunc(h.Path, 80), len(body), status)
			}
		// The statement asks for a status that "distinguishes success from failure", not for particular codes: a wrong
		// method or an unknown path must get a failure status (>= 400; the tree answers 405 / 404). HEAD and OPTIONS are
		// left out: answering them with 2xx (HEAD like GET, OPTIONS for CORS) would be legitimate.
		case known != "" && h.Method != "POST" && h.Method != "HEAD" && h.Method != "OPTIONS":
			if status < 400 {
				return bad(true, labels, "request %d: %s %s answered %d; a wrong method must get a failure status (>= 400)", i, h.Method, h.Path, status)
			}
		case isGetEp && h.Method != "GET" && h.Method != "HEAD" && h.Method != "OPTIONS":
			if status < 400 {
				return bad(true, labels, "request %d: %s %s answered %d; a wrong method must get a failure status (>= 400)", i, h.Method, h.Path, status)
			}
		case known != "" && h.Method == "POST" && known == h.Ep && mustRefuse:
			// The status must distinguish success from failure. A syntactically broken body cannot succeed, so it needs a
			// failure status. A well-formed body with a wrongly typed, out-of-range, blank or missing field could be handled
			// leniently by a service (that is not what the statement forbids): then a status below 400 must come with the
			// endpoint's actual result, not with an error description.
			if status < 400 && (syntacticClass(class) || !successPayload(known, rb)) {
				return bad(true, labels, "request %d: POST %s with a %s body answered %d %s; the status claims success but the answer is not the endpoint's result (body %s)", i, h.Path, class, status, trunc(string(rb), 120), trunc(string(body), 200))
			}
		case known != "" && h.Method == "POST" && known != h.Ep && syntacticClass(class):
			if status < 400 {
				return bad(true, labels, "request %d: POST %s with a syntactically broken body (%s) answered %d", i, h.Path, class, status)
			}
		case known == "" && !isGetEp && !strings.HasPrefix(h.Path, "/docs") && h.Path != "" && !strings.HasPrefix(h.Path, "/?") && pathIsPlainUnknown(h.Path):
			if status < 400 {
				return bad(true, labels, "request %d: %s %s (unknown path) answered %d; want a failure status (>= 400)", i, h.Method, trunc(h.Path, 80), status)
			}
		}
		if status < 100 || status > 599 {
			return bad(true, labels, "request %d: status %d", i, status)
		}
		// Whatever the body was: a 2xx answer of a POST endpoint carries that endpoint's result. An error description under a
		// success status does not distinguish success from failure.
		if known != "" && h.Method == "POST" && status >= 200 && status < 300 && !successPayload(known, rb) {
			return bad(true, append(labels, "success-status-without-result"), "request %d: POST %s (%s) answered %d %s; the status claims success but the answer is not the endpoint's result (request body %s)", i, h.Path, class, status, trunc(string(rb), 160), trunc(string(body), 200))
		}
	}
	if !sv.alive() {
		return bad(true, labels, "the server process died: %s", tailStr(sv.stderr.String(), 800))
	}
	if sv.stderr.alarm() {
		return bad(true, labels, "the server reports an unrecovered panic, a fatal error or a data race: %s", trunc(sv.stderr.String(), 1500))
	}
	return ok(nt, labels...)
}

func syntacticClass(class string) bool {
	switch class {
	case "empty-body", "truncated-json", "unterminated-string", "raw-invalid-json", "nested-arrays", "trailing-data", "malformed-number", "raw-control-character-in-string":
		return true
	}
	return false
}

// successPayload reports whether a response body is the result object of the endpoint: a code of 1..10 digits, a
// boolean verdict, a configuration, an otpauth URL.
func successPayload(ep string, rb []byte) bool {
	var m map[string]any
	if json.Unmarshal(rb, &m) != nil {
		return false
	}
	switch ep {
	case "totp-gen", "hotp-gen", "ocra-gen":
		c, _ := m["code"].(string)
		if len(c) < 1 || len(c) > 10 {
			return false
		}
		for i := 0; i < len(c); i++ {
			if c[i] < '0' || c[i] > '9' {
				return false
			}
		}
		return true
	case "totp-val", "hotp-val", "ocra-val":
		_, isBool := m["valid"].(bool)
		return isBool
	case "suite":
		_, isObj := m["config"].(map[string]any)
		return isObj
	case "url":
		u, _ := m["url"].(string)
		return strings.HasPrefix(u, "otpauth://")
	}
	return false
}

// pathIsPlainUnknown: a path that cannot be an alias of a known route after
// normalisation by the server (no percent-escapes, no doubled or trailing slashes,
// no dot segments, lower/upper-case variants are distinct paths).
func pathIsPlainUnknown(p string) bool {
	if strings.ContainsAny(p, "%?#\\") || strings.Contains(p, "//") || strings.Contains(p, "/.") || strings.HasSuffix(p, "/") {
		return false
	}
	return true
}

func trunc(s string, n int) string {
	if len(s) > n {
		return s[:n] + "…"
	}
	return s
}

var c19Main = newPart("C19", "hostile-histories",
	"enumerated corner windows (validation requests whose window touches the ends of the counter / time range: 10 counters x 4 windows, 8 instants x 3 periods x 2 windows, a string no counter produces and a digit string as the code, each followed by a probe) and rapid: histories of 2..16 requests to the REAL server binary: methods {GET,POST,PUT,DELETE,HEAD,PATCH,OPTIONS, extension and odd tokens such as PROPFIND, BREW, TRACE, CONNECT, get, a 40-letter token} x paths (ten endpoints, /, /docs..., unknown, 4 KiB long, percent-encoded, doubled/trailing slashes, case variants) x bodies from a JSON mutation grammar over each endpoint's well-formed body (empty, truncated at any byte, unterminated string, a valid object followed by trailing bytes, numbers the JSON grammar does not allow (01, 1., +1, 0x10, NaN ...), raw control characters inside a string, arbitrary bytes, a dropped field, every field x every JSON type incl. null/bool/array/object/number where a string is expected, numbers at +-2^53, +-2^63, 2^64, 1e400, -1, 1.5, numbers drawn from the whole JSON number grammar (zero and non-zero mantissas of up to 1000 digits, fractions, exponents up to +-2^63 and beyond), skew/period/counter/timestamp extremes, blank and 1 MiB strings, contradictory suites incl. blank raw_suite, nested arrays, bodies at and over the 1 MiB limit), every 3rd..5th request a well-formed probe whose answer is checked against the reference; invariant over the history: every request gets a complete parseable HTTP response within 5 s (one lone retry with 15 s), syntactically broken bodies on the POST endpoints, wrong methods (other than HEAD / OPTIONS) and plain unknown paths get a failure status (>= 400); wrongly typed / out-of-range / blank / missing-required fields get a failure status or, if the service handles them, the endpoint's actual result (never an error description under a success status), probes 200 with the RFC value, the process is alive and reports no unrecovered panic; non-trivial = history with at least one non-well-formed request",
	checkC19)

var jsonValues = []string{"null", "true", "false", "0", "1", "-1", "1.5", "1e3", "1e400", "-1e400", "9007199254740992", "-9007199254740993", "9223372036854775807", "9223372036854775808", "-9223372036854775808", "-9223372036854775809",
	"18446744073709551615", "18446744073709551616", "4294967296", "3000000", "\"\"", "\" \"", "\"\\t\\n\"", "\"x\"", "\"\\u0000\"", "[]", "[1]", "{}", "{\"a\":1}", "\"OCRA-1:HOTP-SHA1-6:QN08\"", "\"18446744073709551615\"", "\"OCRA-1:HOTP-SHA1-6:QN08\\r\\nContent-Length: 0\\r\\n\\r\\n\"", "\"x\\r\\nX-Injected: 1\"", "\"a\\nb\"", "\"OCRA-1:HOTP-SHA1-6:QN08\\n\"", "\"TOTP\"", "\"steam\"", "\"totp \"", "\"hotp\"", "\"SHA384\"", "\"7\"", "\"sha1\""}

var hostilePaths = []string{"/nope", "/totp", "/totp/generate/x", "/totp/generat", "/ocra", "/otp", "/TOTP/GENERATE", "/totp/generate/", "//totp/generate", "/totp%2Fgenerate", "/totp/generate%00", "/./totp/generate", "/totp/../totp/generate",
	"/docs", "/docs/", "/docs/index.html", "/docs/doc.json", "/docs/nope", "/?x=1", "/otp/secret?algorithm=SHA999", "/otp/secret?algorithm=" + strings.Repeat("A", 3000), "/" + strings.Repeat("a", 4000), "/favicon.ico", "*"}

// drawJSONNumber draws a syntactically valid JSON number from the whole grammar: sign, integer part (0 or digits
// without a leading zero, up to hundreds of digits), optional fraction, optional exponent of any size. A decoder that
// scales a mantissa by its exponent step by step does work proportional to the exponent unless the value cuts it short.
func drawJSONNumber(t *rapid.T) string {
	s := rapid.SampledFrom([]string{"", "", "-"}).Draw(t, "numSign")
	s += rapid.SampledFrom([]string{"0", "0", "1", "5", "42", "18446744073709551615", "18446744073709551616", "123456789012345678901234567890", strings.Repeat("9", 400), "1" + strings.Repeat("0", 1000)}).Draw(t, "numInt")
	s += rapid.SampledFrom([]string{"", "", ".0", ".5", ".000", "." + strings.Repeat("0", 400) + "1", ".999999999999999999999"}).Draw(t, "numFrac")
	s += rapid.SampledFrom([]string{"", "e0", "E0", "e1", "e+19", "e-19", "e20", "e308", "e-400", "e4000", "e2147483647", "e-2147483648", "e4294967296", "e9223372036854775807", "e-9223372036854775807", "e99999999999999999999", "E+000000000000000000001"}).Draw(t, "numExp")
	return s
}

func drawHostile(t *rapid.T) hostileReq {
	h := hostileReq{Method: rapid.SampledFrom([]string{"POST", "POST", "POST", "POST", "GET", "PUT", "DELETE", "HEAD", "PATCH", "OPTIONS",
		// method tokens outside the usual ones: extension methods, the two a proxy would handle, other letter cases, a long token
		"PROPFIND", "BREW", "TRACE", "CONNECT", "PURGE", "M-SEARCH", "get", "Post", "G", "QUERYQUERYQUERYQUERYQUERYQUERYQUERYQUERY"}).Draw(t, "method")}
	eps := []string{"totp-gen", "totp-val", "hotp-gen", "hotp-val", "ocra-gen", "ocra-val", "suite", "url"}
	h.Ep = rapid.SampledFrom(eps).Draw(t, "ep")
	switch rapid.IntRange(0, 9).Draw(t, "pathKind") {
	case 0:
		h.Path = rapid.SampledFrom(hostilePaths).Draw(t, "path")
	case 1:
		h.Path = rapid.SampledFrom(getEndpoints).Draw(t, "getPath")
	case 2:
		h.Path = postEndpoints[rapid.SampledFrom(eps).Draw(t, "otherEp")]
	default:
		h.Path = postEndpoints[h.Ep]
	}
	h.KeepAlive = rapid.Bool().Draw(t, "keepAlive")
	fields := sortedFieldNames(h.Ep)
	h.Field = rapid.SampledFrom(fields).Draw(t, "field")
	h.Mutation = rapid.SampledFrom([]string{"none", "empty", "truncate", "unterminated", "raw", "drop", "type", "type", "type", "type", "contradictory", "big-string", "nested", "extreme", "extreme", "trailing", "badnum", "rawctl"}).Draw(t, "mutation")
	switch h.Mutation {
	case "truncate":
		h.Cut = rapid.IntRange(0, 400).Draw(t, "cut")
	case "raw":
		if rapid.Bool().Draw(t, "rawKind") {
			h.Raw = []byte(rapid.SampledFrom([]string{"{", "}", "[]", "null", "\"x\"", "123", "{\"secret\":}", "{\"secret\":\"a\",}", "{'secret':'a'}", "\xff\xfe", "{\"secret\":\"\\ud800\"}", "{\"a\":1}{\"b\":2}", " ", "{\"secret\" \"a\"}", "<xml/>"}).Draw(t, "rawFixed"))
		} else {
			h.Raw = rapid.SliceOfN(rapid.Byte(), 0, 60).Draw(t, "rawBytes")
		}
	case "badnum":
		var nums []string
		for _, f := range fields {
			if ft := fieldTypes[h.Ep][f]; ft == "u" || ft == "i" {
				nums = append(nums, f)
			}
		}
		if len(nums) == 0 {
			h.Mutation = "none"
			break
		}
		h.Field = rapid.SampledFrom(nums).Draw(t, "badNumField")
		h.Value = rapid.SampledFrom([]string{"01", "00", "-01", "059", "1.", ".5", "+1", "1e", "1e+", "0x10", "1_000", "NaN", "Infinity", "-", "1,5", "1 2", "٣", "1f", "--1", "0b1"}).Draw(t, "badNum")
	case "rawctl":
		strs := []string{}
		for _, f := range fields {
			if fieldTypes[h.Ep][f] == "s" {
				strs = append(strs, f)
			}
		}
		h.Field = rapid.SampledFrom(strs).Draw(t, "rawCtlField")
		h.Value = rapid.SampledFrom([]string{"\n", "\t", "\r", "\x01", "\x00", "\x1f", "\x0c"}).Draw(t, "rawCtl")
	case "trailing":
		h.Value = rapid.SampledFrom([]string{"}", "]", "}}", "}}}} not json <<<", "] x", " x", "{}", "[]", ",", "null", "\"", "\x00", "{\"secret\":\"A\"}", "//c", "\n\n1"}).Draw(t, "trail")
	case "type":
		if rapid.IntRange(0, 3).Draw(t, "valueKind") == 0 {
			h.Value = drawJSONNumber(t)
		} else {
			h.Value = rapid.SampledFrom(jsonValues).Draw(t, "value")
		}
	case "extreme": // a numeric field at an extreme but representable value, on its own endpoint
		h.Mutation = "type"
		h.Ep = rapid.SampledFrom([]string{"totp-val", "totp-val", "hotp-val", "totp-gen", "hotp-gen", "url"}).Draw(t, "numEp")
		h.Path, h.Method = postEndpoints[h.Ep], "POST"
		var nums []string
		for _, f := range sortedFieldNames(h.Ep) {
			if ft := fieldTypes[h.Ep][f]; ft == "u" || ft == "i" {
				nums = append(nums, f)
			}
		}
		h.Field = rapid.SampledFrom(nums).Draw(t, "numField")
		h.Value = rapid.SampledFrom([]string{"2", "5", "6", "10", "11", "1000", "3000000", "4294967295", "4294967296", "9007199254740992", "9223372036854775807", "9223372036854775808", "18446744073709551615", "0", "1"}).Draw(t, "numValue")
	case "contradictory":
		h.Ep = rapid.SampledFrom([]string{"ocra-gen", "ocra-val"}).Draw(t, "ocraEp")
		h.Path = postEndpoints[h.Ep]
		h.Value = rapid.SampledFrom([]string{"  ", "\t", "OCRA-1:HOTP-SHA1-6:QN08", "OCRA-1:HOTP-SHA512-8:QH10", "nonsense", ""}).Draw(t, "rawSuite")
	case "big-string":
		h.Size = rapid.SampledFrom([]int{1000, 8000, 8300, 20000, 65536, 1<<20 - 300, 1<<20 - 40, 1 << 20, 1<<20 + 1, 1<<20 + 5000}).Draw(t, "size")
		strs := []string{}
		for _, f := range fields {
			if fieldTypes[h.Ep][f] == "s" {
				strs = append(strs, f)
			}
		}
		h.Field = rapid.SampledFrom(strs).Draw(t, "bigField")
		// what the string is made of decides which normalisation / scanning code it exercises: letters only, separators
		// (blanks, dashes, padding) between letters or alone, digits, escapes, multi-byte characters
		h.Unit = rapid.SampledFrom([]string{"", "", "A ", " ", "A-", "-", "=", "A=", "0", "7", "\n", "A\t", "\"", "\\", "é", "%20", ":", "a", "OCRA-1:", "Q"}).Draw(t, "bigUnit")
	case "nested":
		h.Size = rapid.SampledFrom([]int{10, 1000, 100000}).Draw(t, "depth")
	}
	return h
}

func sortedFieldNames(ep string) []string {
	var ks []string
	for k := range fieldTypes[ep] {
		ks = append(ks, k)
	}
	sortStrings(ks)
	return ks
}

// drawProbe draws a well-formed request whose answer runRestStep checks against the reference; ep "" = any endpoint.
func drawProbe(t *rapid.T, ep string) restStep {
	if ep == "" {
		ep = rapid.SampledFrom([]string{"hotp-gen", "totp-gen", "ocra-gen", "hotp-val", "totp-val", "totp-val", "secret", "secret", "suites"}).Draw(t, "probeEp")
	}
	p := restStep{Ep: ep, Key: rapid.SliceOfN(rapid.Byte(), 1, 30).Draw(t, "probeKey"), Sp: gen.Spelling{Pad: 1}}
	p.HasCtr, p.Ctr = true, rapid.Uint64Range(20, 1<<40).Draw(t, "probeCtr")
	p.HasTS, p.TS = true, int64(rapid.Uint64Range(1, 1<<40).Draw(t, "probeTS"))
	if (p.Ep == "hotp-val" || p.Ep == "totp-val") && rapid.Bool().Draw(t, "probeWindow") {
		// every admissible window 0..10: the widest ones are the most work a well-formed request can ask for, and
		// they must be answered like any other (a worker pool sized for narrow windows wedges on the 13th counter)
		p.HasSkew, p.Skew = true, uint64(rapid.IntRange(0, 10).Draw(t, "probeSkew"))
	}
	p.RawName = "OCRA-1:HOTP-SHA256-8:QN10"
	p.In.Q = rapid.SliceOfN(rapid.Byte(), 10, 20).Draw(t, "probeQ")
	if p.Ep == "ocra-gen" && rapid.Bool().Draw(t, "probeStructured") {
		// a structured suite, different from probe to probe: the service must not depend on how many
		// distinct configurations it has seen
		p.RawName = ""
		p.Cfg = drawUsableCfg(t)
		p.HashStr = []string{"SHA1", "SHA256", "SHA512"}[p.Cfg.Hash]
		p.In = drawAdmissible(t, p.Cfg)
	}
	if p.Ep == "secret" {
		// GET /otp/secret: must keep answering with a fresh, well-formed secret however many were handed out
		p.HasAlg, p.Alg = rapid.Bool().Draw(t, "probeSecretAlg"), rapid.SampledFrom([]string{"SHA1", "SHA256", "SHA512"}).Draw(t, "probeAlg")
	}
	p.Fresh = rapid.Bool().Draw(t, "probeFresh")
	return p
}

func TestC19_Hostile(t *testing.T) {
	// corner windows, enumerated (the random histories meet a particular pair of counter and window only now and then): validation
	// requests whose window touches the ends of the counter / time range, with a code that matches nothing, each followed by a probe
	i := 0
	probe := hostileReq{Probe: true, ProbeReq: restStep{Ep: "hotp-gen", Key: []byte("12345678901234567890"), Sp: gen.Spelling{Pad: 1}, HasCtr: true, Ctr: 1}}
	corner := func(ep, body string) {
		if i++; ev.Mine(i) {
			c19Main.each(t, c19Case{Reqs: []hostileReq{{Method: "POST", Path: postEndpoints[ep], Ep: ep, Mutation: "raw", Raw: []byte(body)}, probe}})
		}
	}
	for _, ctr := range []string{"18446744073709551615", "18446744073709551614", "18446744073709551605", "18446744073709551604", "9223372036854775808", "9223372036854775807", "4294967296", "0", "1", "10"} {
		for _, skew := range []string{"", `,"skew":0`, `,"skew":1`, `,"skew":10`} {
			for _, code := range []string{"zzzzzz", "000000"} { // a string no counter produces (a loop that wraps never ends), and a digit string
				corner("hotp-val", `{"secret":"GEZDGNBVGY3TQOJQGEZDGNBVGY3TQOJQ","code":"`+code+`","counter":`+ctr+skew+`}`)
			}
		}
	}
	for _, ts := range []string{"0", "1", "29", "299", "2147483648", "9007199254740992", "4611686018427387903", "9223372036854775807"} {
		for _, per := range []string{"", `,"period":1`, `,"period":4294967295`} {
			for _, skew := range []string{"", `,"skew":10`} {
				corner("totp-val", `{"secret":"GEZDGNBVGY3TQOJQGEZDGNBVGY3TQOJQ","code":"zzzzzz","timestamp":`+ts+per+skew+`}`)
			}
		}
	}
	c19Main.rapid(t, ev.Pick(400, 8_000), func(t *rapid.T) c19Case {
		n := rapid.IntRange(2, 16).Draw(t, "n")
		var c c19Case
		gap := rapid.IntRange(3, 5).Draw(t, "gap")
		for i := 0; i < n; i++ {
			if i%gap == gap-1 {
				p := drawProbe(t, "")
				c.Reqs = append(c.Reqs, hostileReq{Probe: true, ProbeReq: p})
				continue
			}
			c.Reqs = append(c.Reqs, drawHostile(t))
		}
		return c
	})
}

// ---------------------------------------------------------------------------
// Big strings, enumerated: every string field of every POST endpoint (and of the OCRA input object) filled with
// a near-limit string made of each unit. What a string is made of decides which scanning / normalising code it
// reaches, so the random histories (one unit per big-string request) are complemented by the complete product.

type c19BigCase struct {
	Ep    string `json:"ep"`
	Field string `json:"field"` // "input.<name>" = a field of the OCRA input object
	Unit  string `json:"unit"`
	Size  int    `json:"size"`
}

var bigUnits = []string{"A", "A ", " A", "-", "A-", "=", "A=", "7", "0", "\n", "\t A", "é", "%", ":", "OCRA-1:", "-Q", "3132", "0x", "\"", "\\"}

func checkC19Big(c c19BigCase) verdict {
	sv := server()
	base := baseBody(c.Ep)
	val := strings.Repeat(c.Unit, c.Size/len(c.Unit)+1)[:c.Size]
	if strings.HasPrefix(c.Field, "input.") {
		in, _ := base["input"].(map[string]any)
		if in == nil {
			in = map[string]any{}
		}
		in[c.Field[len("input."):]] = val
		base["input"] = in
	} else {
		base[c.Field] = val
	}
	body, _ := json.Marshal(base)
	labels := []string{"ep=" + c.Ep, "field=" + c.Field}
	path := postEndpoints[c.Ep]
	t0 := time.Now()
	status, rb0, err := rawHTTP(sv.addr, "POST", path, body, 5*time.Second)
	d := time.Since(t0)
	if err != nil || d > 3*time.Second {
		t1 := time.Now()
		var err2 error
		status, rb0, err2 = rawHTTP(sv.addr, "POST", path, body, 15*time.Second)
		d2 := time.Since(t1)
		if err2 != nil || d2 > 3*time.Second {
			hang("C19", "big-strings", c, recorders["C19/big-strings"], fmt.Sprintf("POST %s with a %d-byte %s made of %q: first attempt %v (%v), alone again %v (%v): the normal cost of a body of this size is a few ms, so the work grows faster than linearly with the string (or the request is never answered)", path, c.Size, c.Field, c.Unit, d.Round(time.Millisecond), err, d2.Round(time.Millisecond), err2))
		}
		labels = append(labels, "slow-once")
	}
	if status < 200 || status > 599 {
		return bad(true, labels, "POST %s with a %d-byte %s: status %d", path, c.Size, c.Field, status)
	}
	labels = append(labels, fmt.Sprintf("status=%dxx", status/100))
	if status < 300 && len(rb0) < 256<<10 && !successPayload(c.Ep, rb0) { // a longer answer (a URL carrying the big string) is cut short by the client
		return bad(true, labels, "POST %s with a %d-byte %s answered %d %s; the status claims success but the answer is not the endpoint's result", path, c.Size, c.Field, status, trunc(string(rb0), 160))
	}
	// the service keeps serving
	if st, rb, perr := rawHTTP(sv.addr, "POST", "/hotp/generate", []byte(`{"secret":"GEZDGNBVGY3TQOJQGEZDGNBVGY3TQOJQ","counter":1,"digits":"6","algorithm":"SHA1"}`), 5*time.Second); perr != nil || st != 200 || !strings.Contains(string(rb), `"287082"`) {
		return bad(true, labels, "probe after the big request: status %d body %s err %v (want 200 with the RFC 4226 value 287082)", st, trunc(string(rb), 200), perr)
	}
	if !sv.alive() {
		return bad(true, labels, "the server process died: %s", tailStr(sv.stderr.String(), 800))
	}
	if sv.stderr.alarm() {
		return bad(true, labels, "the server reports an unrecovered panic, a fatal error or a data race: %s", trunc(sv.stderr.String(), 1500))
	}
	return ok(true, labels...)
}

var c19Big = newPart("C19", "big-strings",
	"complete product: every string field of every POST endpoint and of the OCRA input object x 20 repeated units (letters, blanks / dashes / padding between letters and alone, digits, hex, control characters, multi-byte, quotes, suite-name fragments) at a size just below the 1 MiB body limit (thorough: also 64 KiB and 300 KB); invariant: a complete HTTP response within 3 s (one lone re-measurement; the normal cost is a few ms), the RFC probe afterwards is answered correctly, no unrecovered panic; every case distinct and non-trivial",
	checkC19Big)

func TestC19_BigStrings(t *testing.T) {
	defer c19Big.rec().Flush()
	sizes := []int{1<<20 - 4000}
	units := bigUnits
	if ev.Thorough() {
		sizes = []int{1<<20 - 4000, 300_000, 65_536}
	}
	i := 0
	for _, ep := range []string{"totp-gen", "totp-val", "hotp-gen", "hotp-val", "ocra-gen", "ocra-val", "suite", "url"} {
		var fs []string
		for _, f := range sortedFieldNames(ep) {
			if fieldTypes[ep][f] == "s" {
				fs = append(fs, f)
			}
		}
		if ep == "ocra-gen" || ep == "ocra-val" {
			fs = append(fs, "input.counter_hex", "input.challenge_hex", "input.password_hex", "input.session_info_hex", "input.timestamp_hex")
		}
		for _, f := range fs {
			for _, u := range units {
				for _, sz := range sizes {
					i++
					if !ev.Mine(i) {
						continue
					}
					c19Big.each(t, c19BigCase{Ep: ep, Field: f, Unit: u, Size: sz})
				}
			}
		}
	}
	c19Big.rec().Exhaustive()
}

// ---------------------------------------------------------------------------
// Number forms, enumerated: every numeric field of every POST endpoint x the spellings JSON allows for a number.

type c19NumCase struct {
	Ep    string `json:"ep"`
	Field string `json:"field"`
	Text  string `json:"text"` // raw JSON put in place of the field's value
}

func numberForms() []string {
	var out []string
	for _, m := range []string{"0", "-0", "0.0", "0.000", "1", "5", "1.5", "0.5", "30", "18446744073709551615", "18446744073709551616", "-1", strings.Repeat("9", 400), "1" + strings.Repeat("0", 1000), "0." + strings.Repeat("0", 400) + "1"} {
		for _, e := range []string{"", "e0", "e1", "E+2", "e-1", "e19", "e20", "e-20", "e308", "e-400", "e4000", "e2147483647", "e-2147483648", "e4294967296", "e9223372036854775807", "e-9223372036854775807", "e99999999999999999999"} {
			out = append(out, m+e)
		}
	}
	return out
}

func checkC19Num(c c19NumCase) verdict {
	sv := server()
	base := baseBody(c.Ep)
	m := map[string]json.RawMessage{}
	for k, v := range base {
		b, _ := json.Marshal(v)
		m[k] = b
	}
	m[c.Field] = json.RawMessage(c.Text)
	var sb bytes.Buffer
	sb.WriteByte('{')
	for i, k := range sortedKeys(m) {
		if i > 0 {
			sb.WriteByte(',')
		}
		kb, _ := json.Marshal(k)
		sb.Write(kb)
		sb.WriteByte(':')
		sb.Write(m[k])
	}
	sb.WriteByte('}')
	body := sb.Bytes()
	path := postEndpoints[c.Ep]
	labels := []string{"ep=" + c.Ep, "field=" + c.Field}
	t0 := time.Now()
	status, rb, err := rawHTTP(sv.addr, "POST", path, body, 5*time.Second)
	d := time.Since(t0)
	if err != nil || d > 3*time.Second {
		t1 := time.Now()
		_, _, err2 := rawHTTP(sv.addr, "POST", path, body, 15*time.Second)
		d2 := time.Since(t1)
		if err2 != nil || d2 > 3*time.Second {
			hang("C19", "number-forms", c, recorders["C19/number-forms"], fmt.Sprintf("POST %s with %s=%s: first attempt %v (%v), alone again %v (%v): the normal cost is ~100 us, so the work grows with the number as written (or the request is never answered)", path, c.Field, trunc(c.Text, 60), d.Round(time.Millisecond), err, d2.Round(time.Millisecond), err2))
		}
		labels = append(labels, "slow-once")
	}
	if status < 100 || status > 599 {
		return bad(true, labels, "POST %s with %s=%s: status %d", path, c.Field, trunc(c.Text, 60), status)
	}
	if status < 400 && !successPayload(c.Ep, rb) {
		return bad(true, labels, "POST %s with %s=%s answered %d %s: the status claims success but the answer is not the endpoint's result", path, c.Field, trunc(c.Text, 60), status, trunc(string(rb), 120))
	}
	labels = append(labels, fmt.Sprintf("status=%dxx", status/100))
	if st, pb, perr := rawHTTP(sv.addr, "POST", "/hotp/generate", []byte(`{"secret":"GEZDGNBVGY3TQOJQGEZDGNBVGY3TQOJQ","counter":1,"digits":"6","algorithm":"SHA1"}`), 5*time.Second); perr != nil || st != 200 || !strings.Contains(string(pb), `"287082"`) {
		return bad(true, labels, "probe after the request: status %d body %s err %v (want 200 with the RFC 4226 value 287082)", st, trunc(string(pb), 200), perr)
	}
	if !sv.alive() {
		return bad(true, labels, "the server process died: %s", tailStr(sv.stderr.String(), 800))
	}
	if sv.stderr.alarm() {
		return bad(true, labels, "the server reports an unrecovered panic, a fatal error or a data race: %s", trunc(sv.stderr.String(), 1500))
	}
	return ok(true, labels...)
}

var c19Num = newPart("C19", "number-forms",
	"complete product: every numeric field (counter, timestamp, period, skew) of every POST endpoint x 255 spellings of a JSON number (15 mantissas incl. 0, -0, 0.000, 2^64, 400 nines, 1 followed by 1000 zeros, a 400-zero fraction x 17 exponents from none to e+-2^63 and e99999999999999999999); invariant: a complete HTTP response within 3 s (one lone re-measurement; normal cost ~100 us), a status below 400 only together with the endpoint's actual result, the RFC probe afterwards answered correctly, no unrecovered panic; every case distinct and non-trivial",
	checkC19Num)

func TestC19_NumberForms(t *testing.T) {
	defer c19Num.rec().Flush()
	forms := numberForms()
	i := 0
	for _, ep := range []string{"totp-gen", "totp-val", "hotp-gen", "hotp-val", "url"} {
		for _, f := range sortedFieldNames(ep) {
			if ft := fieldTypes[ep][f]; ft != "u" && ft != "i" {
				continue
			}
			for _, x := range forms {
				i++
				if !ev.Mine(i) {
					continue
				}
				c19Num.each(t, c19NumCase{Ep: ep, Field: f, Text: x})
			}
		}
	}
	c19Num.rec().Exhaustive()
}

// ---------------------------------------------------------------------------
// Many distinct configurations in one process: the service must not depend on how many different structured suites (or
// secrets, or registered names) it has been asked about — a table that fills up, a cache that resets itself badly.

type c19ManyCase struct {
	N int `json:"n"` // the n-th distinct structured suite of the run
}

var c19Many = newPart("C19", "distinct-suites",
	"enumeration: 300 (thorough: 3000) DISTINCT valid structured suites (digits 4..10 x 3 hashes x field subsets x challenge formats x password hashes x time steps) sent one after the other to /ocra/generate of one server process, each with an admissible input and a fresh secret, every 25th followed by /ocra/validate of the returned code and by the RFC probe; invariant: each is answered within 5 s with the RFC 6287 value; every case distinct and non-trivial",
	func(c c19ManyCase) verdict {
		sv := server()
		n := c.N
		cfg := ref.OCRACfg{SessionNN: -1, Digits: 4 + n%7, Hash: (n / 7) % 3, Q: true, QFormat: 1 + (n/21)%6, C: (n/126)%2 == 1, S: (n/252)%2 == 1, T: (n/504)%2 == 1, TimeStep: 1 + n%59}
		if (n/1008)%2 == 1 {
			cfg.P, cfg.PHash = true, 1+(n/2016)%3
		}
		key := []byte(fmt.Sprintf("key-%06d-%06d", n, n*7919))
		in := ref.OCRAIn{Q: []byte(fmt.Sprintf("%010d", n))}
		if cfg.C {
			in.C = make([]byte, 8)
			in.C[7] = byte(n)
		}
		if cfg.S {
			in.S = []byte{byte(n), 1, 2}
		}
		if cfg.T {
			in.T = make([]byte, 8)
			in.T[6] = byte(n >> 3)
		}
		if cfg.P {
			in.P = make([]byte, ref.PLen(cfg.PHash))
		}
		want, rerr := ref.OCRA(key, cfg, in)
		if rerr != nil {
			return bad(true, nil, "HARNESS: reference refused %+v", cfg)
		}
		hx := func(b []byte) string { return fmt.Sprintf("%x", b) }
		body, _ := json.Marshal(map[string]any{"secret": ref.B32(key), "suite": map[string]any{"hash_function": []string{"SHA1", "SHA256", "SHA512"}[cfg.Hash], "code_digits": cfg.Digits,
			"challenge_format": cfg.QFormat, "include_counter": cfg.C, "include_challenge": cfg.Q, "include_password": cfg.P, "include_session": cfg.S, "include_timestamp": cfg.T,
			"password_hash": cfg.PHash, "timestep": cfg.TimeStep},
			"input": map[string]any{"counter_hex": hx(in.C), "challenge_hex": hx(in.Q), "password_hex": hx(in.P), "session_info_hex": hx(in.S), "timestamp_hex": hx(in.T)}})
		st, rb, err := rawHTTP(sv.addr, "POST", "/ocra/generate", body, 5*time.Second)
		if err != nil {
			if _, _, err2 := rawHTTP(sv.addr, "POST", "/ocra/generate", body, 15*time.Second); err2 != nil {
				hang("C19", "distinct-suites", c, recorders["C19/distinct-suites"], fmt.Sprintf("the %d-th distinct structured suite of this process: POST /ocra/generate got no answer within 5 s and again within 15 s: %v", n+1, err2))
			}
			return ok(true, "slow-once")
		}
		if st != 200 || !strings.Contains(string(rb), `"`+want+`"`) {
			return bad(true, nil, "the %d-th distinct structured suite of this process: POST /ocra/generate %s -> %d %s; RFC 6287 value %s", n+1, trunc(string(body), 300), st, trunc(string(rb), 200), want)
		}
		if n%25 == 24 {
			if st, pb, perr := rawHTTP(sv.addr, "POST", "/hotp/generate", []byte(`{"secret":"GEZDGNBVGY3TQOJQGEZDGNBVGY3TQOJQ","counter":1,"digits":"6","algorithm":"SHA1"}`), 5*time.Second); perr != nil || st != 200 || !strings.Contains(string(pb), `"287082"`) {
				return bad(true, nil, "probe after %d distinct suites: status %d body %s err %v", n+1, st, trunc(string(pb), 200), perr)
			}
		}
		return ok(true, fmt.Sprintf("digits=%d", cfg.Digits))
	})

func TestC19_DistinctSuites(t *testing.T) {
	defer c19Many.rec().Flush()
	// not sharded by item: the point is that ONE server process sees them all (every shard runs its own server and its own full list)
	for n := 0; n < ev.Pick(300, 3000); n++ {
		c19Many.each(t, c19ManyCase{N: n + 5000*ev.Get().Shard})
	}
	c19Many.rec().Exhaustive()
}

// ---------------------------------------------------------------------------
// Undecodable hex in a selected OCRA input field, enumerated. A generation request whose selected field is not hex
// text has no result: answering it with a success status and a code (computed over something else, e.g. over no
// data) does not distinguish success from failure. Validation is not judged here beyond "never true": the service
// answers 200 {"valid":false} for every input the library refuses.

type c19HexCase struct {
	Mask  int    `json:"mask"`  // bit 0 C, 1 Q, 2 P, 3 S, 4 T selected by the structured suite
	Field int    `json:"field"` // index of the selected field given junk
	Junk  string `json:"junk"`
	Val   bool   `json:"validate"`
}

var c19HexJunk = []string{"zz", "3132zz", "zz3132", "31g2", "!!", "31%32", "xyzw", "3132333435363738zz", "éé", "g"}

func checkC19Hex(c c19HexCase) verdict {
	sv := server()
	names := []string{"counter_hex", "challenge_hex", "password_hex", "session_info_hex", "timestamp_hex"}
	good := []string{"0000000000000001", "3132333435363738", strings.Repeat("ab", 20), "0102", "0000000000000002"}
	in := map[string]any{}
	for k := range names {
		if c.Mask>>uint(k)&1 == 1 {
			in[names[k]] = good[k]
		}
	}
	in[names[c.Field]] = c.Junk
	body := map[string]any{"secret": "JBSWY3DPEHPK3PXP", "suite": map[string]any{"hash_function": "SHA1", "code_digits": 6, "challenge_format": 1,
		"include_counter": c.Mask&1 != 0, "include_challenge": c.Mask&2 != 0, "include_password": c.Mask&4 != 0, "include_session": c.Mask&8 != 0, "include_timestamp": c.Mask&16 != 0,
		"password_hash": 1, "timestep": 30}, "input": in}
	path, ep := "/ocra/generate", "ocra-gen"
	if c.Val {
		path, ep = "/ocra/validate", "ocra-val"
		body["code"] = "123456"
	}
	b, _ := json.Marshal(body)
	labels := []string{"ep=" + ep, "field=" + names[c.Field]}
	status, rb, err := rawHTTP(sv.addr, "POST", path, b, 5*time.Second)
	if err != nil {
		if status, rb, err = rawHTTP(sv.addr, "POST", path, b, 15*time.Second); err != nil {
			hang("C19", "hex-fields", c, recorders["C19/hex-fields"], fmt.Sprintf("POST %s with %s=%q got no answer within 5 s and again within 15 s: %v", path, names[c.Field], c.Junk, err))
		}
	}
	if status < 100 || status > 599 {
		return bad(true, labels, "POST %s: status %d", path, status)
	}
	labels = append(labels, fmt.Sprintf("status=%dxx", status/100))
	if status < 400 {
		if !c.Val && successPayload(ep, rb) {
			return bad(true, labels, "POST %s with the selected field %s = %q (not hex) answered %d %s: a success status and a code for a request that has no result", path, names[c.Field], c.Junk, status, trunc(string(rb), 100))
		}
		var m map[string]any
		if c.Val && json.Unmarshal(rb, &m) == nil && m["valid"] == true {
			return bad(true, labels, "POST %s with the selected field %s = %q (not hex) answered valid=true", path, names[c.Field], c.Junk)
		}
	}
	if i := int(c.Mask)*50 + c.Field*10; i%8 == 0 { // the service keeps serving (every 8th case)
		if st, pb, perr := rawHTTP(sv.addr, "POST", "/hotp/generate", []byte(`{"secret":"GEZDGNBVGY3TQOJQGEZDGNBVGY3TQOJQ","counter":1,"digits":"6","algorithm":"SHA1"}`), 5*time.Second); perr != nil || st != 200 || !strings.Contains(string(pb), `"287082"`) {
			return bad(true, labels, "probe after POST %s with %s=%q: status %d body %s err %v (want 200 with the RFC 4226 value 287082)", path, names[c.Field], c.Junk, st, trunc(string(pb), 200), perr)
		}
	}
	if !sv.alive() {
		return bad(true, labels, "the server process died: %s", tailStr(sv.stderr.String(), 800))
	}
	if sv.stderr.alarm() {
		return bad(true, labels, "the server reports an unrecovered panic, a fatal error or a data race: %s", trunc(sv.stderr.String(), 1500))
	}
	return ok(true, labels...)
}

var c19Hex = newPart("C19", "hex-fields",
	"complete product: 31 non-empty field selections of a structured suite x each selected OCRA input field x 10 texts that are not hex under any reading (letters g..z, punctuation, multi-byte) with all other selected fields well-formed x {generate, validate}; oracle: generation never answers with a success status and a code, validation never with valid=true, a complete response within the watchdog, the RFC probe afterwards is answered correctly; every case distinct and non-trivial",
	checkC19Hex)

func TestC19_HexFields(t *testing.T) {
	defer c19Hex.rec().Flush()
	i := 0
	for mask := 1; mask < 32; mask++ {
		for f := 0; f < 5; f++ {
			if mask>>uint(f)&1 == 0 {
				continue
			}
			for _, j := range c19HexJunk {
				for _, val := range []bool{false, true} {
					i++
					if !ev.Mine(i) {
						continue
					}
					c19Hex.each(t, c19HexCase{Mask: mask, Field: f, Junk: j, Val: val})
				}
			}
		}
	}
	c19Hex.rec().Exhaustive()
}

// ---------------------------------------------------------------------------
// Parameters the harness's request model does not know. A dictionary is taken from the service's own source (string
// literals handed to query / post argument accessors, JSON field tags): every such name is sent as a query parameter of
// every GET endpoint and as a field of every POST body (top level, inside "input", inside "suite") with growing numbers.
// "Never performs work unbounded in a request parameter": the answer arrives within the watchdog and stays small — the
// service's regular answers are a few hundred bytes (the suite list a few KB); an answer that grows with a number in
// the request is work chosen by the client. Values grow from 2^10 to 2^24 and a name is dropped at its first violation,
// so that a defective tree is not driven into huge allocations.

type c19ParamCase struct {
	Method string `json:"method"`
	Path   string `json:"path"`
	Where  string `json:"where"` // query | top | input | suite
	Name   string `json:"name"`
	Value  uint64 `json:"value"`
	AsText bool   `json:"as_text"`
}

var (
	argLitRe = regexp.MustCompile(`Args\(\)\.\w+\(\s*"([^"\\]+)"`)
	peekRe   = regexp.MustCompile(`\b(?:Peek|PeekBytes|Has|GetUint|GetUintOrZero|GetUfloat|GetUfloatOrZero|GetBool|FormValue|QueryParam|Query)\(\s*"([^"\\]+)"`)
	jsonTag  = regexp.MustCompile("json:\"([^\",]+)")
)

// discoveredNames reads the parameter names out of the REST layer's source files.
func discoveredNames() (query []string, fields []string) {
	repo := os.Getenv("VERIF_REPO")
	if repo == "" {
		repo = "/repo"
	}
	files, _ := filepath.Glob(filepath.Join(repo, "internal", "app", "api", "*.go"))
	q, f := map[string]bool{}, map[string]bool{}
	for _, fn := range files {
		if strings.HasSuffix(fn, "_test.go") {
			continue
		}
		b, err := os.ReadFile(fn)
		if err != nil {
			continue
		}
		for _, m := range argLitRe.FindAllSubmatch(b, -1) {
			q[string(m[1])] = true
		}
		for _, m := range peekRe.FindAllSubmatch(b, -1) {
			q[string(m[1])] = true
		}
		for _, m := range jsonTag.FindAllSubmatch(b, -1) {
			if n := string(m[1]); n != "-" {
				f[n] = true
			}
		}
	}
	for n := range q {
		query = append(query, n)
	}
	for n := range f {
		fields = append(fields, n)
	}
	sort.Strings(query)
	sort.Strings(fields)
	return
}

const c19MaxAnswer = 1 << 20 // bytes; regular answers are three orders of magnitude smaller

func checkC19Param(c c19ParamCase) verdict {
	sv := server()
	labels := []string{"where=" + c.Where, "name=" + c.Name}
	val := fmt.Sprint(c.Value)
	path, method := c.Path, c.Method
	var body []byte
	if c.Where == "query" {
		sep := "?"
		if strings.Contains(path, "?") {
			sep = "&"
		}
		path += sep + url.QueryEscape(c.Name) + "=" + val
	} else {
		var ep string
		for k, p := range postEndpoints {
			if p == c.Path {
				ep = k
			}
		}
		base := baseBody(ep)
		var v any = c.Value
		if c.AsText {
			v = val
		}
		switch c.Where {
		case "top":
			base[c.Name] = v
		default:
			m, _ := base[c.Where].(map[string]any)
			if m == nil {
				m = map[string]any{}
			}
			m[c.Name] = v
			base[c.Where] = m
		}
		body, _ = json.Marshal(base)
	}
	t0 := time.Now()
	status, rb, err := rawHTTP(sv.addr, method, path, body, 5*time.Second)
	d := time.Since(t0)
	if err != nil || d > 3*time.Second {
		t1 := time.Now()
		status, rb, err = rawHTTP(sv.addr, method, path, body, 15*time.Second)
		if d2 := time.Since(t1); err != nil || d2 > 3*time.Second {
			hang("C19", "discovered-parameters", c, recorders["C19/discovered-parameters"], fmt.Sprintf("%s %s with %s %s=%s: first attempt %v (%v), alone again %v (%v): the normal cost is ~100 us", method, trunc(path, 80), c.Where, c.Name, val, d.Round(time.Millisecond), err, d2.Round(time.Millisecond), err))
		}
		labels = append(labels, "slow-once")
	}
	if status < 100 || status > 599 {
		return bad(true, labels, "%s %s: status %d", method, trunc(path, 80), status)
	}
	if len(rb) >= c19MaxAnswer {
		return bad(true, labels, "%s %s with %s parameter %s=%s is answered with %d bytes or more (status %d): the size of the answer, and the work behind it, is chosen by a number in the request", method, trunc(path, 80), c.Where, c.Name, val, len(rb), status)
	}
	if method == "POST" && status >= 200 && status < 300 {
		for ep, p := range postEndpoints {
			if p == c.Path && !successPayload(ep, rb) {
				return bad(true, labels, "POST %s with the extra %s field %s=%s answered %d %s; the status claims success but the answer is not the endpoint's result", c.Path, c.Where, c.Name, val, status, trunc(string(rb), 160))
			}
		}
	}
	if !sv.alive() {
		return bad(true, labels, "the server process died: %s", tailStr(sv.stderr.String(), 800))
	}
	if sv.stderr.alarm() {
		return bad(true, labels, "the server reports an unrecovered panic, a fatal error or a data race: %s", trunc(sv.stderr.String(), 1500))
	}
	return ok(true, labels...)
}

var c19Param = newPart("C19", "discovered-parameters",
	"enumeration: parameter names taken from the REST layer's own source (string literals of query / form accessors, JSON field tags) x {query parameter of every GET endpoint, field of every POST body at top level / inside input / inside suite} x values 2^10, 2^16, 2^20, 2^22, 2^24 as number and as text; invariant: a complete HTTP response within 3 s (one lone re-measurement), an answer below 1 MiB (regular answers are below a few KB), the process alive, every 50th request followed by the RFC probe; every case distinct and non-trivial",
	checkC19Param)

func TestC19_DiscoveredParameters(t *testing.T) {
	defer c19Param.rec().Flush()
	query, fields := discoveredNames()
	c19Param.rec().Set("query_names", strings.Join(query, ","))
	c19Param.rec().Set("field_names", len(fields))
	values := []uint64{1 << 10, 1 << 16, 1 << 20, 1 << 22, 1 << 24}
	i := 0
	run := func(c c19ParamCase) {
		i++
		if !ev.Mine(i) {
			return
		}
		c19Param.each(t, c)
		if i%50 == 0 {
			sv := server()
			if st, pb, perr := rawHTTP(sv.addr, "POST", "/hotp/generate", []byte(`{"secret":"GEZDGNBVGY3TQOJQGEZDGNBVGY3TQOJQ","counter":1,"digits":"6","algorithm":"SHA1"}`), 5*time.Second); perr != nil || st != 200 || !strings.Contains(string(pb), `"287082"`) {
				t.Fatalf("C19/discovered-parameters: probe after %d requests: status %d body %s err %v", i, st, trunc(string(pb), 200), perr)
			}
		}
	}
	// every name is a candidate query parameter: JSON names too (a handler may read the same name from the query)
	names := append(append([]string{}, query...), fields...)
	names = append(names, "size", "length", "len", "count", "n", "limit", "bytes", "repeat", "pad", "width", "iterations", "rounds")
	seen := map[string]bool{}
	for _, n := range names {
		if seen[n] {
			continue
		}
		seen[n] = true
		for _, p := range []string{"/otp/secret", "/otp/secret?algorithm=SHA512", "/ocra/suites", "/"} {
			for _, v := range values {
				run(c19ParamCase{Method: "GET", Path: p, Where: "query", Name: n, Value: v})
			}
		}
	}
	for _, ep := range []string{"totp-gen", "totp-val", "hotp-gen", "hotp-val", "ocra-gen", "ocra-val", "suite", "url"} {
		for n := range seen {
			_ = n
		}
		for _, n := range names {
			for _, where := range []string{"top", "input", "suite"} {
				if (where != "top") && !strings.HasPrefix(ep, "ocra") && ep != "suite" {
					continue
				}
				for _, v := range []uint64{1 << 16, 1 << 22, 1 << 24} {
					run(c19ParamCase{Method: "POST", Path: postEndpoints[ep], Where: where, Name: n, Value: v})
					run(c19ParamCase{Method: "POST", Path: postEndpoints[ep], Where: where, Name: n, Value: v, AsText: true})
				}
			}
		}
	}
	c19Param.rec().Exhaustive()
}

// ---------------------------------------------------------------------------
// Paths near what the router knows. The router's own path literals are the dictionary: each literal, cut short, extended by a
// character or a word, with and without its trailing slash, and glued in front of every endpoint — a versioned prefix
// ("/v1" + route), an alias, a mount point are written as string literals, and the slips are at their edges (a prefix test
// that is not the prefix that is stripped).

type c19PathCase struct {
	Method string `json:"method"`
	Path   string `json:"path"`
	Ep     string `json:"ep"` // endpoint whose well-formed body is sent with a POST ("" = {})
	// the path is a known route with ONE character replaced by another plain character (not its other letter case): an
	// unknown path, which must get a failure status
	MustFail bool `json:"must_fail,omitempty"`
}

var pathLitRe = regexp.MustCompile(`"(/[A-Za-z0-9_/.\-]{0,60})"`)

func discoveredPaths() []string {
	repo := os.Getenv("VERIF_REPO")
	if repo == "" {
		repo = "/repo"
	}
	files, _ := filepath.Glob(filepath.Join(repo, "internal", "app", "api", "*.go"))
	more, _ := filepath.Glob(filepath.Join(repo, "internal", "app", "cmd", "*.go"))
	set := map[string]bool{}
	for _, fn := range append(files, more...) {
		if strings.HasSuffix(fn, "_test.go") {
			continue
		}
		b, err := os.ReadFile(fn)
		if err != nil {
			continue
		}
		for _, m := range pathLitRe.FindAllSubmatch(b, -1) {
			set[string(m[1])] = true
		}
	}
	var out []string
	for k := range set {
		out = append(out, k)
	}
	sort.Strings(out)
	return out
}

func checkC19Path(c c19PathCase) verdict {
	sv := server()
	labels := []string{"method=" + c.Method}
	var body []byte
	if c.Method == "POST" {
		body = []byte("{}")
		if c.Ep != "" {
			body, _ = json.Marshal(baseBody(c.Ep))
		}
	}
	status, rb, err := rawHTTP(sv.addr, c.Method, c.Path, body, 5*time.Second)
	if err != nil {
		status, rb, err = rawHTTP(sv.addr, c.Method, c.Path, body, 15*time.Second)
		if err != nil {
			if !sv.alive() {
				return bad(true, labels, "%s %s got no HTTP response (%v) and the server process died: %s", c.Method, c.Path, err, tailStr(sv.stderr.String(), 800))
			}
			hang("C19", "discovered-paths", c, recorders["C19/discovered-paths"], fmt.Sprintf("%s %s got no complete HTTP response within 5 s and again within 15 s: %v", c.Method, c.Path, err))
		}
		labels = append(labels, "slow-once")
	}
	if status < 100 || status > 599 {
		return bad(true, labels, "%s %s: status %d", c.Method, c.Path, status)
	}
	if len(rb) >= c19MaxAnswer {
		return bad(true, labels, "%s %s is answered with %d bytes", c.Method, c.Path, len(rb))
	}
	if !sv.alive() {
		return bad(true, labels, "after %s %s the server process died: %s", c.Method, c.Path, tailStr(sv.stderr.String(), 800))
	}
	if sv.stderr.alarm() {
		return bad(true, labels, "the server reports an unrecovered panic, a fatal error or a data race: %s", trunc(sv.stderr.String(), 1500))
	}
	labels = append(labels, fmt.Sprintf("status=%dxx", status/100))
	if c.MustFail && status < 400 {
		return bad(true, labels, "%s %s (a known route with one character changed: an unknown path) answered %d %s; want a failure status (>= 400)", c.Method, c.Path, status, trunc(string(rb), 120))
	}
	return ok(true, labels...)
}

var c19Path = newPart("C19", "discovered-paths",
	"enumeration: path literals taken from the REST layer's own source (routes, prefixes, mount points) x {as written, without / with a trailing slash, cut after every character, extended by x / 0 / beta / beta/x / %2F, glued in front of every endpoint with and without the joining slash} x {GET, POST with the endpoint's well-formed body}; invariant: a complete HTTP response (one lone retry with 15 s), a status 100..599, an answer below 1 MiB, the process alive and no unrecovered panic, every 25th request followed by the RFC probe; the status itself is free (a new alias may legitimately exist) — except for known routes with one bit of one character flipped (plain characters only, not the other letter case), which are unknown paths and get a failure status; every case distinct and non-trivial",
	checkC19Path)

func TestC19_DiscoveredPaths(t *testing.T) {
	defer c19Path.rec().Flush()
	lits := discoveredPaths()
	c19Path.rec().Set("path_literals", strings.Join(lits, " "))
	seen := map[string]bool{}
	i := 0
	run := func(path, ep string) {
		if len(path) == 0 || path[0] != '/' || seen[path+"|"+ep] {
			return
		}
		seen[path+"|"+ep] = true
		for _, m := range []string{"GET", "POST"} {
			i++
			if !ev.Mine(i) {
				continue
			}
			c19Path.each(t, c19PathCase{Method: m, Path: path, Ep: ep})
			if i%25 == 0 {
				sv := server()
				if st, pb, perr := rawHTTP(sv.addr, "POST", "/hotp/generate", []byte(`{"secret":"GEZDGNBVGY3TQOJQGEZDGNBVGY3TQOJQ","counter":1,"digits":"6","algorithm":"SHA1"}`), 5*time.Second); perr != nil || st != 200 || !strings.Contains(string(pb), `"287082"`) {
					t.Fatalf("C19/discovered-paths: probe after %d requests: status %d body %s err %v", i, st, trunc(string(pb), 200), perr)
				}
			}
		}
	}
	eps := []string{"totp-gen", "totp-val", "hotp-gen", "hotp-val", "ocra-gen", "ocra-val", "suite", "url"}
	for _, l := range lits {
		bare := strings.TrimRight(l, "/")
		for _, v := range []string{l, bare, bare + "/", bare + "x", bare + "0", bare + "beta", bare + "beta/x", bare + "%2F", bare + "//", bare + "/x", bare + "/."} {
			run(v, "")
		}
		for k := 1; k < len(l); k++ {
			run(l[:k], "")
		}
		known := false
		for _, p := range postEndpoints {
			known = known || p == l
		}
		for _, p := range getEndpoints {
			known = known || p == l
		}
		if known || strings.Count(l, "/") > 2 {
			continue // prefixes are short; routes themselves are not glued in front of each other
		}
		for _, ep := range eps {
			route := postEndpoints[ep]
			for _, v := range []string{bare + route, bare + "/" + route, bare + "x" + route, bare + "0" + route, bare + route + "/", l + strings.TrimPrefix(route, "/")} {
				run(v, ep)
			}
		}
		for _, route := range getEndpoints {
			run(bare+route, "")
			run(bare+"0"+route, "")
		}
	}
	// every known route with one bit of one byte flipped (a lookup that hashes or skips some positions of the path takes a
	// neighbour for the route): where the result is a plain path that is no route and not merely another letter case, it is
	// an unknown path
	routes := map[string]string{}
	for ep, p := range postEndpoints {
		routes[p] = ep
	}
	for _, p := range getEndpoints {
		routes[p] = ""
	}
	var names []string
	for p := range routes {
		names = append(names, p)
	}
	sort.Strings(names)
	for _, route := range names {
		for k := 1; k < len(route); k++ {
			for bit := 0; bit < 7; bit++ {
				b := []byte(route)
				b[k] ^= 1 << bit
				ch := b[k]
				plain := ch >= 'a' && ch <= 'z' || ch >= 'A' && ch <= 'Z' || ch >= '0' && ch <= '9' || ch == '-' || ch == '_' || ch == '~'
				if _, isRoute := routes[string(b)]; isRoute || !plain || strings.EqualFold(string(b), route) {
					continue
				}
				for _, m := range []string{"GET", "POST"} {
					i++
					if ev.Mine(i) {
						c19Path.each(t, c19PathCase{Method: m, Path: string(b), Ep: routes[route], MustFail: true})
					}
				}
			}
		}
	}
	c19Path.rec().Exhaustive()
}

// ---------------------------------------------------------------------------
// Compressed request bodies. The service bounds the work per request by its 1 MiB body limit. If it accepts a
// Content-Encoding at all (a small compressed well-formed body is answered like the plain one), the limit has to hold for
// what the body inflates to: a few KB on the wire that inflate to 8 MiB must be refused like the same 8 MiB sent plain.
// On a tree that does not inflate request bodies every compressed body is undecodable and refused, and the part holds
// trivially (label encoding-not-supported).

type c19ZipCase struct {
	Ep       string `json:"ep"`
	Encoding string `json:"encoding"` // gzip | deflate
	Inflated int    `json:"inflated_bytes"`
	Pad      string `json:"pad"` // what fills the body: blanks before the JSON, or a long string field
}

func deflateBody(enc string, plain []byte) []byte {
	var buf bytes.Buffer
	switch enc {
	case "gzip":
		w := gzip.NewWriter(&buf)
		w.Write(plain)
		w.Close()
	default:
		w := zlib.NewWriter(&buf)
		w.Write(plain)
		w.Close()
	}
	return buf.Bytes()
}

func checkC19Zip(c c19ZipCase) verdict {
	sv := server()
	path := postEndpoints[c.Ep]
	small, _ := json.Marshal(baseBody(c.Ep))
	labels := []string{"ep=" + c.Ep, "encoding=" + c.Encoding}
	hdr := []string{"Content-Encoding: " + c.Encoding}
	// does the service inflate request bodies at all?
	stPlain, _, err := rawHTTP(sv.addr, "POST", path, small, 5*time.Second)
	if err != nil {
		return bad(true, labels, "POST %s (plain well-formed body): %v", path, err)
	}
	stSmall, _, err := rawHTTPWith(sv.addr, "POST", path, hdr, deflateBody(c.Encoding, small), 5*time.Second)
	if err != nil {
		return bad(true, labels, "POST %s with a %s-encoded well-formed body: no complete response: %v", path, c.Encoding, err)
	}
	supported := stPlain < 400 && stSmall == stPlain
	// the big body: well-formed JSON of c.Inflated bytes
	var big []byte
	if c.Pad == "blanks" {
		big = append(bytes.Repeat([]byte(" "), c.Inflated-len(small)), small...)
	} else {
		b := baseBody(c.Ep)
		b["comment"] = strings.Repeat("a", c.Inflated-len(small)-14)
		big, _ = json.Marshal(b)
	}
	wire := deflateBody(c.Encoding, big)
	t0 := time.Now()
	stBig, rb, err := rawHTTPWith(sv.addr, "POST", path, hdr, wire, 10*time.Second)
	d := time.Since(t0)
	if err != nil || d > 5*time.Second {
		return bad(true, labels, "POST %s with %d bytes of %s that inflate to %d bytes: %v after %v", path, len(wire), c.Encoding, len(big), err, d.Round(time.Millisecond))
	}
	if !supported {
		labels = append(labels, "encoding-not-supported")
	} else {
		labels = append(labels, "encoding-supported")
		if stBig < 400 {
			return bad(true, labels, "POST %s: %d bytes on the wire (%s) that inflate to %d bytes — eight times the body limit — are processed and answered %d %s; the same body sent plain is refused: the limit does not bound the work", path, len(wire), c.Encoding, len(big), stBig, trunc(string(rb), 80))
		}
	}
	if st, pb, perr := rawHTTP(sv.addr, "POST", "/hotp/generate", []byte(`{"secret":"GEZDGNBVGY3TQOJQGEZDGNBVGY3TQOJQ","counter":1,"digits":"6","algorithm":"SHA1"}`), 5*time.Second); perr != nil || st != 200 || !strings.Contains(string(pb), `"287082"`) {
		return bad(true, labels, "probe after the compressed request: status %d body %s err %v", st, trunc(string(pb), 200), perr)
	}
	if !sv.alive() {
		return bad(true, labels, "the server process died: %s", tailStr(sv.stderr.String(), 800))
	}
	return ok(true, labels...)
}

var c19Zip = newPart("C19", "compressed-bodies",
	"complete product: 8 POST endpoints x Content-Encoding {gzip, deflate} x a well-formed body of 8 MiB (leading blanks, or one long extra string field) compressed to a few KB; oracle: if the service answers a small compressed well-formed body like the plain one (it inflates request bodies), the 8 MiB body must be refused as it is when sent plain; in any case a complete response within 5 s and a correct RFC probe afterwards; every case distinct and non-trivial",
	checkC19Zip)

func TestC19_CompressedBodies(t *testing.T) {
	defer c19Zip.rec().Flush()
	i := 0
	for _, ep := range []string{"totp-gen", "totp-val", "hotp-gen", "hotp-val", "ocra-gen", "ocra-val", "suite", "url"} {
		for _, enc := range []string{"gzip", "deflate"} {
			for _, pad := range []string{"blanks", "field"} {
				i++
				if ev.Mine(i) {
					c19Zip.each(t, c19ZipCase{Ep: ep, Encoding: enc, Inflated: 8 << 20, Pad: pad})
				}
			}
		}
	}
	c19Zip.rec().Exhaustive()
}

// ---------------------------------------------------------------------------
// Control characters in string fields. A JSON string may carry CR, LF, NUL. Whatever the service does with such a value —
// refuse it, use it — the bytes it sends back are one well-formed HTTP response, and the connection is still in step for the
// next request: a value echoed into the status line or a header (a "friendlier" error) splits the response.
type c19CtlCase struct {
	Ep    string `json:"ep"`
	Field string `json:"field"`
	Value string `json:"value"`
}

var c19Ctl = newPart("C19", "control-characters",
	"complete product: every string field of every POST endpoint (and of the OCRA input object) x string values carrying CR / LF / CRLF header look-alikes / NUL / a 300-character line, in front of, behind and instead of the field's regular value; each request is sent on a connection the harness holds, its answer is read with a strict HTTP parser (status line, header syntax, Content-Length framing), and the RFC probe follows ON THE SAME CONNECTION and must be answered correctly; every case distinct and non-trivial",
	func(c c19CtlCase) verdict {
		sv := server()
		labels := []string{"ep=" + c.Ep}
		base := baseBody(c.Ep)
		if strings.HasPrefix(c.Field, "input.") {
			in, _ := base["input"].(map[string]any)
			if in == nil {
				in = map[string]any{}
			}
			in[c.Field[len("input."):]] = c.Value
			base["input"] = in
		} else {
			base[c.Field] = c.Value
		}
		body, _ := json.Marshal(base)
		conn, err := net.DialTimeout("tcp", sv.addr, 5*time.Second)
		if err != nil {
			return bad(true, labels, "cannot connect: %v (server alive: %v)", err, sv.alive())
		}
		defer conn.Close()
		br := bufio.NewReader(conn)
		send := func(path string, b []byte) (int, []byte, error) {
			conn.SetDeadline(time.Now().Add(15 * time.Second))
			fmt.Fprintf(conn, "POST %s HTTP/1.1\r\nHost: x\r\nContent-Type: application/json\r\nContent-Length: %d\r\n\r\n%s", path, len(b), b)
			resp, err := http.ReadResponse(br, nil)
			if err != nil {
				return 0, nil, err
			}
			defer resp.Body.Close()
			for k, vs := range resp.Header {
				for _, v := range vs {
					if strings.ContainsAny(k+v, "\r\n") {
						return 0, nil, fmt.Errorf("header %q: %q carries a line break", k, v)
					}
				}
			}
			rb, rerr := io.ReadAll(resp.Body)
			return resp.StatusCode, rb, rerr
		}
		st, rb, err := send(postEndpoints[c.Ep], body)
		if err != nil {
			// once more, alone, on a fresh connection with twice the patience: only a second miss counts (machine load)
			conn.Close()
			conn, err = net.DialTimeout("tcp", sv.addr, 10*time.Second)
			if err != nil {
				return bad(true, labels, "cannot connect again: %v (server alive: %v)", err, sv.alive())
			}
			br = bufio.NewReader(conn)
			time.Sleep(200 * time.Millisecond)
			if st, rb, err = send(postEndpoints[c.Ep], body); err != nil {
				return bad(true, labels, "POST %s with %s = %q: the answer is not one well-formed HTTP response (two attempts): %v", postEndpoints[c.Ep], c.Field, c.Value, err)
			}
			labels = append(labels, "slow-once")
		}
		if st < 100 || st > 599 {
			return bad(true, labels, "POST %s with %s = %q: status %d", postEndpoints[c.Ep], c.Field, c.Value, st)
		}
		if st >= 200 && st < 300 && !successPayload(c.Ep, rb) {
			return bad(true, labels, "POST %s with %s = %q answered %d %s; the status claims success but the answer is not the endpoint's result", postEndpoints[c.Ep], c.Field, c.Value, st, trunc(string(rb), 160))
		}
		pst, pb, perr := send("/hotp/generate", []byte(`{"secret":"GEZDGNBVGY3TQOJQGEZDGNBVGY3TQOJQ","counter":1,"digits":"6","algorithm":"SHA1"}`))
		if perr != nil || pst != 200 || !strings.Contains(string(pb), `"287082"`) {
			return bad(true, labels, "after POST %s with %s = %q (answered %d), the next request on the same connection is answered with status %d %s (%v); want 200 with the RFC 4226 value 287082 — what came back for the first request was more, or less, than one response", postEndpoints[c.Ep], c.Field, c.Value, st, pst, trunc(string(pb), 160), perr)
		}
		if !sv.alive() || sv.stderr.alarm() {
			return bad(true, labels, "the server died or reports a panic: %s", tailStr(sv.stderr.String(), 600))
		}
		return ok(true, append(labels, fmt.Sprintf("status=%dxx", st/100))...)
	})

func TestC19_ControlCharacters(t *testing.T) {
	defer c19Ctl.rec().Flush()
	inject := []string{"\r\nContent-Length: 0\r\n\r\n", "\r\nX-Injected: 1", "\n", "\r", "\nb", "\x00", "\r\n\r\nHTTP/1.1 200 OK\r\nContent-Length: 2\r\n\r\n{}", strings.Repeat("a", 300) + "\r\n"}
	i := 0
	for _, ep := range []string{"totp-gen", "totp-val", "hotp-gen", "hotp-val", "ocra-gen", "ocra-val", "suite", "url"} {
		var fields []string
		for f, ft := range fieldTypes[ep] {
			if ft == "s" {
				fields = append(fields, f)
			}
		}
		if ep == "ocra-gen" || ep == "ocra-val" {
			fields = append(fields, "input.challenge_hex", "input.session_info_hex")
		}
		sort.Strings(fields)
		for _, f := range fields {
			regular, _ := baseBody(ep)[f].(string)
			for _, inj := range inject {
				for _, v := range []string{inj, regular + inj, inj + regular} {
					i++
					if ev.Mine(i) {
						c19Ctl.each(t, c19CtlCase{Ep: ep, Field: f, Value: v})
					}
				}
			}
		}
	}
	c19Ctl.rec().Exhaustive()
}

// ---------------------------------------------------------------------------
// Bursts of failing requests. "Continues to answer subsequent well-formed requests correctly" is a statement about what
// came before a request: the random histories interleave probes every 3rd..5th request, so a service that counts
// consecutive failures (and starts refusing after the 5th, for everybody or for one route) never shows there. Here N
// failing requests go to ONE route without anything in between, then a well-formed request to that route and one to any
// route follow at once and must get the reference answer.

type c19BurstCase struct {
	Ep     string   `json:"ep"`     // the POST route the burst goes to
	Bodies []string `json:"bodies"` // the failing bodies, in order
	Fresh  bool     `json:"fresh"`  // probes on fresh connections
	Same   restStep `json:"probe_same_route"`
	Other  restStep `json:"probe_other"`
}

func checkC19Burst(c c19BurstCase) verdict {
	sv := server()
	path := postEndpoints[c.Ep]
	labels := []string{"ep=" + c.Ep, fmt.Sprintf("burst>=%d", len(c.Bodies)/5*5)}
	statuses := map[int]int{}
	for i, b := range c.Bodies {
		st, _, err := rawHTTP(sv.addr, "POST", path, []byte(b), 5*time.Second)
		if err != nil {
			if st, _, err = rawHTTP(sv.addr, "POST", path, []byte(b), 15*time.Second); err != nil {
				hang("C19", "failure-bursts", c, recorders["C19/failure-bursts"], fmt.Sprintf("request %d of the burst: POST %s %s got no complete answer within 5 s and again within 15 s: %v", i, path, trunc(b, 120), err))
			}
		}
		statuses[st/100]++
	}
	for k, n := range statuses {
		labels = append(labels, fmt.Sprintf("burst-status=%dxx", k))
		_ = n
	}
	for k, p := range []restStep{c.Same, c.Other} {
		if _, _, err := runRestStep(sv, p); err != nil {
			return bad(true, labels, "after %d consecutive failing requests to %s (answered %v by status class), the well-formed request to %s (%s) failed: %v", len(c.Bodies), path, statuses, p.Ep, []string{"the same route", "another route"}[k], err)
		}
	}
	if !sv.alive() {
		return bad(true, labels, "the server process died: %s", tailStr(sv.stderr.String(), 800))
	}
	if sv.stderr.alarm() {
		return bad(true, labels, "the server reports an unrecovered panic, a fatal error or a data race: %s", trunc(sv.stderr.String(), 1500))
	}
	return ok(len(c.Bodies) >= 5, labels...)
}

var c19Burst = newPart("C19", "failure-bursts",
	"rapid: 3..40 consecutive failing requests to ONE POST route of the real server (undecodable secrets of every invalid class, broken / empty / wrongly typed JSON, missing fields, inadmissible OCRA inputs, unknown suites - whatever status the service gives them), nothing in between, then at once a well-formed request to the same route and one to a drawn route (also GET /otp/secret, /ocra/suites), both checked against the reference by the C18 step runner; invariant: every request of the burst gets a complete response within the watchdog and both well-formed requests get the reference answer (a refusal that depends on what failed before is a violation), process alive, no unrecovered panic; non-trivial = burst of at least 5",
	checkC19Burst)

func TestC19_FailureBursts(t *testing.T) {
	failing := map[string][]string{}
	junkSecrets := []string{"!!!", "MZXW6YQ!", "M", "MZX", "MZXW6Y", "MZ=XW6YQ", "", "12345678", "MZXW6YQ1"}
	for ep := range postEndpoints {
		for _, js := range junkSecrets {
			sec, _ := json.Marshal(js)
			switch ep {
			case "ocra-gen", "ocra-val":
				failing[ep] = append(failing[ep], `{"secret":`+string(sec)+`,"raw_suite":"OCRA-1:HOTP-SHA1-6:QN08","code":"123456","input":{"challenge_hex":"3132333435363738"}}`)
			case "url":
				failing[ep] = append(failing[ep], `{"secret":`+string(sec)+`,"type":"nope","issuer":"","account_name":""}`)
			default:
				failing[ep] = append(failing[ep], `{"secret":`+string(sec)+`,"counter":1,"timestamp":59,"code":"123456"}`)
			}
		}
		failing[ep] = append(failing[ep], ``, `{`, `{"secret":`, `[]`, `{"secret":5}`, `{}`, `null`, `{"secret":"GEZDGNBVGY3TQOJQ","counter":"x","timestamp":"x","suite":7,"input":7,"type":7}`)
		if strings.HasPrefix(ep, "ocra") {
			failing[ep] = append(failing[ep],
				`{"secret":"GEZDGNBVGY3TQOJQ","raw_suite":"OCRA-1:HOTP-SHA1-6:QN08","code":"123456","input":{}}`,
				`{"secret":"GEZDGNBVGY3TQOJQ","raw_suite":"OCRA-1:HOTP-SHA1-6:QN08","code":"123456","input":{"challenge_hex":"zz"}}`,
				`{"secret":"GEZDGNBVGY3TQOJQ","raw_suite":"OCRA-9:NOPE","code":"123456","input":{"challenge_hex":"3132333435363738"}}`,
				`{"secret":"GEZDGNBVGY3TQOJQ","raw_suite":"OCRA-1:HOTP-SHA1-6:C-QN08","code":"123456","input":{"challenge_hex":"3132333435363738","counter_hex":"01"}}`)
		}
	}
	var eps []string
	for ep := range postEndpoints {
		eps = append(eps, ep)
	}
	sortStrings(eps)
	c19Burst.rapid(t, ev.Pick(60, 1_200), func(t *rapid.T) c19BurstCase {
		c := c19BurstCase{Ep: rapid.SampledFrom(eps).Draw(t, "ep"), Fresh: rapid.Bool().Draw(t, "fresh")}
		n := rapid.SampledFrom([]int{3, 5, 6, 8, 10, 12, 20, 40}).Draw(t, "n")
		one := rapid.Bool().Draw(t, "oneKind") // the same failing request N times, or a mix
		first := rapid.SampledFrom(failing[c.Ep]).Draw(t, "body")
		for i := 0; i < n; i++ {
			if one {
				c.Bodies = append(c.Bodies, first)
			} else {
				c.Bodies = append(c.Bodies, rapid.SampledFrom(failing[c.Ep]).Draw(t, "body"))
			}
		}
		c.Same = drawProbe(t, c.Ep)
		if c.Ep == "url" {
			c.Same.Type, c.Same.Issuer, c.Same.Account = rapid.SampledFrom([]string{"totp", "hotp"}).Draw(t, "type"), "Example", "alice@example.com"
		}
		c.Other = drawProbe(t, "")
		c.Same.Fresh, c.Other.Fresh = c.Fresh, c.Fresh
		return c
	})
}

// ---------------------------------------------------------------------------
// Path shapes, enumerated: "all methods and paths". A path is bytes on the wire, characters after decoding, and text in
// a log line; code that measures it one way and cuts it the other (length in bytes, slice in runes; escaped length,
// unescaped index) fails only where the two differ by enough — a long run of multi-byte or escaped characters. The
// random histories carry a handful of fixed hostile paths; here unit x count is swept.

type c19PathShapeCase struct {
	Prefix string `json:"prefix"`
	Unit   string `json:"unit"`
	Count  int    `json:"count"`
	Post   bool   `json:"post"`
}

func checkC19PathShape(c c19PathShapeCase) verdict {
	sv := server()
	path := c.Prefix + strings.Repeat(c.Unit, c.Count)
	method, body := "GET", []byte(nil)
	if c.Post {
		method, body = "POST", []byte(`{"secret":"GEZDGNBVGY3TQOJQGEZDGNBVGY3TQOJQ","counter":1}`)
	}
	labels := []string{"unit=" + fmt.Sprintf("%q", c.Unit), "method=" + method}
	st, rb, err := rawHTTP(sv.addr, method, path, body, 5*time.Second)
	if err != nil {
		if st, rb, err = rawHTTP(sv.addr, method, path, body, 15*time.Second); err != nil {
			if !sv.alive() {
				return bad(true, labels, "%s %s%q x %d (%d bytes): no complete response (%v) and the server process died: %s", method, c.Prefix, c.Unit, c.Count, len(path), err, tailStr(sv.stderr.String(), 600))
			}
			return bad(true, labels, "%s %s%q x %d (%d bytes): no complete HTTP response within 5 s and again within 15 s: %v", method, c.Prefix, c.Unit, c.Count, len(path), err)
		}
	}
	if st < 100 || st > 599 {
		return bad(true, labels, "%s %s%q x %d: status %d", method, c.Prefix, c.Unit, c.Count, st)
	}
	if len(rb) > 1<<20 {
		return bad(true, labels, "%s %s%q x %d: an answer of %d bytes", method, c.Prefix, c.Unit, c.Count, len(rb))
	}
	labels = append(labels, fmt.Sprintf("status=%dxx", st/100))
	if !sv.alive() {
		return bad(true, labels, "after %s %s%q x %d the server process died: %s", method, c.Prefix, c.Unit, c.Count, tailStr(sv.stderr.String(), 800))
	}
	if sv.stderr.alarm() {
		return bad(true, labels, "the server reports an unrecovered panic, a fatal error or a data race: %s", trunc(sv.stderr.String(), 1500))
	}
	return ok(true, labels...)
}

var c19PathShape = newPart("C19", "path-shapes",
	"complete product: prefixes {/, /totp/generate/, /docs/} x 14 units (ASCII letter, 2- / 3- / 4-byte characters raw and percent-encoded, an encoded ASCII letter, an encoded slash, NUL and blank encoded, a dot segment, a plus, a combining mark) x 34 counts around 16 / 32 / 64 / 100 / 128 / 256 / 512 / 1024 / 2048 (byte length and character count on different sides of each) x {GET, POST}; invariant: a complete HTTP response (one lone retry with 15 s), status 100..599, an answer below 1 MiB, the process alive and no unrecovered panic, every 100th request followed by the RFC probe; every case distinct and non-trivial",
	checkC19PathShape)

func TestC19_PathShapes(t *testing.T) {
	defer c19PathShape.rec().Flush()
	sv := server()
	units := []string{"a", "é", "%C3%A9", "€", "%E2%82%AC", "\U0001F600", "%F0%9F%98%80", "%41", "%2F", "%00", "%20", "./", "+", "é"}
	counts := []int{1, 2, 3, 5, 8, 15, 16, 17, 21, 22, 31, 32, 33, 40, 42, 43, 63, 64, 65, 85, 86, 100, 127, 128, 129, 170, 255, 256, 257, 500, 512, 1023, 1024, 2048}
	i := 0
	for _, prefix := range []string{"/", "/totp/generate/", "/docs/"} {
		for _, u := range units {
			for _, n := range counts {
				for _, post := range []bool{false, true} {
					i++
					if !ev.Mine(i) {
						continue
					}
					c19PathShape.each(t, c19PathShapeCase{Prefix: prefix, Unit: u, Count: n, Post: post})
					if i%100 < ev.Get().NShards {
						if st, pb, perr := rawHTTP(sv.addr, "POST", "/hotp/generate", []byte(`{"secret":"GEZDGNBVGY3TQOJQGEZDGNBVGY3TQOJQ","counter":1,"digits":"6","algorithm":"SHA1"}`), 5*time.Second); perr != nil || st != 200 || !strings.Contains(string(pb), `"287082"`) {
							c19PathShape.rec().Flush()
							t.Fatalf("C19/path-shapes: probe after %d requests: status %d body %s err %v", i, st, trunc(string(pb), 200), perr)
						}
					}
				}
			}
		}
	}
	c19PathShape.rec().Exhaustive()
}

// ---------------------------------------------------------------------------
// Stalled requests. "Whatever a client sends" includes a request that stops in the middle: the header block never
// finished, a body shorter than its Content-Length, a chunked body without its last chunk. The client then waits. The
// service ends such an exchange in bounded time — with a response, or by closing the connection — because it reads
// with a time limit (5 s on the pinned tree). A service without one keeps the connection and its worker for ever.

type c19StallCase struct {
	Shape string `json:"shape"` // headers | body | chunked | request-line
	Ep    string `json:"ep"`
}

// stalled sends the beginning of a request and reports how long the server took to end the exchange (response or close).
func stalled(addr string, head string, limit time.Duration) (ended bool, took time.Duration, got string) {
	c, err := net.DialTimeout("tcp", addr, 5*time.Second)
	if err != nil {
		return true, 0, "dial: " + err.Error()
	}
	defer c.Close()
	t0 := time.Now()
	c.SetDeadline(t0.Add(limit))
	if _, err := c.Write([]byte(head)); err != nil {
		return true, time.Since(t0), "write: " + err.Error()
	}
	buf := make([]byte, 4096)
	var all []byte
	for {
		n, rerr := c.Read(buf)
		all = append(all, buf[:n]...)
		if rerr != nil {
			if ne, isNet := rerr.(net.Error); isNet && ne.Timeout() {
				return false, time.Since(t0), trunc(string(all), 80)
			}
			return true, time.Since(t0), trunc(string(all), 80) // EOF or reset: the server ended the exchange
		}
	}
}

func checkC19Stall(c c19StallCase) verdict {
	sv := server()
	path := postEndpoints[c.Ep]
	body := `{"secret":"GEZDGNBVGY3TQOJQGEZDGNBVGY3TQOJQ","counter":1,"timestamp":59,"code":"123456"}`
	var head string
	switch c.Shape {
	case "request-line":
		head = "POST " + path + " HTT"
	case "headers":
		head = "POST " + path + " HTTP/1.1\r\nHost: x\r\nContent-Type: application/json\r\nContent-Le"
	case "body":
		head = fmt.Sprintf("POST %s HTTP/1.1\r\nHost: x\r\nContent-Type: application/json\r\nContent-Length: %d\r\n\r\n%s", path, len(body)+77, body[:43])
	case "chunked":
		head = fmt.Sprintf("POST %s HTTP/1.1\r\nHost: x\r\nContent-Type: application/json\r\nTransfer-Encoding: chunked\r\n\r\n%x\r\n%s\r\n", path, len(body), body)
	}
	labels := []string{"shape=" + c.Shape, "ep=" + c.Ep}
	ended, took, got := stalled(sv.addr, head, 40*time.Second)
	if !ended {
		// alone once more, with the patience of the most generous read limits in use (two minutes): neither machine load nor a
		// longer limit than the pinned tree's produces a verdict
		if ended2, took2, _ := stalled(sv.addr, head, 130*time.Second); !ended2 {
			return bad(true, labels, "a request to %s that stops in the middle (%s: %q...): the server neither answered nor closed the connection within %v and again within %v (received so far: %q); it reads without a time limit, so every such client holds a connection for ever", path, c.Shape, trunc(head, 90), took.Round(time.Second), took2.Round(time.Second), got)
		}
	}
	labels = append(labels, fmt.Sprintf("ended-after<=%ds", int(took/time.Second)+1))
	if st, pb, perr := rawHTTP(sv.addr, "POST", "/hotp/generate", []byte(`{"secret":"GEZDGNBVGY3TQOJQGEZDGNBVGY3TQOJQ","counter":1,"digits":"6","algorithm":"SHA1"}`), 5*time.Second); perr != nil || st != 200 || !strings.Contains(string(pb), `"287082"`) {
		return bad(true, labels, "probe after the stalled request: status %d body %s err %v", st, trunc(string(pb), 200), perr)
	}
	if !sv.alive() {
		return bad(true, labels, "the server process died: %s", tailStr(sv.stderr.String(), 800))
	}
	return ok(true, labels...)
}

var c19Stall = newPart("C19", "stalled-requests",
	"complete product: 4 ways a request stops in the middle (inside the request line, inside the header block, a body shorter than its Content-Length, a chunked body without its last chunk) x 2 POST endpoints, all sent at once, the client then waits; invariant: the server ends each exchange - a response or a closed connection - within 40 s (the pinned tree: its 5 s read limit; one lone retry with 130 s, above the most generous read limits in use), and the RFC probe afterwards is answered correctly; every case distinct and non-trivial",
	checkC19Stall)

func TestC19_StalledRequests(t *testing.T) {
	defer c19Stall.rec().Flush()
	server()
	var cases []c19StallCase
	i := 0
	for _, shape := range []string{"request-line", "headers", "body", "chunked"} {
		for _, ep := range []string{"hotp-gen", "totp-val"} {
			if i++; ev.Mine(i) {
				cases = append(cases, c19StallCase{Shape: shape, Ep: ep})
			}
		}
	}
	// all of this shard's cases wait at the same time (each waits for the server's read limit); verdicts are recorded in order
	vs := make([]verdict, len(cases))
	var wg sync.WaitGroup
	for k := range cases {
		wg.Add(1)
		go func(k int) {
			defer wg.Done()
			vs[k] = checkC19Stall(cases[k])
		}(k)
	}
	wg.Wait()
	for k, c := range cases {
		c19Stall.rec().Case(c, vs[k].NT, vs[k].Labels...)
		if vs[k].Err != nil {
			p := ev.WriteReplay("C19", "stalled-requests", c, vs[k].Err)
			c19Stall.rec().Flush()
			t.Fatalf("C19/stalled-requests violated: %v [replay %s]", vs[k].Err, p)
		}
	}
	c19Stall.rec().Exhaustive()
}
