// Package gen holds the rapid generators shared by the property checks.
// Every random choice is a rapid draw, so cases shrink and replay.
package gen

import (
	"encoding/base32"
	"strings"

	"pgregory.net/rapid"

	"verifh/ref"
)

// KeyLens are the boundary key lengths (HMAC block sizes 64 and 128 ± 1, hash sizes, empty).
var KeyLens = []int{0, 1, 10, 19, 20, 21, 32, 63, 64, 65, 127, 128, 129, 200}

// Key draws raw key bytes: boundary lengths or 0..256 random, arbitrary byte values.
func Key() *rapid.Generator[[]byte] {
	return rapid.Custom(func(t *rapid.T) []byte {
		var n int
		switch k := rapid.IntRange(0, 29).Draw(t, "keyLenKind"); {
		case k == 0: // far longer than any block size
			n = rapid.SampledFrom([]int{257, 512, 1000, 1024, 4096}).Draw(t, "keyLenBig")
		case k < 10:
			n = rapid.IntRange(0, 256).Draw(t, "keyLen")
		default:
			n = rapid.SampledFrom(KeyLens).Draw(t, "keyLenB")
		}
		switch rapid.IntRange(0, 8).Draw(t, "keyFill") {
		case 6, 7, 8: // key BYTES that are themselves the text of an encoding (a secret stored encoded twice, a hex key pasted as
			// raw bytes): base32 text (unpadded, a multiple of 8 characters), hex digits, decimal digits
			m := rapid.SampledFrom([]int{10, 15, 20, 25, 40, 80}).Draw(t, "keyTextOf")
			raw := rapid.SliceOfN(rapid.Byte(), m, m).Draw(t, "keyTextRaw")
			switch rapid.IntRange(0, 4).Draw(t, "keyTextKind") {
			case 4: // a key whose base32 TEXT consists of hex digits only (A-F, 2-7) and has the length of a hex-written
				// digest (40, 64, 128) or key: a reader that "recognises" hex secrets takes it for another key
				l := rapid.SampledFrom([]int{40, 64, 128, 32, 16}).Draw(t, "keyHexLookLen")
				txt := make([]byte, l)
				for i := range txt {
					txt[i] = "ABCDEF234567"[int(raw[i%len(raw)]+byte(i))%12]
				}
				if rapid.IntRange(0, 3).Draw(t, "keyHexLookConst") == 0 {
					for i := range txt {
						txt[i] = "AF27"[int(raw[0])%4]
					}
				}
				k, err := base32.StdEncoding.DecodeString(string(txt))
				if err != nil {
					return raw
				}
				return k
			case 0:
				return []byte(ref.B32(raw))
			case 1:
				return []byte(strings.ToLower(ref.B32(raw)))
			case 2:
				const hx = "0123456789ABCDEF"
				b := make([]byte, 0, 2*m)
				for _, x := range raw {
					b = append(b, hx[x>>4], hx[x&15])
				}
				return b
			default:
				b := make([]byte, m)
				for i, x := range raw {
					b[i] = '0' + x%10
				}
				return b
			}
		case 0:
			b := make([]byte, n)
			return b
		case 1:
			b := make([]byte, n)
			for i := range b {
				b[i] = 0xff
			}
			return b
		default:
			return rapid.SliceOfN(rapid.Byte(), n, n).Draw(t, "key")
		}
	})
}

// Spelling describes one textual rendering of a base32 secret.
type Spelling struct {
	Pad   int    `json:"pad"`   // 0 canonical padding, 1 unpadded, 2 partial padding
	PadN  int    `json:"pad_n"` // for partial: number of '=' kept
	Case  int    `json:"case"`  // 0 upper, 1 lower, 2 mixed
	Mask  uint64 `json:"mask"`  // mixed-case bit mask (cyclic)
	Lead  string `json:"lead"`  // leading white space
	Trail string `json:"trail"` // trailing white space
}

// Canonical reports whether this is the canonical padded upper-case spelling.
func (s Spelling) Canonical() bool {
	return s.Pad == 0 && s.Case == 0 && s.Lead == "" && s.Trail == ""
}

var Ws = []string{"", "", "", " ", "\t", "\n", "  ", " \t\n", "\r\n"}

// DrawSpelling draws a spelling (half of them canonical or unpadded-upper,
// the forms tests already use, the rest free).
func DrawSpelling(t *rapid.T) Spelling {
	switch rapid.IntRange(0, 5).Draw(t, "spKind") {
	case 0:
		return Spelling{}
	case 1:
		return Spelling{Pad: 1}
	}
	return Spelling{
		Pad:   rapid.IntRange(0, 2).Draw(t, "spPad"),
		PadN:  rapid.IntRange(0, 7).Draw(t, "spPadN"),
		Case:  rapid.IntRange(0, 2).Draw(t, "spCase"),
		Mask:  rapid.Uint64().Draw(t, "spMask"),
		Lead:  rapid.SampledFrom(Ws).Draw(t, "spLead"),
		Trail: rapid.SampledFrom(Ws).Draw(t, "spTrail"),
	}
}

// Spell renders key bytes as base32 text in the given spelling.
// Partial padding keeps min(PadN, needed) '=' characters such that the text is
// still a prefix of the canonical padded form (the decoder re-pads to a multiple of 8).
func Spell(key []byte, s Spelling) string {
	body := ref.B32(key)
	need := (8 - len(body)%8) % 8
	switch s.Pad {
	case 0:
		body += strings.Repeat("=", need)
	case 2:
		n := s.PadN
		if n > need {
			n = need
		}
		body += strings.Repeat("=", n)
	}
	b := []byte(body)
	switch s.Case {
	case 1:
		for i, c := range b {
			if c >= 'A' && c <= 'Z' {
				b[i] = c + 32
			}
		}
	case 2:
		for i, c := range b {
			if c >= 'A' && c <= 'Z' && (s.Mask>>(uint(i)%64))&1 == 1 {
				b[i] = c + 32
			}
		}
	}
	return s.Lead + string(b) + s.Trail
}

// CounterBoundaries are the anchor points of the counter generator.
var CounterBoundaries = []uint64{0, 1 << 31, 1 << 32, 1 << 63, 1<<64 - 1}

// Counter draws a 64-bit counter: small, around 2^31 / 2^32 / 2^63, around m*2^(8k) (a byte of the message carries), near the top, or uniform.
func Counter() *rapid.Generator[uint64] {
	return rapid.Custom(func(t *rapid.T) uint64 {
		switch rapid.IntRange(0, 6).Draw(t, "ctrKind") {
		case 6: // a byte of the 8-byte message carries: m * 2^(8k) +- a few
			k := uint(rapid.IntRange(1, 7).Draw(t, "ctrCarryByte")) * 8
			m := rapid.Uint64Range(1, 255).Draw(t, "ctrCarryM")
			return m<<k + uint64(int64(rapid.IntRange(-13, 13).Draw(t, "ctrCarryDelta")))
		case 0:
			return uint64(rapid.IntRange(0, 12).Draw(t, "ctrSmall"))
		case 1, 2:
			b := rapid.SampledFrom([]uint64{1 << 31, 1 << 32, 1 << 63}).Draw(t, "ctrAnchor")
			d := int64(rapid.IntRange(-13, 13).Draw(t, "ctrDelta"))
			return b + uint64(d)
		case 3:
			return 1<<64 - 1 - uint64(rapid.IntRange(0, 30).Draw(t, "ctrTop"))
		default:
			return rapid.Uint64().Draw(t, "ctr")
		}
	})
}

// Digits draws a supported code length 1..10, biased to the ones no test compares.
func Digits() *rapid.Generator[int] {
	return rapid.SampledFrom([]int{1, 2, 3, 4, 5, 6, 7, 8, 9, 10, 10, 9, 7, 1})
}

// MutateCode derives a wrong (or accidentally right) string from a code.
func MutateCode(t *rapid.T, code string) string {
	b := []byte(code)
	switch rapid.IntRange(0, 20).Draw(t, "mutKind") {
	case 20: // same length: several bytes changed so that the changes cancel in a careless accumulator — XOR differences that
		// sum to a multiple of 256 (2 x 0x80, 4 x 0x40, 8 x 0x20, 0xFF + 0x01, 0x7F + 0x81) or that cancel under XOR (the same
		// difference at two positions)
		shapes := [][]byte{{0x80, 0x80}, {0x40, 0x40, 0x40, 0x40}, {0x20, 0x20, 0x20, 0x20, 0x20, 0x20, 0x20, 0x20}, {0xFF, 0x01}, {0x7F, 0x81}, {0x10, 0x10}, {0x01, 0x01}, {0xC0, 0x40}}
		var fit [][]byte
		for _, sh := range shapes {
			if len(sh) <= len(b) {
				fit = append(fit, sh)
			}
		}
		if len(fit) == 0 {
			return code + "0"
		}
		sh := fit[rapid.IntRange(0, len(fit)-1).Draw(t, "mutCancelShape")]
		at := rapid.IntRange(0, len(b)-len(sh)).Draw(t, "mutCancelAt")
		stride := 1
		if len(b) >= 2*len(sh) && rapid.Bool().Draw(t, "mutCancelSpread") {
			stride, at = 2, 0
		}
		for k, d := range sh {
			b[at+k*stride] ^= d
		}
		return string(b)
	case 18: // same length: one or more digits replaced by the letter people mistake them for (O for 0, l for 1, S for 5, B for 8 ...)
		look := map[byte]string{'0': "OoQD", '1': "IlLi|", '2': "Zz", '5': "Ss", '6': "Gb", '8': "B", '9': "gq", '3': "E", '4': "A", '7': "T"}
		n := rapid.IntRange(1, 3).Draw(t, "mutLookN")
		for k := 0; k < n && len(b) > 0; k++ {
			i := rapid.IntRange(0, len(b)-1).Draw(t, "mutLookAt")
			if l, okk := look[b[i]]; okk {
				b[i] = l[rapid.IntRange(0, len(l)-1).Draw(t, "mutLookCh")]
			}
		}
		if string(b) == code {
			return code + "O"
		}
		return string(b)
	case 19: // the code as people type or paste it: grouped by a blank or dash, with a trailing line break, in quotes
		if len(b) >= 2 {
			h := len(b) / 2
			sep := rapid.SampledFrom([]string{" ", "-", "\u00a0", "  ", "."}).Draw(t, "mutGroupSep")
			switch rapid.IntRange(0, 3).Draw(t, "mutGroupK") {
			case 0:
				return code[:h] + sep + code[h:]
			case 1:
				return code + rapid.SampledFrom([]string{"\n", "\r\n", " ", "\t"}).Draw(t, "mutGroupT")
			case 2:
				return "\"" + code + "\""
			default:
				return code[:h] + sep + code[h:] + "\n"
			}
		}
		return code + " "
	case 17: // same BYTE length, but 2..4 bytes are one multi-byte character whose code point ends in the byte it starts at
		// (U+0130 for '0', U+1037 for '7'): a comparison that walks characters instead of bytes, or narrows a rune to a
		// byte, sees the right value there and never looks at the positions the character covers
		l := rapid.IntRange(2, 4).Draw(t, "mutRuneLen")
		if len(b) >= l {
			i := rapid.IntRange(0, len(b)-l).Draw(t, "mutRuneAt")
			base := map[int]rune{2: 0x100, 3: 0x1000, 4: 0x10000}[l]
			r := base + rune(b[i])
			if l == 2 && rapid.Bool().Draw(t, "mutRuneHi") {
				r = 0x700 + rune(b[i])
			}
			return string(b[:i]) + string(r) + string(b[i+l:])
		}
		return code + "\u0130"
	case 16: // the code followed by 256, 512, 768 or 65536 more bytes: a length compared after narrowing to 8 or 16 bits is "right"
		n := rapid.SampledFrom([]int{256, 512, 768, 65536, 256, 512}).Draw(t, "mutLenAlias")
		fill := rapid.SampledFrom([]string{"0", "7", " ", "x", "\x00"}).Draw(t, "mutLenFill")
		if rapid.Bool().Draw(t, "mutLenFront") {
			return strings.Repeat(fill, n) + code
		}
		return code + strings.Repeat(fill, n)
	case 14, 15: // same length, all digits, numerically congruent to the code modulo a power of two (a validator that
		// compares numbers after a narrowing conversion accepts these): v ± 2^k for the k that fit in the width
		v, okNum := uint64(0), len(b) > 0 && len(b) <= 19
		for _, c := range b {
			if c < '0' || c > '9' {
				okNum = false
				break
			}
			v = v*10 + uint64(c-'0')
		}
		if okNum {
			lim := uint64(1)
			for range b {
				lim *= 10
			}
			var cand []uint64
			for _, k := range []uint{8, 16, 24, 31, 32, 33} {
				d := uint64(1) << k
				if v+d < lim {
					cand = append(cand, v+d)
				}
				if v >= d {
					cand = append(cand, v-d)
				}
			}
			if len(cand) > 0 {
				// prefer the wide shifts (the last entries) half of the time
				var w uint64
				if rapid.Bool().Draw(t, "mutAliasWide") {
					w = cand[len(cand)-1-rapid.IntRange(0, min(3, len(cand)-1)).Draw(t, "mutAliasHi")]
				} else {
					w = rapid.SampledFrom(cand).Draw(t, "mutAlias")
				}
				for i := len(b) - 1; i >= 0; i-- {
					b[i] = '0' + byte(w%10)
					w /= 10
				}
			}
		}
		return string(b)
	case 12: // same length, numerically equal under a lenient number parser: sign in place of a leading zero
		if len(b) > 0 {
			b[0] = rapid.SampledFrom([]byte{'+', '-', ' '}).Draw(t, "mutSign")
		}
		return string(b)
	case 13: // same length, numerically equal: leading zeros moved / octal-hex looking prefixes
		if len(b) > 1 {
			switch rapid.IntRange(0, 2).Draw(t, "mutNum") {
			case 0:
				b[0], b[1] = '0', 'x'
			case 1:
				b[len(b)-1] = '.'
			default:
				b[1] = '_'
			}
		}
		return string(b)
	case 0: // single digit edit
		if len(b) > 0 {
			i := rapid.IntRange(0, len(b)-1).Draw(t, "mutPos")
			b[i] = '0' + byte((int(b[i]-'0')+rapid.IntRange(1, 9).Draw(t, "mutAdd"))%10)
		}
		return string(b)
	case 1: // truncation
		if len(b) > 0 {
			return string(b[:rapid.IntRange(0, len(b)-1).Draw(t, "mutCut")])
		}
		return "0"
	case 2: // extension
		return code + rapid.SampledFrom([]string{"0", "1", " ", "\x00", "00"}).Draw(t, "mutExt")
	case 3: // leading extension
		return rapid.SampledFrom([]string{"0", " ", "+", "-"}).Draw(t, "mutPre") + code
	case 4: // white-space replacement of one char
		if len(b) > 0 {
			i := rapid.IntRange(0, len(b)-1).Draw(t, "mutPos")
			b[i] = rapid.SampledFrom([]byte{' ', '\t', 0, 'a', '/', ':', 0xff}).Draw(t, "mutCh")
		}
		return string(b)
	case 5: // full-width digits (3 bytes each)
		var sb strings.Builder
		for _, c := range b {
			sb.WriteRune(rune(0xFF10 + int(c-'0')))
		}
		return sb.String()
	case 6: // Arabic-Indic digits (2 bytes each)
		var sb strings.Builder
		for _, c := range b {
			sb.WriteRune(rune(0x0660 + int(c-'0')))
		}
		return sb.String()
	case 7: // same length, one char replaced by a multi-byte-looking byte
		if len(b) > 0 {
			b[len(b)-1] = 0xb2
		}
		return string(b)
	case 8: // arbitrary digits of the same length
		for i := range b {
			b[i] = '0' + byte(rapid.IntRange(0, 9).Draw(t, "mutD"))
		}
		return string(b)
	case 9:
		return ""
	case 10: // reversed
		for i, j := 0, len(b)-1; i < j; i, j = i+1, j-1 {
			b[i], b[j] = b[j], b[i]
		}
		return string(b)
	default:
		return rapid.StringN(0, 12, 24).Draw(t, "mutAny")
	}
}

// RefusedSkew draws a window / skew above the documented maximum of 10: just above it, and
// values of the form 2^k + j, 2^k - j, 2^64-1-j (j = 0..10) that alias small windows under
// doubling, narrowing or sign conversion.
func RefusedSkew(t *rapid.T) uint64 {
	j := uint64(rapid.IntRange(0, 10).Draw(t, "skewJ"))
	switch rapid.IntRange(0, 5).Draw(t, "skewKind") {
	case 0:
		return 11 + j
	case 1:
		return rapid.SampledFrom([]uint64{100, 255, 256, 1000, 65535, 65536}).Draw(t, "skewMid") + j
	case 2:
		k := rapid.SampledFrom([]uint{8, 16, 31, 32, 33, 62, 63}).Draw(t, "skewPow")
		return uint64(1)<<k + j
	case 3:
		k := rapid.SampledFrom([]uint{31, 32, 63}).Draw(t, "skewPowM")
		return uint64(1)<<k - 1 - j
	case 4:
		return ^uint64(0) - j
	default:
		return rapid.Uint64Range(11, ^uint64(0)).Draw(t, "skewAny")
	}
}
