package verifh

import (
	"fmt"
	"testing"
	"time"
	_ "time/tzdata"
	"unsafe"

	otp "github.com/ja7ad/otp"
	"pgregory.net/rapid"

	"verifh/ev"
	"verifh/gen"
	"verifh/ref"
)

// ---------------------------------------------------------------------------
// C02 — TOTP code = HOTP code at floor(unix/period), consistent defaults.

type c02Case struct {
	Key      []byte       `json:"key"`
	Sp       gen.Spelling `json:"spelling"`
	Unix     int64        `json:"unix"`
	Nsec     int          `json:"nsec"`
	Zone     int          `json:"zone"` // 0 UTC, 1 Local, 2 +14h, 3 -12h, 4 +05:45
	Mono     bool         `json:"mono"` // carry a monotonic clock reading
	Period   uint64       `json:"period"`
	Digits   int          `json:"digits"`
	Algo     int          `json:"algo"`
	NilParam bool         `json:"nil_param"`
	Skew     uint64       `json:"skew,omitempty"` // generation does not use the window: the code must not depend on it
	Via      int          `json:"via,omitempty"`  // explicit parameters routed through an exported default pointer (see viaDefault)
	// an operation of another family run immediately before the call (see disturb; omitted = none)
	Before int `json:"before,omitempty"`
}

// zones 5..7 observe daylight saving time (tz database embedded through time/tzdata): in the hour
// that wall clocks repeat, an instant is not determined by its wall-clock reading.
var zones = []*time.Location{time.UTC, time.Local, time.FixedZone("p14", 14*3600), time.FixedZone("m12", -12*3600), time.FixedZone("npt", 5*3600+45*60),
	mustZone("America/New_York"), mustZone("Europe/London"), mustZone("Australia/Lord_Howe")}

func mustZone(name string) *time.Location {
	l, err := time.LoadLocation(name)
	if err != nil {
		panic("HARNESS: tz database: " + err.Error())
	}
	return l
}

// instant builds the time.Time of a case. A monotonic reading is attached by
// deriving the value from time.Now(); it is kept only if it denotes exactly the
// wanted wall instant, so the verdict stays a pure function of the case.
func instant(unix int64, nsec int, zone int, mono bool) (time.Time, bool) {
	target := time.Unix(unix, int64(nsec))
	hasMono := false
	if mono {
		now := time.Now()
		d := target.Sub(now)
		if d > -280*365*24*time.Hour && d < 280*365*24*time.Hour {
			m := now.Add(d)
			if m.Unix() == unix && m.Nanosecond() == nsec {
				target = m
				hasMono = true
			}
		}
	}
	if hasMono {
		// Time.In would strip the monotonic reading: carry it, with the zone set through the forged representation
		if ft, okk := forgeMono(unix, nsec, monoOf(target), zones[zone%len(zones)]); okk {
			return ft, true
		}
		return target, true // Local zone, reading kept
	}
	return target.In(zones[zone%len(zones)]), false
}

// monoOf reads the monotonic clock reading of a time.Time (0 if it has none).
func monoOf(t time.Time) int64 {
	r := (*timeRepr)(unsafe.Pointer(&t))
	if r.wall>>63 == 0 {
		return 0
	}
	return r.ext
}

func checkC02(c c02Case) verdict {
	secret := gen.Spell(c.Key, c.Sp)
	digits, algo, period := c.Digits, c.Algo, c.Period
	var param *otp.Param
	if c.NilParam {
		digits, algo, period = 6, 0, 30
	} else {
		param = &otp.Param{Digits: otp.Digits(c.Digits), Algorithm: otp.Algorithm(c.Algo), Period: uint(c.Period), Skew: uint(c.Skew)}
	}
	eff := period
	if eff == 0 {
		eff = 30
	}
	n := uint64(c.Unix) / eff
	t, hasMono := instant(c.Unix, c.Nsec, c.Zone, c.Mono)
	labels := []string{fmt.Sprintf("zone=%d", c.Zone)}
	if hasMono {
		labels = append(labels, "mono")
	}
	if c.Nsec != 0 {
		labels = append(labels, "nsec")
	}
	switch {
	case c.NilParam:
		labels = append(labels, "nilparam")
	case c.Period == 0:
		labels = append(labels, "period=0")
	case c.Period == 30:
		labels = append(labels, "period=30")
	case c.Period > uint64(c.Unix):
		labels = append(labels, "period>t")
	default:
		labels = append(labels, "period=other")
	}
	rem := uint64(c.Unix) % eff
	nearBoundary := rem <= 2 || eff-rem <= 2
	if nearBoundary {
		labels = append(labels, "boundary+-2")
	}
	nt := nearBoundary || period != 30 || c.Nsec != 0 || c.Zone != 0 || hasMono || period > uint64(c.Unix)
	supported := digits >= 1 && digits <= 10 && algo >= 0 && algo <= 2
	param, restore := viaDefault(c.Via, param)
	defer restore()
	if c.Via != 0 && !c.NilParam {
		labels = append(labels, "via-exported-default")
	}
	disturb(c.Before, secret)
	got, err := otp.GenerateTOTP(secret, t, param)
	if !supported {
		labels = append(labels, "unsupported")
		if err == nil || got != "" {
			return bad(true, labels, "unsupported digits=%d algo=%d answered with %q, %v", digits, algo, got, err)
		}
		return ok(true, labels...)
	}
	want := ref.MustHOTP(c.Key, n, digits, algo)
	if err != nil || got != want {
		return bad(nt, labels, "GenerateTOTP(unix=%d nsec=%d zone=%d mono=%v period=%d digits=%d algo=%d nil=%v) = %q, %v; HOTP at step %d is %q",
			c.Unix, c.Nsec, c.Zone, hasMono, period, digits, algo, c.NilParam, got, err, n, want)
	}
	// constant inside the step, changes exactly at the boundaries (against the reference)
	type probe struct {
		unix int64
		step uint64
	}
	probes := []probe{{int64(n * eff), n}, {int64(n*eff + eff - 1), n}}
	if n > 0 {
		probes = append(probes, probe{int64(n*eff) - 1, n - 1})
	}
	if n*eff+eff < 1<<62 {
		probes = append(probes, probe{int64(n*eff + eff), n + 1})
	}
	for _, p := range probes {
		g, e := otp.GenerateTOTP(secret, time.Unix(p.unix, int64(c.Nsec)).In(zones[c.Zone%len(zones)]), param)
		w := ref.MustHOTP(c.Key, p.step, digits, algo)
		if e != nil || g != w {
			return bad(nt, labels, "GenerateTOTP at unix=%d (period %d, step %d) = %q, %v; want %q", p.unix, eff, p.step, g, e, w)
		}
	}
	// generation and validation resolve parameters identically
	if e := retainCheck(got, "TOTP code"); e != nil {
		return bad(true, labels, "%v", e)
	}
	okk, verr := otp.ValidateTOTP(secret, got, t, param)
	if !okk || verr != nil {
		return bad(nt, labels, "ValidateTOTP rejects the code GenerateTOTP returned for the same instant and parameters (period=%d nil=%v): %v, %v", period, c.NilParam, okk, verr)
	}
	// absent parameters MEAN 6 digits, SHA-1, 30 s in validation as in generation: the step's code under another code length
	// or hash is a wrong code (a validator that reads the code length off the submitted string, or the hash off the key
	// size, resolves absent parameters differently from generation)
	if c.NilParam {
		for _, alt := range [][2]int{{8, 0}, {7, 0}, {10, 0}, {6, 1}, {6, 2}, {8, 1}} {
			code := ref.MustHOTP(c.Key, n, alt[0], alt[1])
			if code == got {
				continue
			}
			if okk, verr := otp.ValidateTOTP(secret, code, t, nil); okk || verr == nil {
				return bad(true, labels, "ValidateTOTP with nil parameters answers (%v, %v) for the step's code under %d digits / hash %d (%q); absent parameters mean 6 digits, SHA-1 (%q)", okk, verr, alt[0], alt[1], code, got)
			}
		}
	}
	// ... also for the window: with explicit parameters and an admissible window s the codes of the steps n-s..n+s
	// (and no other step's code) validate, where the step length is the resolved period — a zero period shifts the
	// window by 30 s per step exactly as an explicit 30 does
	// (instants whose whole window lies at or after step 0: C04's domain)
	if !c.NilParam && c.Skew >= 1 && c.Skew <= 10 && n >= c.Skew {
		inWin := map[string]bool{}
		for j := -int64(c.Skew); j <= int64(c.Skew); j++ {
			if m := int64(n) + j; m >= 0 {
				inWin[ref.MustHOTP(c.Key, uint64(m), digits, algo)] = true
			}
		}
		labels = append(labels, "window-neighbours")
		for _, d := range []int64{-1, 1, -int64(c.Skew), int64(c.Skew), -int64(c.Skew) - 1, int64(c.Skew) + 1} {
			m := int64(n) + d
			if m < 0 || uint64(m) > (uint64(1)<<62)/eff {
				continue
			}
			code := ref.MustHOTP(c.Key, uint64(m), digits, algo)
			okk, verr := otp.ValidateTOTP(secret, code, t, param)
			if okk != inWin[code] || (okk && verr != nil) || (!okk && verr == nil) {
				return bad(true, labels, "ValidateTOTP(code of step n%+d, period=%d [resolved %d], skew=%d) = %v, %v; the window n-%d..n+%d contains it: %v", d, period, eff, c.Skew, okk, verr, c.Skew, c.Skew, inWin[code])
			}
		}
	}
	return ok(nt, labels...)
}

var c02Main = newPart("C02", "main",
	"rapid: unix seconds in [0,2^62) centred on step boundaries (n*p + {-2..2}), small, ~now, huge x nanoseconds x 8 locations (UTC, Local, fixed offsets, three DST-observing zones incl. instants within an hour of a clock change) x monotonic reading x period {0,1,2,29,30,31,59,60,3600,2^31,2^32-1,2^32,uniform} x secrets/digits/hashes of C01 x nil/explicit param; oracle: reference HOTP at floor(unix/p') for the instant, the first and last second of its step and the neighbouring seconds of both adjacent steps; ValidateTOTP must accept the generated code with the same parameters and, under an explicit window s, exactly the codes of steps n-s..n+s of the resolved period (probes at distance 1, s, s+1 both ways); non-trivial = within 2 s of a boundary or period != 30 or nsec != 0 or zone != UTC or monotonic or period > t",
	checkC02)

var c02Periods = []uint64{0, 0, 1, 2, 29, 30, 30, 31, 59, 60, 3600, 86400, 1 << 31, 1<<32 - 1, 1 << 32}

func genC02(t *rapid.T) c02Case {
	c := genC02Base(t)
	c.Before = drawDisturb(t) // drawn last: the cases of a seed are otherwise what they were
	return c
}

func genC02Base(t *rapid.T) c02Case {
	c := c02Case{Key: gen.Key().Draw(t, "key"), Sp: gen.DrawSpelling(t)}
	if rapid.IntRange(0, 4).Draw(t, "periodKind") == 0 {
		c.Period = rapid.Uint64Range(1, 1<<32).Draw(t, "periodU")
	} else {
		c.Period = rapid.SampledFrom(c02Periods).Draw(t, "period")
	}
	switch rapid.IntRange(0, 11).Draw(t, "paramKind") {
	case 0, 1:
		c.NilParam = true
	case 2:
		c.Digits = rapid.SampledFrom([]int{0, 11, 255}).Draw(t, "badDigits")
		c.Algo = rapid.IntRange(0, 2).Draw(t, "algo")
	case 3:
		c.Digits = gen.Digits().Draw(t, "digits")
		c.Algo = rapid.SampledFrom([]int{3, 255}).Draw(t, "badAlgo")
	default:
		c.Digits = gen.Digits().Draw(t, "digits")
		c.Algo = rapid.IntRange(0, 2).Draw(t, "algo")
	}
	eff := c.Period
	if eff == 0 || c.NilParam {
		eff = 30
	}
	var unix uint64
	switch rapid.IntRange(0, 5).Draw(t, "timeKind") {
	case 0:
		unix = uint64(rapid.IntRange(0, 100).Draw(t, "tSmall"))
	case 1:
		unix = rapid.Uint64Range(1_600_000_000, 2_000_000_000).Draw(t, "tNow")
	case 2:
		unix = rapid.Uint64Range(0, 1<<62-1).Draw(t, "tAny")
	default: // boundary-centred
		maxN := (uint64(1)<<62 - 3) / eff
		var n uint64
		if rapid.Bool().Draw(t, "nSmall") {
			n = rapid.Uint64Range(0, minU(maxN, 1<<33)).Draw(t, "n")
		} else {
			n = rapid.Uint64Range(0, maxN).Draw(t, "nBig")
		}
		d := int64(rapid.IntRange(-2, 2).Draw(t, "delta"))
		u := int64(n*eff) + d
		if u < 0 {
			u = 0
		}
		unix = uint64(u)
	}
	if unix >= 1<<62 {
		unix = 1<<62 - 1
	}
	c.Unix = int64(unix)
	if rapid.Bool().Draw(t, "hasNsec") {
		c.Nsec = rapid.SampledFrom([]int{1, 499_999_999, 500_000_000, 999_999_999}).Draw(t, "nsec")
	}
	c.Zone = rapid.IntRange(0, len(zones)-1).Draw(t, "zone")
	c.Mono = rapid.Bool().Draw(t, "mono")
	if !c.NilParam && rapid.IntRange(0, 7).Draw(t, "viaQ") == 0 {
		c.Via = rapid.IntRange(1, 6).Draw(t, "via")
	}
	if !c.NilParam && rapid.IntRange(0, 2).Draw(t, "skewQ") == 0 {
		c.Skew = uint64(rapid.IntRange(1, 10).Draw(t, "skew")) // an admissible window: generation must not look at it
	}
	if c.Zone >= 5 && rapid.Bool().Draw(t, "nearTransition") {
		// an instant within about an hour of the zone's next clock change (covers the repeated and the skipped hour)
		base := time.Unix(int64(rapid.Uint64Range(1_000_000_000, 4_000_000_000).Draw(t, "dstBase")), 0).In(zones[c.Zone])
		if _, end := base.ZoneBounds(); !end.IsZero() {
			c.Unix = end.Unix() + int64(rapid.IntRange(-3700, 3700).Draw(t, "dstDelta"))
		}
	}
	return c
}

func minU(a, b uint64) uint64 {
	if a < b {
		return a
	}
	return b
}

func TestC02_Main(t *testing.T) {
	c02Main.rapid(t, ev.Pick(40_000, 600_000), genC02)
}

// Provisioning URL default: period 0 means 30 there as well.
type c02URLCase struct {
	Period uint64 `json:"period"`
}

var c02URL = newPart("C02", "url-default",
	"GenerateTOTPURL(period) must advertise period'=30 for period 0 and the period itself otherwise (same defaulting as generation/validation); periods 0..2^32 boundaries and uniform; non-trivial = every case",
	func(c c02URLCase) verdict {
		u, err := otp.GenerateTOTPURL(otp.URLParam{Issuer: "I", AccountName: "a", Secret: "MFRGG", Period: uint(c.Period)})
		if err != nil {
			return bad(true, nil, "GenerateTOTPURL failed: %v", err)
		}
		want := c.Period
		if want == 0 {
			want = 30
		}
		if g := u.Query().Get("period"); g != fmt.Sprint(want) {
			return bad(true, nil, "GenerateTOTPURL(period=%d) says period=%s, want %d", c.Period, g, want)
		}
		return ok(true, fmt.Sprintf("zero=%v", c.Period == 0))
	})

func TestC02_URLDefault(t *testing.T) {
	c02URL.rapid(t, ev.Pick(2_000, 50_000), func(t *rapid.T) c02URLCase {
		if rapid.Bool().Draw(t, "b") {
			return c02URLCase{Period: rapid.SampledFrom(c02Periods).Draw(t, "p")}
		}
		return c02URLCase{Period: rapid.Uint64Range(0, 1<<32).Draw(t, "pu")}
	})
}

// The default time-counter function itself (exported variable): floor(unix/period), period 0 = 30.
type c02TCFCase struct {
	Unix   int64  `json:"unix"`
	Nsec   int    `json:"nsec"`
	Period uint64 `json:"period"`
}

var c02TCF = newPart("C02", "time-counter",
	"rapid: the default TimeCounterFunc value called directly with instants 0..2^62 (boundary-centred) x nanoseconds x periods 0..2^32; oracle: floor(unix/period), period 0 meaning 30; non-trivial = period != 30 or nanoseconds != 0 or instant within 2 s of a boundary",
	func(c c02TCFCase) verdict {
		eff := c.Period
		if eff == 0 {
			eff = 30
		}
		got := otp.TimeCounterFunc(time.Unix(c.Unix, int64(c.Nsec)), uint(c.Period))
		if want := uint64(c.Unix) / eff; got != want {
			return bad(true, nil, "TimeCounterFunc(unix=%d.%09d, period=%d) = %d, want %d", c.Unix, c.Nsec, c.Period, got, want)
		}
		rem := uint64(c.Unix) % eff
		return ok(c.Period != 30 || c.Nsec != 0 || rem <= 2 || eff-rem <= 2, fmt.Sprintf("zero-period=%v", c.Period == 0))
	})

func TestC02_TimeCounter(t *testing.T) {
	c02TCF.rapid(t, ev.Pick(20_000, 400_000), func(t *rapid.T) c02TCFCase {
		g := genC02(t)
		return c02TCFCase{Unix: g.Unix, Nsec: g.Nsec, Period: g.Period}
	})
}
