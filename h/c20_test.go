package verifh

import (
	"bufio"
	"bytes"
	"encoding/json"
	"fmt"
	"io"
	"net/url"
	"os"
	"os/exec"
	"strings"
	"sync"
	"testing"
	"time"

	otp "github.com/ja7ad/otp"
	"pgregory.net/rapid"

	"verifh/ev"
	"verifh/gen"
	"verifh/ref"
)

// ---------------------------------------------------------------------------
// C20 — the WebAssembly/JavaScript binding gives the same answers as the native library.
// System under test: wasm built by the driver from $VERIF_REPO/wasm, loaded through
// copies of otp-js/src/index.js + wasm_exec.js under Node (directory VERIF_JS_DIR).

type nodeProc struct {
	mu  sync.Mutex
	cmd *exec.Cmd
	in  io.WriteCloser
	out *bufio.Reader
}

var (
	nodeOnce sync.Once
	node     *nodeProc
	nodeErr  error
)

func startNode() (*nodeProc, error) {
	dir := os.Getenv("VERIF_JS_DIR")
	if dir == "" {
		return nil, fmt.Errorf("VERIF_JS_DIR not set")
	}
	n := &nodeProc{cmd: exec.Command("node", "driver.js")}
	n.cmd.Dir = dir
	n.cmd.Stderr = io.Discard
	var err error
	if n.in, err = n.cmd.StdinPipe(); err != nil {
		return nil, err
	}
	so, err := n.cmd.StdoutPipe()
	if err != nil {
		return nil, err
	}
	n.out = bufio.NewReaderSize(so, 1<<20)
	if err := n.cmd.Start(); err != nil {
		return nil, err
	}
	line, err := n.readLine(30 * time.Second)
	if err != nil || !strings.Contains(line, `"ready":true`) {
		return nil, fmt.Errorf("node driver did not become ready: %q %v", line, err)
	}
	return n, nil
}

func (n *nodeProc) readLine(timeout time.Duration) (string, error) {
	type res struct {
		s   string
		err error
	}
	ch := make(chan res, 1)
	go func() {
		s, err := n.out.ReadString('\n')
		ch <- res{s, err}
	}()
	select {
	case r := <-ch:
		return r.s, r.err
	case <-time.After(timeout):
		return "", fmt.Errorf("timeout")
	}
}

func jsNode() *nodeProc {
	nodeOnce.Do(func() { node, nodeErr = startNode() })
	if nodeErr != nil {
		fmt.Println("INFRA: cannot start node with the wasm module:", nodeErr)
		os.Exit(3)
	}
	return node
}

type jsResult struct {
	Type  string `json:"type"`
	Value any    `json:"value"`
}

func (r jsResult) String() string { return fmt.Sprintf("%s:%v", r.Type, r.Value) }

type jsWireCall struct {
	Via  string `json:"via"`
	Fn   string `json:"fn"`
	Args []any  `json:"args"`
}

func (n *nodeProc) call(calls []jsWireCall) ([]jsResult, error) {
	n.mu.Lock()
	defer n.mu.Unlock()
	b, _ := json.Marshal(map[string]any{"calls": calls})
	if _, err := n.in.Write(append(b, '\n')); err != nil {
		return nil, err
	}
	line, err := n.readLine(60 * time.Second)
	if err != nil {
		return nil, fmt.Errorf("node driver: %v", err)
	}
	var resp struct {
		Results []jsResult `json:"results"`
		Fatal   string     `json:"fatal"`
	}
	if err := json.Unmarshal([]byte(line), &resp); err != nil || resp.Fatal != "" {
		return nil, fmt.Errorf("node driver answered %q (%v)", line, err)
	}
	return resp.Results, nil
}

func (n *nodeProc) names() (map[string]map[string]any, error) {
	n.mu.Lock()
	defer n.mu.Unlock()
	if _, err := n.in.Write([]byte("{\"cmd\":\"names\"}\n")); err != nil {
		return nil, err
	}
	line, err := n.readLine(30 * time.Second)
	if err != nil {
		return nil, err
	}
	var resp struct {
		Names map[string]map[string]any `json:"names"`
	}
	err = json.Unmarshal([]byte(line), &resp)
	return resp.Names, err
}

// ---------------------------------------------------------------------------

type c20Call struct {
	Fn      string       `json:"fn"`
	Key     []byte       `json:"key"`
	Sp      gen.Spelling `json:"spelling"`
	N       uint64       `json:"n"`    // counter or unix seconds, 0..2^53
	Frac    float64      `json:"frac"` // fractional part added to numeric arguments (truncated, not rejected)
	Dig     string       `json:"dig"`
	Alg     string       `json:"alg"`
	Period  int          `json:"period"`
	Skew    int          `json:"skew"`
	Dist    int          `json:"dist"`
	Mut     int          `json:"mut"`
	SibDig  int          `json:"sib_digits,omitempty"`  // != 0: submit the genuine code of the counter under THIS code length instead
	FracP   float64      `json:"frac_period,omitempty"` // fraction added to the period argument alone (Frac is added to all numeric arguments)
	Type    string       `json:"type"`
	Issuer  string       `json:"issuer"`
	Account string       `json:"account"`
	// malformed variant: argument position BadPos replaced by a value of kind BadVal,
	// or the argument list shortened/extended by Arity
	// OddSecret > 0 (well-formed calls only): the secret text is altered in a way that JavaScript's and Go's notions of
	// trimming and case mapping treat differently (see oddSecret); the native library's answer for that very text is the oracle
	OddSecret int    `json:"odd_secret,omitempty"`
	BadPos    int    `json:"bad_pos"` // -1: well-formed
	BadVal    string `json:"bad_val"`
	Arity     int    `json:"arity"`
	// Rep > 0 (malformed calls only): the call is made Rep more times beforehand, nothing in between
	Rep int `json:"rep,omitempty"`
}

type c20Case struct {
	Calls []c20Call `json:"calls"`
}

func num(n uint64, frac float64) any {
	if frac > 0 && n < 1<<40 {
		return float64(n) + frac
	}
	return n
}

// args builds the JavaScript argument list of a well-formed call.
func (c c20Call) args(code string) []any {
	secret := gen.Spell(c.Key, c.Sp)
	switch c.Fn {
	case "generateHOTP":
		return []any{secret, num(c.N, c.Frac), c.Dig, c.Alg}
	case "generateTOTP":
		return []any{secret, num(c.N, c.Frac), c.Dig, c.Alg, num(uint64(c.Period), c.Frac+c.FracP)}
	case "validateHOTP":
		return []any{secret, code, num(c.N, c.Frac), c.Dig, c.Alg, num(uint64(c.Skew), c.Frac)}
	case "validateTOTP":
		return []any{secret, code, num(c.N, c.Frac), c.Dig, c.Alg, num(uint64(c.Skew), c.Frac), num(uint64(c.Period), c.Frac+c.FracP)}
	case "generateOTPURL":
		return []any{c.Type, c.Issuer, c.Account, secret, c.Dig, c.Alg}
	}
	panic("HARNESS: fn " + c.Fn)
}

var stringPos = map[string][]int{"generateHOTP": {0, 2, 3}, "generateTOTP": {0, 2, 3}, "validateHOTP": {0, 1, 3, 4}, "validateTOTP": {0, 1, 3, 4}, "generateOTPURL": {0, 1, 2, 3, 4, 5}}

func isStringPos(fn string, pos int) bool {
	for _, p := range stringPos[fn] {
		if p == pos {
			return true
		}
	}
	return false
}

func badValue(kind string) any {
	switch kind {
	case "undefined", "NaN", "Infinity", "-Infinity", "object", "array", "bigint", "boxedString", "boxedNumber", "symbol", "function", "date":
		return map[string]any{"$": kind}
	case "null":
		return nil
	case "true":
		return true
	case "-1":
		return -1
	case "-0.5":
		return -1.5
	case "1e300":
		return map[string]any{"$": "num", "v": "1e300"}
	case "2^63":
		return map[string]any{"$": "num", "v": "9223372036854775808"}
	case "number":
		return 5
	case "string":
		return "5"
	case "empty":
		return ""
	case "badtype":
		return "xotp"
	case "badsecret":
		return "not base32 !!"
	case "range11":
		return 11
	case "range100":
		return 100
	case "range0":
		return 0
	case "range3601":
		return 3601
	}
	panic("HARNESS: bad value kind " + kind)
}

func checkC20(c c20Case) verdict {
	nd := jsNode()
	labels := []string{}
	nt := false
	for i, call := range c.Calls {
		d, a := digitsFromSpelling(call.Dig), algoFromSpelling(call.Alg)
		secret := gen.Spell(call.Key, call.Sp)
		period := uint64(call.Period)
		centre := call.N
		if call.Fn == "validateTOTP" || call.Fn == "generateTOTP" {
			centre = call.N / period
		}
		code := ""
		if strings.HasPrefix(call.Fn, "validate") {
			code = mutate(ref.MustHOTP(call.Key, centre+uint64(int64(call.Dist)), d, a), call.Mut)
			if call.Mut == 8 {
				code = straddle(ref.MustHOTP(call.Key, centre+uint64(int64(call.Dist)), d, a), ref.MustHOTP(call.Key, centre+uint64(int64(call.Dist))+1, d, a), call.N)
			}
			if call.SibDig != 0 && call.SibDig != d {
				code = ref.MustHOTP(call.Key, centre+uint64(int64(call.Dist)), call.SibDig, a)
			}
		}
		args := call.args(code)
		if call.OddSecret > 0 && call.Fn != "generateOTPURL" {
			secret = oddSecret(secret, call.OddSecret)
			args[0] = secret
			labels = append(labels, "odd-secret")
			nt = true
		}
		labels = append(labels, "fn="+call.Fn)
		malformed := call.BadPos >= 0 || call.Arity != 0
		if malformed {
			if call.Arity < 0 {
				args = args[:len(args)-1]
				labels = append(labels, "too-few-args")
			} else if call.Arity > 0 {
				// one surplus argument too many is a wrong count whatever it is: a string, undefined (once or twice), null
				switch call.Arity {
				case 2:
					args = append(args, badValue("undefined"))
				case 3:
					args = append(args, badValue("undefined"), badValue("undefined"))
				case 4:
					args = append(args, badValue("null"))
				default:
					args = append(args, "extra")
				}
				labels = append(labels, fmt.Sprintf("too-many-args=%d", call.Arity))
			} else {
				args[call.BadPos] = badValue(call.BadVal)
				labels = append(labels, "bad="+call.BadVal)
			}
		}
		probe := jsWireCall{Via: "global", Fn: "generateHOTP", Args: []any{"GEZDGNBVGY3TQOJQGEZDGNBVGY3TQOJQ", i + 1, "8", "SHA256"}}
		batch := []jsWireCall{{Via: "global", Fn: call.Fn, Args: args}, {Via: "pkg", Fn: call.Fn, Args: args}, probe}
		rep := 0
		if malformed && call.Rep > 0 {
			rep = call.Rep
			for k := 0; k < rep; k++ {
				batch = append([]jsWireCall{{Via: "global", Fn: call.Fn, Args: args}}, batch...)
			}
			labels = append(labels, "repeated-malformed-call")
		}
		res, err := nd.call(batch)
		if err != nil || len(res) != 3+rep {
			return bad(true, labels, "call %d %s(%v): the module stopped answering: %v", i, call.Fn, args, err)
		}
		for k := 0; k < rep; k++ {
			if sv, isStr := res[k].Value.(string); res[k].Type != "string" || !isStr || !strings.HasPrefix(sv, "error:") {
				return bad(true, labels, "call %d, repetition %d: malformed %s(%v) returned %v; want a string starting with 'error:'", i, k, call.Fn, args, res[k])
			}
		}
		res = res[rep:]
		bothErrors := func(a, b jsResult) bool { // two refusals agree, whatever their wording
			as, aok := a.Value.(string)
			bs, bok := b.Value.(string)
			return a.Type == "string" && b.Type == "string" && aok && bok && strings.HasPrefix(as, "error:") && strings.HasPrefix(bs, "error:")
		}
		if res[0] != res[1] && !bothErrors(res[0], res[1]) {
			return bad(true, labels, "call %d: globalThis.%s(%v) = %v but the package's export %s gives %v", i, call.Fn, args, res[0], call.Fn, res[1])
		}
		// the module stays usable
		if wantProbe := ref.MustHOTP([]byte("12345678901234567890"), uint64(i+1), 8, 1); res[2].Type != "string" || res[2].Value != wantProbe {
			return bad(true, labels, "after call %d %s(%v) the probe generateHOTP returned %v, want %q", i, call.Fn, args, res[2], wantProbe)
		}
		got := res[0]
		if malformed {
			nt = true
			s, isStr := got.Value.(string)
			if got.Type != "string" || !isStr || !strings.HasPrefix(s, "error:") {
				return bad(true, labels, "call %d: malformed %s(%v) returned %v; want a string starting with 'error:'", i, call.Fn, args, got)
			}
			continue
		}
		if call.Dist != 0 || call.Dig != "6" || call.Mut != 0 || call.Frac > 0 {
			nt = true
		}
		// a digits / algorithm spelling outside the canonical seven: the binding may resolve it like the library's helpers
		// (what the tree does) or refuse it with an 'error:' string; another successful reading is not the native library's
		if s, isStr := got.Value.(string); got.Type == "string" && isStr && strings.HasPrefix(s, "error:") &&
			(!canonicalSpelling(call.Dig, "6", "8", "9", "10") || !canonicalSpelling(call.Alg, "SHA1", "SHA256", "SHA512")) {
			labels = append(labels, "noncanonical-spelling-refused")
			continue
		}
		par := &otp.Param{Digits: otp.Digits(d), Algorithm: otp.Algorithm(a), Period: uint(call.Period), Skew: uint(call.Skew)}
		if call.OddSecret > 0 && call.Fn != "generateOTPURL" {
			// the native library's answer for this very text decides: a refusal must come back as an 'error:' string, a
			// result as the same result (the reference does not model which odd texts the decoder accepts)
			var nres any
			var nerr error
			switch call.Fn {
			case "generateHOTP":
				nres, nerr = otp.GenerateHOTP(secret, call.N, par)
			case "generateTOTP":
				nres, nerr = otp.GenerateTOTP(secret, time.Unix(int64(call.N), 0), par)
			case "validateHOTP":
				nres, nerr = otp.ValidateHOTP(secret, code, call.N, par)
				if nres == false {
					nerr = nil // a refused code is a verdict; a refused secret also reads false: both are false for the caller
				}
			case "validateTOTP":
				nres, nerr = otp.ValidateTOTP(secret, code, time.Unix(int64(call.N), 0), par)
				if nres == false {
					nerr = nil
				}
			}
			s, isStr := got.Value.(string)
			isErr := got.Type == "string" && isStr && strings.HasPrefix(s, "error:")
			switch {
			case nerr != nil && !isErr:
				return bad(true, labels, "call %d: %s with the secret text %q returned %v; the native library refuses this text (%v)", i, call.Fn, secret, got, nerr)
			case nerr == nil && nres == false && (isErr || got.Value == false):
				// false natively: the binding may say false or report the undecodable secret
			case nerr == nil && (isErr || got.Value != nres):
				return bad(true, labels, "call %d: %s with the secret text %q returned %v; the native library returns %v", i, call.Fn, secret, got, nres)
			}
			continue
		}
		switch call.Fn {
		case "generateHOTP", "generateTOTP":
			want := ref.MustHOTP(call.Key, centre, d, a)
			var native string
			if call.Fn == "generateHOTP" {
				native, _ = otp.GenerateHOTP(secret, call.N, par)
			} else {
				native, _ = otp.GenerateTOTP(secret, time.Unix(int64(call.N), 0), par)
			}
			if got.Type != "string" || got.Value != want || native != want {
				return bad(true, labels, "call %d: %s(%v) = %v; native library %q, RFC value %q (digits %d, hash %d)", i, call.Fn, args, got, native, want, d, a)
			}
		case "validateHOTP", "validateTOTP":
			nearZero := call.Fn == "validateTOTP" && centre < uint64(call.Skew)
			want := false
			if !nearZero {
				_, want = windowSet(call.Key, centre, uint64(call.Skew), d, a)[code]
			}
			var native bool
			if call.Fn == "validateHOTP" {
				native, _ = otp.ValidateHOTP(secret, code, call.N, par)
			} else {
				native, _ = otp.ValidateTOTP(secret, code, time.Unix(int64(call.N), 0), par)
			}
			if nearZero {
				// the window reaches below step 0: outside the reference's domain (C04), but the binding
				// must still give the native library's verdict
				labels = append(labels, "window-below-step-0")
				want = native
			}
			if got.Type != "boolean" || got.Value != want || native != want {
				return bad(true, labels, "call %d: %s(%v) = %v; native library %v, reference window membership %v (centre %d, distance %d, skew %d)", i, call.Fn, args, got, native, want, centre, call.Dist, call.Skew)
			}
			labels = append(labels, fmt.Sprintf("valid=%v", want))
		case "generateOTPURL":
			up := otp.URLParam{Issuer: call.Issuer, AccountName: call.Account, Secret: secret, Digits: otp.Digits(d), Algorithm: otp.Algorithm(a)}
			var want string
			if folded := strings.ToLower(strings.TrimSpace(call.Type)); call.Type != folded && (folded == "totp" || folded == "hotp") {
				// another letter case or surrounding blanks of one of the two words: the statement does not say whether that is
				// "out of range" (the pinned binding refuses it, a binding that folds the word is as right): an error: string or
				// the native URL of the word it folds to, nothing else (F30)
				labels = append(labels, "type-word-in-another-case")
				var u *url.URL
				if folded == "totp" {
					u, _ = otp.GenerateTOTPURL(up)
				} else {
					u, _ = otp.GenerateHOTPURL(up)
				}
				if sv, _ := got.Value.(string); got.Type != "string" || (!strings.HasPrefix(sv, "error:") && (u == nil || sv != u.String())) {
					return bad(true, labels, "call %d: generateOTPURL(%v) = %v; want an error: string or the native URL of type %s", i, args, got, folded)
				}
				continue
			}
			if call.Type != "totp" && call.Type != "hotp" {
				// a type word that is neither of the two: an argument out of range, answered with an error: string
				labels = append(labels, "unknown-type-word")
				if sv, _ := got.Value.(string); got.Type != "string" || !strings.HasPrefix(sv, "error:") {
					return bad(true, labels, "call %d: generateOTPURL(%v) = %v; the type %q is neither totp nor hotp: want a string starting with error:", i, args, got, call.Type)
				}
				continue
			}
			if call.Type == "totp" {
				u, _ := otp.GenerateTOTPURL(up)
				want = u.String()
			} else {
				u, _ := otp.GenerateHOTPURL(up)
				want = u.String()
			}
			if got.Type != "string" || got.Value != want {
				return bad(true, labels, "call %d: generateOTPURL(%v) = %v; native library %q", i, args, got, want)
			}
		}
	}
	return ok(nt, labels...)
}

var c20Main = newPart("C20", "calls",
	"rapid: call lists (a pure function of the seed) executed by Node against the wasm module built from the working tree and loaded through otp-js/src/index.js; each call is made via globalThis.<name> AND via the object the package exports, followed by a well-formed probe (a sixth of the lists: one malformed call made 5..14 times in a row before the probe and further well-formed calls); arguments: counters/timestamps 0..2^53 (boundaries 2^31, 2^32, 2^53), fractional numbers (truncated; a quarter of the lists are related calls under one secret and parameter set with fractions on the time and on the period independently), digits '6','8','9','10' and unknown spellings, three hashes and unknown spellings (among them stored spellings whose hash under one of nine cheap 32-bit hash functions equals that of a known word; also as the URL type word, which must be refused), periods 1..3600, skews 0..10, codes at window distance -(s+2)..+(s+2) and edited; malformed: every argument position x {undefined, null, NaN, -1, -1.5, 1e300, 2^63, +-Infinity, true, {}, [], a BigInt, a boxed String / Number object, a Symbol, a function, a Date, wrong-kind string/number, empty string}, too few / too many arguments (the surplus one a string, undefined once or twice, null), skew 11, period 0; plus two grids run through the same check (malformed-grid: every function x argument position x odd value x contexts period {1,7,10,30,3600} x skew {0,1,10}; related-fractions: runs of steps with fractional periods and instants on both sides of every boundary under one secret); oracle: native library AND independent reference for well-formed calls, 'error:' string for malformed ones, probe still correct; non-trivial = distance != 0 or digits != '6' or edited code or fractional number or malformed",
	checkC20)

func drawC20Call(t *rapid.T) c20Call {
	c := c20Call{Fn: rapid.SampledFrom([]string{"generateHOTP", "generateTOTP", "validateHOTP", "validateHOTP", "validateTOTP", "validateTOTP", "generateOTPURL"}).Draw(t, "fn"), BadPos: -1}
	c.Key = rapid.SliceOfN(rapid.Byte(), 1, 40).Draw(t, "key")
	if rapid.IntRange(0, 2).Draw(t, "keyBoundary") == 0 {
		// key lengths around the HMAC block sizes (a separate derivation / key preparation in the binding must agree there too)
		c.Key = rapid.SliceOfN(rapid.Byte(), 1, 1).Draw(t, "keyFill")
		c.Key = bytes.Repeat(c.Key, rapid.SampledFrom([]int{19, 20, 21, 32, 63, 64, 65, 127, 128, 129, 200}).Draw(t, "keyLen"))
	}
	c.Sp = gen.DrawSpelling(t)
	c.Dig = rapid.SampledFrom([]string{"6", "8", "9", "10", "6", "8", "10", "7", "06", "six", "11", " 6"}).Draw(t, "dig")
	if rapid.IntRange(0, 9).Draw(t, "digOddQ") == 0 {
		// unknown spellings that another language's integer parser reads as 8, 9 or 10 (octal, hex, signs, fractions, blanks,
		// full-width): here they are unknown words
		c.Dig = rapid.SampledFrom([]string{"010", "011", "012", "0x8", "0X9", "0xA", "#8", "+8", "8.0", "08", "8 ", "１０", "1e1", "0b1000", "0o10", "8\n", "10\x00"}).Draw(t, "digOdd")
	}
	c.Alg = rapid.SampledFrom([]string{"SHA1", "SHA256", "SHA512", "SHA1", "SHA256", "SHA512", "sha1", "MD5", "SHA-512"}).Draw(t, "alg")
	// unknown spellings that a table of hashed option words would take for known ones (stored preimages under cheap 32-bit
	// hashes): they mean what any unknown spelling means — the native library's helpers decide
	switch rapid.IntRange(0, 11).Draw(t, "preimageQ") {
	case 0:
		c.Dig = rapid.SampledFrom(spellingsLike("8", "9", "10")).Draw(t, "digPre")
	case 1:
		c.Alg = rapid.SampledFrom(spellingsLike("SHA256", "SHA512")).Draw(t, "algPre")
	}
	c.Period = rapid.SampledFrom([]int{1, 29, 30, 30, 60, 3600}).Draw(t, "period")
	if rapid.Bool().Draw(t, "periodAny") {
		c.Period = rapid.IntRange(1, 3600).Draw(t, "periodR")
	}
	c.Skew = rapid.IntRange(0, 10).Draw(t, "skew")
	switch rapid.IntRange(0, 3).Draw(t, "nKind") {
	case 0:
		c.N = uint64(rapid.IntRange(0, 40).Draw(t, "nSmall"))
	case 1:
		b := rapid.SampledFrom([]uint64{1 << 31, 1 << 32, 1 << 53}).Draw(t, "nAnchor")
		c.N = b - uint64(rapid.IntRange(0, 13).Draw(t, "nBelow"))
		if b < 1<<53 {
			c.N = b + uint64(int64(rapid.IntRange(-13, 13).Draw(t, "nDelta")))
		}
	default:
		c.N = rapid.Uint64Range(0, 1<<53).Draw(t, "n")
	}
	if rapid.IntRange(0, 4).Draw(t, "fracK") == 0 {
		c.Frac = rapid.SampledFrom([]float64{0.5, 0.999, 0.25}).Draw(t, "frac")
	}
	if strings.HasPrefix(c.Fn, "validate") {
		c.Dist = rapid.IntRange(-c.Skew-2, c.Skew+2).Draw(t, "dist")
		c.Mut = rapid.SampledFrom([]int{0, 0, 0, 0, 1, 2, 3, 4, 5, 6, 7, 8, 8, 9, 10, 11}).Draw(t, "mut")
		if rapid.IntRange(0, 5).Draw(t, "sibDigQ") == 0 {
			c.SibDig = rapid.SampledFrom([]int{6, 8, 9, 10, 7}).Draw(t, "sibDig")
		}
		if c.Fn == "validateTOTP" {
			if rapid.IntRange(0, 3).Draw(t, "nearZero") == 0 && c.Skew > 0 {
				// instants whose window reaches below step 0 (distances then wrap modulo 2^64)
				c.N = rapid.Uint64Range(0, uint64(c.Period)*uint64(c.Skew)).Draw(t, "tNearZero")
			} else if c.N/uint64(c.Period) < uint64(c.Skew)+3 { // the whole window lies at or after step 0
				c.N += uint64(c.Period) * (uint64(c.Skew) + 3)
			}
			if c.N > 1<<53 {
				c.N = 1 << 52
			}
		} else if c.N > 1<<53-20 {
			c.N = 1<<53 - 20
		}
		if c.Fn == "validateHOTP" && c.Skew > 0 && rapid.IntRange(0, 3).Draw(t, "ctrNearZero") == 0 {
			// counters below the window size: the part of the window below counter 0 does not exist (C03: max(0, c-s)); the
			// submitted code at a negative distance is the code of the WRAPPED counter 2^64-k, which an unsigned walk without the
			// guard would accept
			c.N = uint64(rapid.IntRange(0, c.Skew).Draw(t, "ctrSmall"))
			if rapid.Bool().Draw(t, "ctrBelow") {
				c.Dist = -int(c.N) - rapid.IntRange(1, c.Skew+1).Draw(t, "ctrWrap")
			}
		}
	}
	if c.Fn == "generateOTPURL" {
		c.Type = rapid.SampledFrom([]string{"totp", "hotp"}).Draw(t, "type")
		if rapid.IntRange(0, 7).Draw(t, "typePreQ") == 0 {
			c.Type = rapid.SampledFrom(append(spellingsLike("totp", "hotp"), "TOTP", "steam", "")).Draw(t, "typePre")
		}
		c.Issuer = drawURLString(t, "iss", false)
		c.Account = drawURLString(t, "acc", true)
		// the secret is copied into the URL as given: any spelling (padded, lower case, surrounded by blanks)
	}
	if c.Fn != "generateOTPURL" && rapid.IntRange(0, 7).Draw(t, "oddSecretQ") == 0 {
		c.OddSecret = rapid.IntRange(1, 40).Draw(t, "oddSecret")
		return c
	}
	// malformed variants
	if rapid.IntRange(0, 3).Draw(t, "malformed") == 0 {
		nargs := len(c.args("000000"))
		switch rapid.IntRange(0, 5).Draw(t, "malKind") {
		case 0:
			c.Arity = -1
		case 1:
			c.Arity = rapid.IntRange(1, 4).Draw(t, "arityKind")
		default:
			c.BadPos = rapid.IntRange(0, nargs-1).Draw(t, "badPos")
			if isStringPos(c.Fn, c.BadPos) {
				vals := []string{"undefined", "null", "NaN", "-1", "1e300", "Infinity", "true", "object", "array", "number", "empty", "bigint", "boxedString", "symbol", "function", "date"}
				if c.Fn == "generateOTPURL" && c.BadPos == 0 {
					vals = append(vals, "badtype", "badtype", "badtype")
				}
				if c.Fn != "generateOTPURL" && c.BadPos == 0 {
					vals = append(vals, "badsecret", "badsecret", "badsecret") // an undecodable secret is an error, not a code
				}
				c.BadVal = rapid.SampledFrom(vals).Draw(t, "badStr")
			} else {
				vals := []string{"undefined", "null", "NaN", "-1", "-0.5", "1e300", "2^63", "Infinity", "-Infinity", "true", "object", "array", "string", "bigint", "boxedNumber", "symbol", "function", "date"}
				// out-of-range values of the windowed / periodic parameters
				switch {
				case (c.Fn == "validateHOTP" || c.Fn == "validateTOTP") && c.BadPos == 5:
					vals = append(vals, "range11", "range100", "range11", "range100")
				case c.Fn == "generateTOTP" && c.BadPos == 4:
					vals = append(vals, "range0", "range3601", "range0", "range3601")
				case c.Fn == "validateTOTP" && c.BadPos == 6:
					vals = append(vals, "range0", "range0")
				}
				c.BadVal = rapid.SampledFrom(vals).Draw(t, "badNum")
			}
		}
	}
	return c
}

func TestC20_Calls(t *testing.T) {
	c20Main.rapid(t, ev.Pick(1_500, 30_000), func(t *rapid.T) c20Case {
		n := rapid.IntRange(1, 8).Draw(t, "n")
		var c c20Case
		if rapid.IntRange(0, 3).Draw(t, "related") == 0 {
			// related calls: one secret, one parameter set, nearby instants / counters, fractions on the time and on the period
			// independently (a cache keyed by values derived from the raw JavaScript numbers answers one call with another's result)
			first := drawC20Call(t)
			first.BadPos, first.Arity, first.Mut, first.SibDig, first.Dist = -1, 0, 0, 0, 0
			first.Period = rapid.SampledFrom([]int{30, 30, 31, 60}).Draw(t, "relPeriod")
			for i := 0; i < n+1; i++ {
				x := first
				x.Fn = rapid.SampledFrom([]string{"generateTOTP", "generateTOTP", "validateTOTP", "generateHOTP"}).Draw(t, "relFn")
				x.N = uint64(rapid.IntRange(0, 400).Draw(t, "relN"))
				x.Frac = rapid.SampledFrom([]float64{0, 0, 0.5, 0.999}).Draw(t, "relFrac")
				x.FracP = 0
				if x.Frac < 0.4 {
					x.FracP = rapid.SampledFrom([]float64{0, 0.5, 0.25}).Draw(t, "relFracP")
				}
				if x.Fn == "validateTOTP" {
					x.Skew = 0
					x.N += uint64(x.Period) * 3
				}
				c.Calls = append(c.Calls, x)
			}
			return c
		}
		if rapid.IntRange(0, 5).Draw(t, "repeat") == 0 {
			// the SAME malformed call 5..14 times without anything in between, then the probe and well-formed calls: "leave the module
			// usable" also after a client that retries its mistake (a binding that backs off after repeated errors answers
			// the well-formed calls with the stored error)
			var badCall c20Call
			for k := 0; ; k++ {
				badCall = drawC20Call(t)
				if badCall.BadPos >= 0 || badCall.Arity != 0 {
					break
				}
				if k > 20 {
					badCall.Arity = -1
					break
				}
			}
			badCall.Rep = rapid.IntRange(3, 12).Draw(t, "repeatN") // + the call through the global + the one through the package
			c.Calls = append(c.Calls, badCall)
			for k, m := 0, rapid.IntRange(1, 3).Draw(t, "afterN"); k < m; k++ {
				g := drawC20Call(t)
				g.BadPos, g.Arity = -1, 0
				c.Calls = append(c.Calls, g)
			}
			return c
		}
		for i := 0; i < n; i++ {
			c.Calls = append(c.Calls, drawC20Call(t))
		}
		return c
	})
}

// Export table: every name the package exports is a function identical to the
// registered global of the same name, and the five documented names are present.
type c20NamesCase struct {
	Name string `json:"name"` // exported name to examine ("" = only the five documented names)
}

// fingerprints: one canonical call per documented function with an answer that no other of the five functions gives
// (RFC 4226 / 6238 vectors for the ASCII secret 12345678901234567890).
var c20Finger = map[string]struct {
	args []any
	want func(jsResult) bool
	desc string
}{
	"generateHOTP": {[]any{"GEZDGNBVGY3TQOJQGEZDGNBVGY3TQOJQ", 1, "6", "SHA1"}, func(r jsResult) bool { return r.Type == "string" && r.Value == "287082" }, `"287082" (RFC 4226, counter 1)`},
	"generateTOTP": {[]any{"GEZDGNBVGY3TQOJQGEZDGNBVGY3TQOJQ", 59, "8", "SHA1", 30}, func(r jsResult) bool { return r.Type == "string" && r.Value == "94287082" }, `"94287082" (RFC 6238, t=59)`},
	"validateHOTP": {[]any{"GEZDGNBVGY3TQOJQGEZDGNBVGY3TQOJQ", "287082", 1, "6", "SHA1", 0}, func(r jsResult) bool { return r.Type == "boolean" && r.Value == true }, "true (code of counter 1 at counter 1)"},
	"validateTOTP": {[]any{"GEZDGNBVGY3TQOJQGEZDGNBVGY3TQOJQ", "94287082", 59, "8", "SHA1", 0, 30}, func(r jsResult) bool { return r.Type == "boolean" && r.Value == true }, "true (code of t=59 at t=59)"},
	"generateOTPURL": {[]any{"totp", "Iss", "acc", "GEZDGNBVGY3TQOJQGEZDGNBVGY3TQOJQ", "6", "SHA1"}, func(r jsResult) bool {
		v, _ := r.Value.(string)
		return r.Type == "string" && strings.HasPrefix(v, "otpauth://totp/Iss:acc?")
	}, "an otpauth://totp/Iss:acc?... URL"},
}

var c20FingerOrder = []string{"generateHOTP", "generateTOTP", "validateHOTP", "validateTOTP", "generateOTPURL"}

var c20Names = newPart("C20", "export-table",
	"complete: the five documented names (generateHOTP, generateTOTP, validateHOTP, validateTOTP, generateOTPURL) must be exported by otp-js/src/index.js as functions, and each must answer its own canonical call (an RFC vector) with the answer only that function gives — a crossed or missing table entry fails; every other exported key that has a function of the same name on globalThis must give the same answers as that global on the five canonical argument lists. The export need not be the same function object as the global (a forwarding wrapper is fine); each name is a distinct case",
	func(c c20NamesCase) verdict {
		names, err := jsNode().names()
		if err != nil {
			fmt.Println("INFRA: names:", err)
			os.Exit(3)
		}
		for _, want := range c20FingerOrder {
			if v, okk := names[want]; !okk || v["type"] != "function" {
				return bad(true, nil, "the package does not export %s as a function (%v)", want, v)
			}
		}
		if c.Name == "" {
			return ok(true, "names")
		}
		v, okk := names[c.Name]
		if !okk {
			return ok(false, "name-not-exported")
		}
		if fp, documented := c20Finger[c.Name]; documented {
			res, err := jsNode().call([]jsWireCall{{Via: "pkg", Fn: c.Name, Args: fp.args}, {Via: "global", Fn: c.Name, Args: fp.args}})
			if err != nil {
				fmt.Println("INFRA: node:", err)
				os.Exit(3)
			}
			if !fp.want(res[0]) {
				return bad(true, nil, "package export %s%v returned %v; want %s", c.Name, fp.args, res[0], fp.desc)
			}
			if !fp.want(res[1]) {
				return bad(true, nil, "globalThis.%s%v returned %v; want %s", c.Name, fp.args, res[1], fp.desc)
			}
			return ok(true, "documented-name")
		}
		if v["type"] == "function" && v["globalType"] == "function" {
			// an extra export that shadows a function the wasm module registered: same answers as the global
			var calls []jsWireCall
			for _, n := range c20FingerOrder {
				calls = append(calls, jsWireCall{Via: "pkg", Fn: c.Name, Args: c20Finger[n].args}, jsWireCall{Via: "global", Fn: c.Name, Args: c20Finger[n].args})
			}
			res, err := jsNode().call(calls)
			if err != nil {
				fmt.Println("INFRA: node:", err)
				os.Exit(3)
			}
			for k := 0; k+1 < len(res); k += 2 {
				if res[k].String() != res[k+1].String() {
					return bad(true, nil, "package export %s%v returned %v but globalThis.%s returns %v", c.Name, calls[k].Args, res[k], c.Name, res[k+1])
				}
			}
			return ok(true, "extra-name-with-global-twin")
		}
		return ok(false, "extra-name")
	})

func TestC20_ExportTable(t *testing.T) {
	defer c20Names.rec().Flush()
	names, err := jsNode().names()
	if err != nil {
		fmt.Println("INFRA: names:", err)
		os.Exit(3)
	}
	var ks []string
	for k := range names {
		ks = append(ks, k)
	}
	sortStrings(ks)
	c20Names.each(t, c20NamesCase{})
	for _, k := range ks {
		c20Names.each(t, c20NamesCase{Name: k})
	}
	c20Names.rec().Exhaustive()
}

// oddSecret alters a secret text where JavaScript and Go disagree about trimming or case mapping: String.prototype.trim
// strips U+FEFF and not U+0085, strings.TrimSpace the reverse; toUpperCase maps one character to several (sharp s,
// ligatures) and folds the long s and the dotless i to ASCII letters. A binding that "tidies" the secret in JavaScript
// gives such texts a meaning the library does not.
func oddSecret(secret string, k int) string {
	wraps := []string{"\ufeff", "\u0085", "\u00a0", "\u2028", "\u3000", "\u200b", "\u180e", "\v", "\f", "\x00"}
	folds := [][2]string{{"S", "\u017f"}, {"I", "\u0131"}, {"K", "\u212a"}, {"SS", "\u00df"}, {"ST", "\ufb06"}, {"ST", "\ufb05"}, {"FI", "\ufb01"}, {"FF", "\ufb00"}, {"FL", "\ufb02"}, {"I", "\u0130"},
		{"A", "\uff21"}, {"2", "\uff12"}, {"A", "\u0410"}, {"O", "0"}, {"I", "1"}, {"B", "8"}}
	k--
	if k < 2*len(wraps) {
		w := wraps[k/2]
		if k%2 == 0 {
			return w + secret
		}
		return secret + w
	}
	k -= 2 * len(wraps)
	f := folds[k%len(folds)]
	up := strings.ToUpper(secret)
	if i := strings.Index(up, f[0]); i >= 0 {
		return secret[:i] + f[1] + secret[i+len(f[0]):]
	}
	// the letters to fold do not occur: put the character in place of the first one / two letters
	if len(secret) >= len(f[0]) {
		return f[1] + secret[len(f[0]):]
	}
	return f[1]
}

// ---------------------------------------------------------------------------
// Malformed calls as a grid. The random call lists meet a particular (function, argument position, odd value) together
// with a particular context (a period of 10 or less, the largest admissible skew) only now and then; a binding that
// "repairs" a malformed call under some context (swaps skew and period when one looks out of range, gives an omitted
// argument a default) is caught by the product.
func TestC20_MalformedGrid(t *testing.T) {
	rec := recorders["C20/calls"]
	defer rec.Flush()
	strVals := []string{"undefined", "null", "NaN", "-1", "1e300", "Infinity", "true", "object", "array", "number", "empty", "bigint", "boxedString", "symbol", "function", "date"}
	numVals := []string{"undefined", "null", "NaN", "-1", "-0.5", "1e300", "2^63", "Infinity", "-Infinity", "true", "object", "array", "string", "bigint", "boxedNumber", "symbol", "function", "date"}
	key := []byte("12345678901234567890")
	i := 0
	for _, fn := range []string{"generateHOTP", "generateTOTP", "validateHOTP", "validateTOTP", "generateOTPURL"} {
		for _, period := range []int{1, 7, 10, 30, 3600} {
			for _, skew := range []int{0, 1, 10} {
				if (fn == "generateHOTP" || fn == "generateOTPURL") && (period != 30 || skew != 0) {
					continue
				}
				if fn == "validateHOTP" && period != 30 {
					continue
				}
				if fn == "generateTOTP" && skew != 0 {
					continue
				}
				base := c20Call{Fn: fn, Key: key, Sp: gen.Spelling{Pad: 1}, N: uint64(period) * 1000, Dig: "6", Alg: "SHA1", Period: period, Skew: skew, BadPos: -1, Type: "totp", Issuer: "I", Account: "a"}
				nargs := len(base.args("000000"))
				var cases []c20Call
				for _, ar := range []int{-1, 1, 2, 3, 4} {
					c := base
					c.Arity = ar
					cases = append(cases, c)
				}
				for pos := 0; pos < nargs; pos++ {
					vals := numVals
					if isStringPos(fn, pos) {
						vals = strVals
					} else {
						switch {
						case (fn == "validateHOTP" || fn == "validateTOTP") && pos == 5:
							vals = append(append([]string{}, vals...), "range11", "range100")
						case fn == "generateTOTP" && pos == 4:
							vals = append(append([]string{}, vals...), "range0", "range3601")
						case fn == "validateTOTP" && pos == 6:
							vals = append(append([]string{}, vals...), "range0")
						}
					}
					for _, v := range vals {
						c := base
						c.BadPos, c.BadVal = pos, v
						cases = append(cases, c)
					}
				}
				for _, c := range cases {
					i++
					if !ev.Mine(i) {
						continue
					}
					c20Main.each(t, c20Case{Calls: []c20Call{c}})
				}
			}
		}
	}
}

// ---------------------------------------------------------------------------
// Related calls with fractional periods, as a grid: one secret, generateTOTP / validateTOTP at instants on both sides of
// every step boundary of a run of steps, with a fraction on the period (the binding truncates it: 30.5 means 30) and
// with and without a fraction on the instant. Anything keyed by the numbers as written (a cache on floor(t / 30.5)) puts
// two of these calls into one slot although they lie in different steps.
func TestC20_RelatedFractions(t *testing.T) {
	rec := recorders["C20/calls"]
	defer rec.Flush()
	key := []byte("12345678901234567890")
	i := 0
	for _, p := range []int{30, 60, 7, 1} {
		for _, fp := range []float64{0.5, 0.9} {
			for _, fn := range []string{"generateTOTP", "validateTOTP"} {
				i++
				if !ev.Mine(i) {
					continue
				}
				var calls []c20Call
				for k := 55; k <= 64; k++ {
					for _, d := range []int{0, p - 1} {
						for _, ft := range []float64{0, 0.6} {
							if p == 1 && d != 0 {
								continue
							}
							c := c20Call{Fn: fn, Key: key, Sp: gen.Spelling{Pad: 1}, N: uint64(k*p + d), Dig: "6", Alg: "SHA1", Period: p, Skew: 0, BadPos: -1, Frac: ft, FracP: fp - ft}
							calls = append(calls, c)
						}
					}
				}
				c20Main.each(t, c20Case{Calls: calls})
			}
		}
	}
}
