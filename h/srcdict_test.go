package verifh

import (
	"os"
	"path/filepath"
	"regexp"
	"sort"
	"strings"
	"sync"
)

// A dictionary from the source, as a fuzzer would take one from the binary: the string literals of the library's own
// non-test files and the placeholder-like fragments inside them ({name}, %s, ${x}, <x>, :name). A value that contains the
// very token a template, format string or splitter is written with is the input such code mishandles; independent draws
// never spell a multi-character token.
var (
	litRe   = regexp.MustCompile("\"((?:[^\"\\\\\\n]|\\\\.){1,40})\"|`([^`\\n]{1,40})`")
	fragRes = []*regexp.Regexp{regexp.MustCompile(`\{[^{}]{0,20}\}`), regexp.MustCompile(`%[-+#0-9.]*[a-zA-Z]`), regexp.MustCompile(`\$\{?[A-Za-z_]+\}?`), regexp.MustCompile(`<[^<>]{1,20}>`), regexp.MustCompile(`:[A-Za-z_]+`), regexp.MustCompile(`\[[^\[\]]{1,20}\]`)}
	srcOnce sync.Once
	srcLits []string
	srcFrag []string
)

func loadSourceDictionary() {
	repo := os.Getenv("VERIF_REPO")
	if repo == "" {
		repo = "/repo"
	}
	files, _ := filepath.Glob(filepath.Join(repo, "*.go"))
	lits, frags := map[string]bool{}, map[string]bool{}
	for _, fn := range files {
		if strings.HasSuffix(fn, "_test.go") || strings.HasPrefix(filepath.Base(fn), "verif_hooks") {
			continue
		}
		b, err := os.ReadFile(fn)
		if err != nil {
			continue
		}
		for _, m := range litRe.FindAllSubmatch(b, -1) {
			l := string(m[1])
			if l == "" {
				l = string(m[2])
			}
			l = strings.NewReplacer(`\"`, `"`, `\\`, `\`, `\n`, "\n", `\t`, "\t").Replace(l)
			if len(l) < 2 {
				continue
			}
			lits[l] = true
			for _, re := range fragRes {
				for _, f := range re.FindAllString(l, -1) {
					frags[f] = true
				}
			}
		}
	}
	for l := range lits {
		srcLits = append(srcLits, l)
	}
	for f := range frags {
		srcFrag = append(srcFrag, f)
	}
	sort.Strings(srcLits)
	sort.Strings(srcFrag)
	// tokens of common template / format notations, whether or not the source has them today
	srcFrag = append(srcFrag, "{issuer}", "{account}", "{secret}", "{0}", "{}", "%s", "%d", "%v", "%[1]s", "${issuer}", "$1", "<issuer>", ":issuer", "{{.Issuer}}", "{{.}}", "\\1", "%%")
}

// sourceLiterals returns the string literals (2..40 bytes) of the library's non-test source, sorted.
func sourceLiterals() []string {
	srcOnce.Do(loadSourceDictionary)
	return srcLits
}

// sourceFragments returns placeholder-like fragments of those literals plus a few common template tokens.
func sourceFragments() []string {
	srcOnce.Do(loadSourceDictionary)
	return srcFrag
}
