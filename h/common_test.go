package verifh

import (
	"encoding/json"
	"flag"
	"fmt"
	otp "github.com/ja7ad/otp"
	"os"
	"path/filepath"
	"runtime/debug"
	"sort"
	"strconv"
	"strings"
	"sync"
	"sync/atomic"
	"testing"
	"time"

	"pgregory.net/rapid"

	"verifh/ev"
)

// verdict is what a check says about one case.
type verdict struct {
	NT     bool     // non-trivial by the property's stated rule
	Labels []string // classification for the histogram
	Err    error    // violation, nil if the property held on this case
}

func ok(nt bool, labels ...string) verdict { return verdict{NT: nt, Labels: labels} }
func bad(nt bool, labels []string, format string, a ...any) verdict {
	return verdict{NT: nt, Labels: labels, Err: fmt.Errorf(format, a...)}
}

// part is one executable check of a property over a JSON-serialisable case type.
type part[C any] struct {
	id, name, rule string
	check          func(C) verdict
	recorder       *ev.Recorder
}

var replayers = map[string]func(json.RawMessage) error{}
var recorders = map[string]*ev.Recorder{}

func newPart[C any](id, name, rule string, check func(C) verdict) *part[C] {
	p := &part[C]{id: id, name: name, rule: rule, check: check}
	p.recorder = ev.New(id, name, rule)
	recorders[id+"/"+name] = p.recorder
	replayers[id+"/"+name] = func(raw json.RawMessage) error {
		var c C
		if err := json.Unmarshal(raw, &c); err != nil {
			return fmt.Errorf("replay decode: %w", err)
		}
		return p.safe(c).Err
	}
	return p
}

func (p *part[C]) rec() *ev.Recorder { return p.recorder }

// safe runs the check and turns a panic escaping the library into a violation:
// every property's domain consists of arguments the library must answer.
func (p *part[C]) safe(c C) (v verdict) {
	watchOnce.Do(watchFlights)
	f := &flight{id: p.id, part: p.name, c: c, start: time.Now(), rec: p.recorder}
	curFlight.Store(f)
	flightCount.Add(1)
	defer func() {
		curFlight.CompareAndSwap(f, nil)
		if r := recover(); r != nil {
			v.Err = fmt.Errorf("panic: %v\n%s", r, trimStack(debug.Stack()))
			v.NT = true
			v.Labels = append(v.Labels, "panic")
		}
	}()
	return p.check(c)
}

// Every case of every part runs under one watchdog: a case that is still running after flightBudget (cases take
// microseconds to a few seconds; the longest deliberate waits inside a check add up to well under a minute) means that a
// call it made blocks or that its work does not end - "returns X" includes returning. The case is written as the replay
// and the process ends (the blocked goroutine cannot be stopped). The budget is far above anything machine load produces.
type flight struct {
	id, part string
	c        any
	start    time.Time
	rec      *ev.Recorder
}

const flightBudget = 150 * time.Second

var (
	curFlight   atomic.Pointer[flight]
	flightCount atomic.Int64
	watchOnce   sync.Once
)

// hangCleanup ends the helper processes of the harness that has some (set in its main_test.go)
var hangCleanup func()

// reportHang writes the case as the replay of a violation "did not return" and ends the process: the goroutine that is
// stuck cannot be stopped.
func reportHang(id, part string, c any, rec *ev.Recorder, msg string) {
	p := ev.WriteReplay(id, part, c, fmt.Errorf("%s", msg))
	if rec != nil {
		rec.Flush()
	}
	fmt.Printf("HANG %s/%s: %s [replay %s]\n", id, part, msg, p)
	if hangCleanup != nil {
		hangCleanup()
	}
	os.Exit(1)
}

func watchFlights() {
	go func() {
		for {
			time.Sleep(2 * time.Second)
			if f := curFlight.Load(); f != nil && time.Since(f.start) > flightBudget {
				reportHang(f.id, f.part, f.c, f.rec, fmt.Sprintf("the case did not finish within %v (cases of this part take from microseconds to a few seconds): a call it makes blocks, or its work does not end. It was case number %d of this process (VERIF_SEED=%s, tier %s): if it returns when run alone, the block depends on the calls made before it - re-run the check with that seed", flightBudget, flightCount.Load(), os.Getenv("VERIF_SEED"), os.Getenv("VERIF_TIER")))
			}
		}
	}()
}

// eval records and evaluates one case; returns the violation or nil.
func (p *part[C]) eval(c C) error {
	v := p.safe(c)
	p.rec().Case(c, v.NT, v.Labels...)
	if v.Err != nil {
		path := ev.WriteReplay(p.id, p.name, c, v.Err)
		return fmt.Errorf("%s/%s violated: %v [replay %s]", p.id, p.name, v.Err, path)
	}
	return nil
}

// rapid runs the check on `checks` generated cases.
func (p *part[C]) rapid(t *testing.T, checks int, gen func(*rapid.T) C) {
	t.Helper()
	must(flag.Set("rapid.checks", strconv.Itoa(checks)))
	defer p.rec().Flush()
	rapid.Check(t, func(rt *rapid.T) {
		c := gen(rt)
		if err := p.eval(c); err != nil {
			rt.Fatalf("%v", err)
		}
	})
}

// each evaluates one enumerated case; stops the test at the first violation.
func (p *part[C]) each(t *testing.T, c C) {
	if err := p.eval(c); err != nil {
		p.rec().Flush()
		t.Fatalf("%v", err)
	}
}

func must(err error) {
	if err != nil {
		panic(err)
	}
}

// TestReplay re-runs the case stored in VERIF_REPLAY through its check, with no
// generator library in between.
func TestReplay(t *testing.T) {
	rp, okk := ev.LoadReplay()
	if !okk {
		t.Skip("no VERIF_REPLAY")
	}
	f := replayers[rp.Property+"/"+rp.Part]
	if f == nil {
		t.Fatalf("INFRA: no replayer for %s/%s", rp.Property, rp.Part)
	}
	if err := f(rp.Case); err != nil {
		fmt.Printf("REPLAY-VIOLATION property=%s part=%s: %v\n", rp.Property, rp.Part, err)
		t.Fail()
		return
	}
	fmt.Printf("REPLAY-PASS property=%s part=%s\n", rp.Property, rp.Part)
}

// TestRegress re-runs the saved failing inputs of this property (witnesses of
// repaired defects, shrunk cases of seeded mutants) — the seconds-long replay tier.
func TestRegress(t *testing.T) {
	pid := os.Getenv("VERIF_PID")
	dir := filepath.Join(os.Getenv("VERIF_ROOT"), "regress", pid)
	files, _ := filepath.Glob(filepath.Join(dir, "*.json"))
	if pid == "" || len(files) == 0 {
		t.Skip("no saved inputs")
	}
	rec := ev.New(pid, "regress", "saved failing inputs (witnesses of repaired defects and shrunk cases of seeded mutants) re-run through their checks without the generator library; each file is a distinct non-trivial case")
	defer rec.Flush()
	sort.Strings(files)
	for _, f := range files {
		b, err := os.ReadFile(f)
		must(err)
		var rp ev.Replay
		must(json.Unmarshal(b, &rp))
		fn := replayers[rp.Property+"/"+rp.Part]
		if fn == nil {
			t.Fatalf("INFRA: no replayer for %s/%s (%s)", rp.Property, rp.Part, f)
		}
		rec.Case(map[string]any{"file": filepath.Base(f), "case": rp.Case}, true, "regress:"+rp.Part)
		if err := fn(rp.Case); err != nil {
			ev.WriteReplay(rp.Property, rp.Part, rp.Case, err)
			t.Fatalf("%s/%s violated on saved input %s: %v", rp.Property, rp.Part, filepath.Base(f), err)
		}
	}
}

// trimStack keeps the frames of the library under test (and a bounded prefix).
func trimStack(b []byte) string {
	lines := strings.Split(string(b), "\n")
	var out []string
	for i := 0; i+1 < len(lines); i++ {
		if strings.Contains(lines[i], "github.com/ja7ad/otp") {
			out = append(out, lines[i], strings.TrimSpace(lines[i+1]))
		}
		if len(out) >= 12 {
			break
		}
	}
	return strings.Join(out, "\n")
}

func debugStack() []byte { return debug.Stack() }

// retained is a ring of result strings handed out by the library together with independent
// copies: a result that aliases reusable memory is correct when returned and changes later, so
// value checks made right after the call cannot see it. retainCheck stores s and reports the
// first earlier result that no longer equals its copy.
var retained struct {
	mu    sync.Mutex
	got   [128]string
	clone [128]string
	what  [128]string
	n     int
}

func retainCheck(s, what string) error {
	retained.mu.Lock()
	defer retained.mu.Unlock()
	for i := 0; i < len(retained.got) && i < retained.n; i++ {
		if retained.got[i] != retained.clone[i] {
			g, c, w := retained.got[i], retained.clone[i], retained.what[i]
			retained.got[i], retained.clone[i] = "", "" // report once
			return fmt.Errorf("a result returned earlier (%s) changed after it was returned: %q -> %q", w, c, g)
		}
	}
	k := retained.n % len(retained.got)
	retained.got[k], retained.clone[k], retained.what[k] = s, strings.Clone(s), what
	retained.n++
	return nil
}

// retainBytes is retainCheck for byte-slice results (helper outputs that must not alias reusable memory).
var retainedB struct {
	mu    sync.Mutex
	got   [64][]byte
	clone [64][]byte
	what  [64]string
	n     int
}

func retainBytes(b []byte, what string) error {
	retainedB.mu.Lock()
	defer retainedB.mu.Unlock()
	for i := 0; i < len(retainedB.got) && i < retainedB.n; i++ {
		if string(retainedB.got[i]) != string(retainedB.clone[i]) {
			g, c, w := retainedB.got[i], retainedB.clone[i], retainedB.what[i]
			retainedB.got[i], retainedB.clone[i] = nil, nil
			return fmt.Errorf("a result returned earlier (%s) changed after it was returned: %x -> %x", w, c, g)
		}
	}
	if b == nil {
		return nil
	}
	k := retainedB.n % len(retainedB.got)
	retainedB.got[k], retainedB.clone[k], retainedB.what[k] = b, append([]byte(nil), b...), what
	retainedB.n++
	return nil
}

// viaDefault routes an explicit parameter set through the exported default pointers, as an application does that
// customises the defaults or hands them in explicitly: what the struct holds decides, not which pointer it is.
//
//	1: written INTO *otp.DefaultHOTPParam, that pointer passed    2: otp.DefaultHOTPParam replaced by the pointer
//	3: written INTO *otp.DefaultTOTPParam, that pointer passed    4: otp.DefaultTOTPParam replaced by the pointer
//	5, 6: OTHER values installed as the exported defaults (written into the structs / pointers replaced); the explicit set is passed as it is
//
// The returned function restores both exported defaults.
func viaDefault(via int, param *otp.Param) (*otp.Param, func()) {
	if via == 0 || param == nil {
		return param, func() {}
	}
	hp, tp := otp.DefaultHOTPParam, otp.DefaultTOTPParam
	hv, tv := *hp, *tp
	restore := func() { otp.DefaultHOTPParam, otp.DefaultTOTPParam = hp, tp; *hp, *tp = hv, tv }
	switch via {
	case 1:
		*otp.DefaultHOTPParam = *param
		return otp.DefaultHOTPParam, restore
	case 2:
		otp.DefaultHOTPParam = param
	case 3:
		*otp.DefaultTOTPParam = *param
		return otp.DefaultTOTPParam, restore
	case 4:
		otp.DefaultTOTPParam = param
	case 5:
		// the application has installed OTHER values as its defaults (written into the exported structs); this call passes an
		// explicit parameter set of its own: the explicit set decides, field by field — a zero period still means 30 s, SHA-1
		// (the zero value of the enum) still means SHA-1
		*otp.DefaultHOTPParam = otp.Param{Digits: 8, Algorithm: otp.SHA256, Skew: 1, Period: 60}
		*otp.DefaultTOTPParam = otp.Param{Digits: 9, Algorithm: otp.SHA512, Skew: 1, Period: 60}
	case 6:
		// the same with the exported pointers replaced
		otp.DefaultHOTPParam = &otp.Param{Digits: 7, Algorithm: otp.SHA512, Skew: 3, Period: 7}
		otp.DefaultTOTPParam = &otp.Param{Digits: 8, Algorithm: otp.SHA256, Skew: 2, Period: 45}
	}
	return param, restore
}
