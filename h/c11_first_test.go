package verifh

import (
	"bytes"
	"context"
	"encoding/base64"
	"encoding/json"
	"fmt"
	"os"
	"os/exec"
	"strconv"
	"strings"
	"testing"
	"time"

	"pgregory.net/rapid"

	"verifh/ev"
)

// ---------------------------------------------------------------------------
// C11, the empty history. "After any history of earlier calls ... returns exactly what it returns when called alone"
// includes the history in which nothing has been called yet: the first library call of a process. Everything the other
// parts run happens in a process in which thousands of calls of every kind have already been made, so whatever the
// library sets up on first use (settings read lazily, tables built by whichever operation comes first) is long in place.
// Here 1..3 operations run in a FRESH child process of the test binary (nothing of the library is touched before them,
// package initialisers included) and must give what the long-initialised parent gives.

type c11FirstCase struct {
	Ops []c11Op `json:"ops"`
}

type c11ChildRes struct {
	S     string
	B     bool
	Err   bool
	Panic string
}

func runChildC11(spec string) {
	raw, _ := base64.StdEncoding.DecodeString(spec)
	var ops []c11Op
	if json.Unmarshal(raw, &ops) != nil {
		fmt.Println("[]")
		return
	}
	var out []c11ChildRes
	for _, o := range ops {
		var r c11ChildRes
		func() {
			defer func() {
				if p := recover(); p != nil {
					r.Panic = fmt.Sprint(p)
				}
			}()
			x := o.run()
			r.S, r.B, r.Err = x.S, x.B, x.Err
		}()
		out = append(out, r)
	}
	b, _ := json.Marshal(out)
	fmt.Println(string(b))
}

func checkC11First(c c11FirstCase) verdict {
	spec, _ := json.Marshal(c.Ops)
	labels := []string{"first=" + c.Ops[0].Kind}
	var raw []byte
	var err error
	for try := 0; try < 2; try++ {
		ctx, cancel := context.WithTimeout(context.Background(), time.Duration(60*(try+1))*time.Second)
		cmd := exec.CommandContext(ctx, os.Args[0], "-test.run", "^$")
		cmd.Env = append(os.Environ(), "VERIF_CHILD=c11:"+base64.StdEncoding.EncodeToString(spec))
		raw, err = cmd.Output()
		timedOut := ctx.Err() != nil
		cancel()
		if !timedOut {
			break
		}
		if try == 1 {
			return bad(true, labels, "a fresh process whose first library calls are %v did not finish within 60 s and again within 120 s (in a process that has run before, the same calls return at once)", kindsOf(c.Ops))
		}
	}
	var got []c11ChildRes
	if err != nil || json.Unmarshal(bytes.TrimSpace(raw), &got) != nil || len(got) != len(c.Ops) {
		fmt.Println("INFRA: child process for C11 first calls failed:", err, string(raw))
		os.Exit(3)
	}
	for i, o := range c.Ops {
		want := o.expect()
		if want == postHoc {
			want = o.run()
		}
		g := got[i]
		if g.Panic != "" && o.Kind != "bad-suite" {
			return bad(true, labels, "call %d (%s) of a fresh process panicked: %s; in a process that has run before it returns %v", i, o.Kind, g.Panic, want)
		}
		if o.Kind == "bad-suite" {
			continue
		}
		if (c11Res{S: g.S, B: g.B, Err: g.Err}) != want {
			return bad(true, labels, "call %d (%s) of a fresh process (calls so far: %v) returned %v; alone, in a process that has run before, it returns %v", i, o.Kind, kindsOf(c.Ops[:i]), c11Res{S: g.S, B: g.B, Err: g.Err}, want)
		}
	}
	return ok(true, labels...)
}

func kindsOf(ops []c11Op) []string {
	var k []string
	for _, o := range ops {
		k = append(k, o.Kind)
	}
	return k
}

var c11First = newPart("C11", "first-calls",
	"rapid per kind: every kind of operation (HOTP / TOTP / OCRA generation and validation with accepted and rejected codes, failing calls of the three families, suite lookups, URL building and parsing, helpers, listing) as the FIRST library call of a fresh child process of the test binary (no package initialiser of the harness touches the library there), followed by 0..2 further drawn operations; oracle: each call returns what the reference says / what the long-initialised parent process returns for it, no panic, the child finishes within 60 s (one retry with 120 s); every case non-trivial",
	checkC11First)

func TestC11_FirstCalls(t *testing.T) {
	defer c11First.rec().Flush()
	// the validators four times per round, once per window width: a limit that is read lazily is not there yet on the first
	// call, and the code submitted lies inside the window (at its centre or on either edge), so a refusal shows
	kinds := []string{"hotp-val:1", "hotp-val:2", "hotp-val:3", "hotp-val:10", "totp-val:0", "totp-val:1", "totp-val:3", "totp-val:10", "hotp-gen", "totp-gen", "ocra-val", "ocra-gen", "lookup", "url", "hotp-url", "helpers", "list", "hotp-err", "totp-err", "ocra-err"}
	i := 0
	for rep := 0; rep < ev.Pick(2, 12); rep++ {
		for _, k := range kinds {
			i++
			if !ev.Mine(i) {
				continue
			}
			k, width := k, -1
			if j := strings.IndexByte(k, ':'); j >= 0 {
				width, _ = strconv.Atoi(k[j+1:])
				k = k[:j]
			}
			c := rapid.Custom(func(t *rapid.T) c11FirstCase {
				first := drawC11OpOfKind(t, k)
				if width >= 0 {
					first.Skew = width
					first.Dist = rapid.SampledFrom([]int{0, width, -width}).Draw(t, "firstDist")
					if k == "totp-val" {
						first.Counter += uint64(30 * (width + 1)) // the window stays above step 0
					}
				}
				c := c11FirstCase{Ops: []c11Op{first}}
				for n := rapid.IntRange(0, 2).Draw(t, "more"); n > 0; n-- {
					o := drawC11Op(t, false)
					if o.Kind == "fresh-enum" {
						continue
					}
					c.Ops = append(c.Ops, o)
				}
				return c
			}).Example(int(ev.Get().Seed)*1000 + i)
			c11First.each(t, c)
		}
	}
}
