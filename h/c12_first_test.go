package verifh

import (
	"bytes"
	"encoding/json"
	"fmt"
	"os"
	"os/exec"
	"testing"
	"time"

	otp "github.com/ja7ad/otp"

	"verifh/ev"
)

// ---------------------------------------------------------------------------
// C12 in a fresh process: an application sets its own default parameter sets at start-up — before it has made a single
// call — and then makes its first call. Whatever the library sets up on first use (settings, tables) must not write to
// the exported defaults: they hold the application's values from then on. The histories part makes the same check, but
// in a process whose first defaulted call was made long ago.

type c12FirstCase struct {
	Mode int    `json:"mode"` // 5: values written into the exported structs; 6: the exported pointers replaced by the application's structs
	Op   string `json:"op"`   // the first library call of the process
}

type c12ChildOut struct {
	HSame, TSame bool // the exported pointers still point where the application left them
	H, T         otp.Param
	Panic        string
}

var c12MineH = otp.Param{Digits: 8, Algorithm: otp.SHA256, Skew: 1, Period: 60}
var c12MineT = otp.Param{Digits: 9, Algorithm: otp.SHA512, Skew: 3, Period: 45}

func runChildC12(mode int, op string) {
	var out c12ChildOut
	hs, ts := c12MineH, c12MineT
	hp, tp := otp.DefaultHOTPParam, otp.DefaultTOTPParam
	if mode == 5 {
		*hp, *tp = hs, ts
	} else {
		hp, tp = &hs, &ts
		otp.DefaultHOTPParam, otp.DefaultTOTPParam = hp, tp
	}
	func() {
		defer func() {
			if p := recover(); p != nil {
				out.Panic = fmt.Sprint(p)
			}
		}()
		const secret = "GEZDGNBVGY3TQOJQGEZDGNBVGY3TQOJQ"
		switch op {
		case "hotp-gen-nil":
			otp.GenerateHOTP(secret, 7, nil)
		case "hotp-val-nil":
			otp.ValidateHOTP(secret, "123456", 7, nil)
		case "totp-gen-nil":
			otp.GenerateTOTP(secret, time.Unix(1700000000, 0), nil)
		case "totp-val-nil":
			otp.ValidateTOTP(secret, "123456", time.Unix(1700000000, 0), nil)
		case "totp-url":
			otp.GenerateTOTPURL(otp.URLParam{Issuer: "I", AccountName: "a", Secret: secret})
		case "hotp-url":
			otp.GenerateHOTPURL(otp.URLParam{Issuer: "I", AccountName: "a", Secret: secret})
		case "hotp-gen-explicit":
			otp.GenerateHOTP(secret, 7, &otp.Param{Digits: 6})
		case "random-secret":
			otp.RandomSecret(otp.SHA1)
		case "list":
			otp.ListSuites()
		case "ocra":
			if su, err := otp.NewRawSuite("OCRA-1:HOTP-SHA1-6:QN08"); err == nil {
				otp.GenerateOCRA(secret, su, otp.OCRAInput{Challenge: []byte("12345678")})
			}
		}
	}()
	out.HSame, out.TSame = otp.DefaultHOTPParam == hp, otp.DefaultTOTPParam == tp
	out.H, out.T = *hp, *tp
	b, _ := json.Marshal(out)
	fmt.Println(string(b))
}

var c12First = newPart("C12", "first-call-defaults",
	"complete product: 2 ways an application installs its own default parameter sets before its first call (values written into the exported structs; the exported pointers replaced by its own structs) x 10 first operations (HOTP / TOTP generation and validation with nil parameters, both URL builders, an explicit-parameter call, RandomSecret, ListSuites, an OCRA generation), each in a FRESH child process of the test binary; oracle: afterwards the exported pointers point where the application left them and both structs hold the application's values; every case distinct and non-trivial",
	func(c c12FirstCase) verdict {
		cmd := exec.Command(os.Args[0], "-test.run", "^$")
		cmd.Env = append(os.Environ(), fmt.Sprintf("VERIF_CHILD=c12:%d:%s", c.Mode, c.Op))
		raw, err := cmd.Output()
		var got c12ChildOut
		if err != nil || json.Unmarshal(bytes.TrimSpace(raw), &got) != nil {
			fmt.Println("INFRA: child process for C12 first-call defaults failed:", err, string(raw))
			os.Exit(3)
		}
		labels := []string{"op=" + c.Op, fmt.Sprintf("mode=%d", c.Mode)}
		if got.Panic != "" {
			return bad(true, labels, "the first call of a fresh process (%s) after the application installed its own defaults panicked: %s", c.Op, got.Panic)
		}
		if !got.HSame || !got.TSame {
			return bad(true, labels, "after the first call of a fresh process (%s) the exported default pointers no longer point at what the application installed (HOTP same: %v, TOTP same: %v)", c.Op, got.HSame, got.TSame)
		}
		if got.H != c12MineH || got.T != c12MineT {
			return bad(true, labels, "the first call of a fresh process (%s) rewrote the default parameter sets the application had installed: HOTP %+v -> %+v, TOTP %+v -> %+v", c.Op, c12MineH, got.H, c12MineT, got.T)
		}
		return ok(true, labels...)
	})

func TestC12_FirstCallDefaults(t *testing.T) {
	defer c12First.rec().Flush()
	i := 0
	for _, mode := range []int{5, 6} {
		for _, op := range []string{"hotp-gen-nil", "hotp-val-nil", "totp-gen-nil", "totp-val-nil", "totp-url", "hotp-url", "hotp-gen-explicit", "random-secret", "list", "ocra"} {
			if i++; ev.Mine(i) {
				c12First.each(t, c12FirstCase{Mode: mode, Op: op})
			}
		}
	}
	c12First.rec().Exhaustive()
}
