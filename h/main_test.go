package verifh

import (
	"bytes"
	"crypto/sha1"
	"fmt"
	"os"
	"testing"

	"verifh/ref"
)

// TestMain checks the reference against the RFC test vectors before anything
// else runs: a wrong oracle ends the process with status 3 (the driver reports
// that as inconclusive, never as a violation).
func TestMain(m *testing.M) {
	if inChild {
		runChild(os.Getenv("VERIF_CHILD"))
		os.Exit(0)
	}
	if err := selfCheck(); err != nil {
		fmt.Println("INFRA: reference self-check failed:", err)
		os.Exit(3)
	}
	rc := m.Run()
	killChildren()
	os.Exit(rc)
}

func init() { hangCleanup = killChildren }

// killChildren ends the helper processes (REST server, node) this test binary started.
func killChildren() {
	if srv != nil && srv.cmd != nil && srv.cmd.Process != nil {
		srv.cmd.Process.Kill()
	}
	if node != nil && node.cmd != nil && node.cmd.Process != nil {
		node.cmd.Process.Kill()
	}
}

func selfCheck() error {
	k20 := []byte("12345678901234567890")
	k32 := []byte("12345678901234567890123456789012")
	k64 := []byte("1234567890123456789012345678901234567890123456789012345678901234")
	for i, w := range []string{"755224", "287082", "359152", "969429", "338314", "254676", "287922", "162583", "399871", "520489"} {
		if g := ref.MustHOTP(k20, uint64(i), 6, 0); g != w {
			return fmt.Errorf("RFC 4226 counter %d: %s != %s", i, g, w)
		}
	}
	type tv struct {
		t    uint64
		a    int
		k    []byte
		want string
	}
	for _, v := range []tv{{59, 0, k20, "94287082"}, {59, 1, k32, "46119246"}, {59, 2, k64, "90693936"},
		{1111111109, 0, k20, "07081804"}, {1111111109, 1, k32, "68084774"}, {1111111109, 2, k64, "25091201"},
		{20000000000, 0, k20, "65353130"}, {20000000000, 1, k32, "77737706"}, {20000000000, 2, k64, "47863826"}} {
		if g := ref.MustHOTP(v.k, v.t/30, 8, v.a); g != v.want {
			return fmt.Errorf("RFC 6238 t=%d algo=%d: %s != %s", v.t, v.a, g, v.want)
		}
	}
	// RFC 6287 appendix C
	q := func(hexDigits ...byte) []byte { return hexDigits }
	c1 := ref.OCRACfg{Raw: "OCRA-1:HOTP-SHA1-6:QN08", Hash: 0, Digits: 6, Q: true, QFormat: 1}
	if g, _ := ref.OCRA(k20, c1, ref.OCRAIn{Q: make([]byte, 8)}); g != "237653" {
		return fmt.Errorf("RFC 6287 QN08 00000000: %s", g)
	}
	// 11111111 decimal = 0xA98AC7 -> "A98AC7" right-padded
	if g, _ := ref.OCRA(k20, c1, ref.OCRAIn{Q: q(0xA9, 0x8A, 0xC7, 0, 0, 0, 0, 0)}); g != "243178" {
		return fmt.Errorf("RFC 6287 QN08 11111111: %s", g)
	}
	pin := sha1.Sum([]byte("1234"))
	c2 := ref.OCRACfg{Raw: "OCRA-1:HOTP-SHA256-8:C-QN08-PSHA1", Hash: 1, Digits: 8, C: true, Q: true, P: true, QFormat: 1, PHash: 1}
	// 12345678 decimal = 0xBC614E
	in2 := ref.OCRAIn{C: make([]byte, 8), Q: q(0xBC, 0x61, 0x4E, 0, 0, 0, 0, 0), P: pin[:]}
	if g, _ := ref.OCRA(k32, c2, in2); g != "65347737" {
		return fmt.Errorf("RFC 6287 C-QN08-PSHA1 counter 0: %s", g)
	}
	c3 := ref.OCRACfg{Raw: "OCRA-1:HOTP-SHA512-8:QN08-T1M", Hash: 2, Digits: 8, Q: true, T: true, QFormat: 1, TimeStep: 60}
	// 00000000 with T = 0x132d0b6
	if g, _ := ref.OCRA(k64, c3, ref.OCRAIn{Q: make([]byte, 8), T: []byte{0, 0, 0, 0, 0x01, 0x32, 0xd0, 0xb6}}); g != "95209754" {
		return fmt.Errorf("RFC 6287 QN08-T1M: %s", g)
	}
	if ref.B32([]byte("foobar")) != "MZXW6YTBOI" || ref.B32Pad([]byte("fo")) != "MZXQ====" || ref.B32(nil) != "" {
		return fmt.Errorf("base32 reference")
	}
	if !bytes.Equal(ref.HMAC(0, make([]byte, 200), nil)[:2], ref.HMAC(0, func() []byte { s := sha1.Sum(make([]byte, 200)); return s[:] }(), nil)[:2]) {
		return fmt.Errorf("HMAC long-key rule")
	}
	return nil
}
