package verifh

import (
	"fmt"
	"net/url"
	"strings"
	"testing"
	"time"

	otp "github.com/ja7ad/otp"
	"pgregory.net/rapid"

	"verifh/ev"
	"verifh/gen"
	"verifh/ref"
)

// ---------------------------------------------------------------------------
// C13 free calls — "No error produced by any operation contains the secret". The other-operations part
// only makes calls that fail on the unchanged tree; a change that adds a NEW failure cause (and puts the
// secret into its message) is only reached by calls that are free to succeed. Here every secret-carrying
// operation is called with freely drawn arguments and whatever error comes back is searched.

type c13FreeCase struct {
	Op      string       `json:"op"`
	Key     []byte       `json:"key"`
	Sp      gen.Spelling `json:"sp"`
	Corrupt int          `json:"corrupt"`
	Digits  int          `json:"digits"`
	Algo    int          `json:"algo"`
	Period  uint64       `json:"period"`
	Skew    uint64       `json:"skew"`
	Counter uint64       `json:"counter"`
	Unix    int64        `json:"unix"`
	Code    string       `json:"code"`
	// URL shape
	Scheme, Type, LabelIssuer, Account, IssuerParam string
	LabelForm                                       int      `json:"label_form"` // 0 "issuer:account", 1 "account", 2 "issuer%3Aaccount", 3 "issuer: account"
	Params                                          []string `json:"params"`     // extra/garbled query parameters "k=v" (appended after the secret)
	SecretTwice                                     bool     `json:"secret_twice"`
	// OCRA
	O c06Case `json:"o"`
	// ParseOTPAuthURL: where the secret sits in the query (0 = secret=<text>; see checkC13Free)
	SecretPlace int `json:"secret_place,omitempty"`
}

func checkC13Free(c c13FreeCase) verdict {
	text := gen.Spell(c.Key, c.Sp)
	sub := corrupt(text, c.Corrupt)
	needles := secretNeedles([]string{text, sub}, c.Key)
	labels := []string{"op=" + c.Op}
	p := &otp.Param{Digits: otp.Digits(c.Digits), Algorithm: otp.Algorithm(c.Algo), Period: uint(c.Period), Skew: uint(c.Skew)}
	var err error
	var code string
	var codes []string
	switch c.Op {
	case "GenerateHOTP":
		code, err = otp.GenerateHOTP(sub, c.Counter, p)
	case "GenerateTOTP":
		code, err = otp.GenerateTOTP(sub, time.Unix(c.Unix, 0), p)
	case "ValidateHOTP":
		_, err = otp.ValidateHOTP(sub, c.Code, c.Counter, p)
		if c.Digits >= 6 && c.Digits <= 10 && c.Algo >= 0 && c.Algo <= 2 && c.Skew <= 10 && c.Counter <= ^uint64(0)-c.Skew && c.Corrupt < 0 {
			for k := range windowSet(c.Key, c.Counter, c.Skew, c.Digits, c.Algo) {
				codes = append(codes, k)
			}
		}
	case "ValidateTOTP":
		_, err = otp.ValidateTOTP(sub, c.Code, time.Unix(c.Unix, 0), p)
	case "DecodeSecret":
		_, err = otp.DecodeSecret(sub)
	case "GenerateTOTPURL", "GenerateHOTPURL":
		up := otp.URLParam{Issuer: c.LabelIssuer, AccountName: c.Account, Secret: sub, Digits: otp.Digits(c.Digits), Algorithm: otp.Algorithm(c.Algo), Period: uint(c.Period)}
		if c.Op == "GenerateTOTPURL" {
			_, err = otp.GenerateTOTPURL(up)
		} else {
			_, err = otp.GenerateHOTPURL(up)
		}
	case "ParseOTPAuthURL":
		var label string
		switch c.LabelForm {
		case 0:
			label = url.PathEscape(c.LabelIssuer) + ":" + url.PathEscape(c.Account)
		case 1:
			label = url.PathEscape(c.Account)
		case 2:
			label = url.PathEscape(c.LabelIssuer) + "%3A" + url.PathEscape(c.Account)
		default:
			label = url.PathEscape(c.LabelIssuer) + ":%20" + url.PathEscape(c.Account)
		}
		q := "secret=" + url.QueryEscape(sub)
		switch c.SecretPlace {
		case 1: // the '=' escaped one layer too often: the secret ends up inside a query KEY
			q = "secret%3D" + url.QueryEscape(sub)
		case 2: // the secret without its name
			q = url.QueryEscape(sub)
		case 3: // as a key with an empty value
			q = url.QueryEscape(sub) + "="
		case 4: // the pair escaped as a whole, under another name
			q = "data=" + url.QueryEscape("secret="+sub)
		case 5: // misspelt name
			q = "Secret=" + url.QueryEscape(sub) + "&secret_key=" + url.QueryEscape(sub)
		}
		if c.IssuerParam != "\x00" { // "\x00" = no issuer parameter
			q = "issuer=" + url.QueryEscape(c.IssuerParam) + "&" + q
		}
		for _, kv := range c.Params {
			q += "&" + kv
		}
		if c.SecretTwice {
			q += "&secret=" + url.QueryEscape(sub)
		}
		raw := c.Scheme + "://" + c.Type + "/" + label + "?" + q
		u, perr := url.Parse(raw)
		if perr != nil {
			return ok(false, append(labels, "unparsable-by-net/url")...)
		}
		_, err = otp.ParseOTPAuthURL(u)
	case "GenerateOCRA", "ValidateOCRA":
		suite, cfg, _ := c.O.Suite.resolve()
		if suite == nil {
			return ok(false, append(labels, "suite-constructor-nil")...)
		}
		needles = secretNeedles([]string{c.O.Secret}, c.Key)
		// the code that would have been accepted, by the reference (the library's own generation may be what fails)
		if c.Key != nil {
			if rc, rerr := ref.OCRA(c.Key, cfg, c.O.In); rerr == nil && len(rc) >= 6 {
				codes = append(codes, rc)
			}
		}
		if c.Op == "GenerateOCRA" {
			code, err = otp.GenerateOCRA(c.O.Secret, suite, toLibIn(c.O.In))
		} else {
			_, err = otp.ValidateOCRA(c.O.Secret, string(c.O.Code), suite, toLibIn(c.O.In))
			if g, gerr := otp.GenerateOCRA(c.O.Secret, suite, toLibIn(c.O.In)); gerr == nil {
				codes = append(codes, g)
			}
		}
	}
	if err == nil {
		return ok(false, append(labels, "no-failure")...)
	}
	labels = append(labels, "failed")
	if code != "" {
		return bad(true, labels, "%s failed (%v) but also returned %q", c.Op, err, code)
	}
	if e := leak(err, needles, codes); e != "" {
		return bad(true, labels, "%s: %s", c.Op, e)
	}
	return ok(true, labels...)
}

var c13Free = newPart("C13", "free-calls",
	"rapid: every secret-carrying operation (Generate/Validate HOTP, TOTP, OCRA; DecodeSecret; Generate*URL; ParseOTPAuthURL) with freely drawn arguments that may or may not fail on the unchanged tree — secrets in any spelling or corrupted, digits -2..12, hash -1..4, periods/skews/counters/instants incl. extremes, submitted strings of any shape, otpauth URLs built from parts (scheme, type, label forms, issuer parameter equal / different in case / different / absent, digits/period/algorithm/counter parameters well-formed or garbled, extra and duplicate parameters), C06's OCRA cases; oracle: whenever an error comes back its text (%v, %+v, %#v) contains no rendering of the secret and none of the codes that would have been accepted, and no code is returned along with an error; non-trivial = the call failed",
	checkC13Free)

var urlTexts = []string{"ACME", "acme", "Big Corp", "BigCorp", "I", "a", "alice@example.com", "é", "x/y", "a b", "A%B", "", "İ", "K"}

func TestC13_FreeCalls(t *testing.T) {
	c13Free.rapid(t, ev.Pick(20_000, 300_000), func(t *rapid.T) c13FreeCase {
		c := c13FreeCase{Op: rapid.SampledFrom([]string{"GenerateHOTP", "GenerateTOTP", "ValidateHOTP", "ValidateTOTP", "DecodeSecret",
			"GenerateTOTPURL", "GenerateHOTPURL", "ParseOTPAuthURL", "ParseOTPAuthURL", "ParseOTPAuthURL", "GenerateOCRA", "ValidateOCRA"}).Draw(t, "op"),
			Key: rapid.SliceOfN(rapid.Byte(), 10, 64).Draw(t, "key"), Corrupt: -1}
		if strings.HasSuffix(c.Op, "OCRA") {
			c.O = genC06(t)
			if k, err := otp.DecodeSecret(c.O.Secret); err == nil {
				c.Key = k
			} else {
				c.Key = nil
			}
			return c
		}
		c.Sp = gen.DrawSpelling(t)
		if rapid.IntRange(0, 3).Draw(t, "corruptQ") == 0 {
			c.Corrupt = rapid.IntRange(0, 400).Draw(t, "corrupt")
		}
		c.Digits = rapid.SampledFrom([]int{6, 6, 6, 8, 10, 1, 0, -2, 3, 11, 12, 255}).Draw(t, "digits")
		c.Algo = rapid.SampledFrom([]int{0, 0, 1, 2, 3, 4, -1, 255}).Draw(t, "algo")
		c.Period = rapid.SampledFrom([]uint64{30, 0, 1, 60, 7, 1 << 31, 1 << 32, 1<<63 - 1, 1 << 63, ^uint64(0)}).Draw(t, "period")
		c.Skew = rapid.SampledFrom([]uint64{0, 1, 2, 10, 11, 1 << 31, ^uint64(0)}).Draw(t, "skew")
		c.Counter = gen.Counter().Draw(t, "counter")
		c.Unix = rapid.SampledFrom([]int64{0, 59, 1e9, 1111111109, 2e9, 20000000000, -1, -1 << 40, 1<<62 - 1}).Draw(t, "unix")
		d := c.Digits
		if d < 1 || d > 10 {
			d = 6
		}
		if a := c.Algo; a >= 0 && a <= 2 {
			c.Code = gen.MutateCode(t, ref.MustHOTP(c.Key, c.Counter, d, a))
		} else {
			c.Code = rapid.StringN(0, 12, 24).Draw(t, "code")
		}
		c.Scheme = rapid.SampledFrom([]string{"otpauth", "otpauth", "otpauth", "otpauth", "OTPAUTH", "http", "otpauths"}).Draw(t, "scheme")
		c.Type = rapid.SampledFrom([]string{"totp", "totp", "hotp", "hotp", "TOTP", "ocra", "", "totp.example"}).Draw(t, "type")
		c.LabelIssuer = rapid.SampledFrom(urlTexts).Draw(t, "labelIssuer")
		c.Account = rapid.SampledFrom(urlTexts).Draw(t, "account")
		c.LabelForm = rapid.IntRange(0, 3).Draw(t, "labelForm")
		switch rapid.IntRange(0, 4).Draw(t, "issuerParam") {
		case 0:
			c.IssuerParam = "\x00"
		case 1, 2:
			c.IssuerParam = c.LabelIssuer
		case 3:
			c.IssuerParam = strings.ToLower(c.LabelIssuer)
		default:
			c.IssuerParam = rapid.SampledFrom(urlTexts).Draw(t, "issuerOther")
		}
		for _, k := range []string{"digits", "period", "algorithm", "counter"} {
			switch rapid.IntRange(0, 3).Draw(t, "p_"+k) {
			case 0: // absent
			case 1: // a well-formed value
				c.Params = append(c.Params, k+"="+map[string]string{"digits": "8", "period": "60", "algorithm": "SHA256", "counter": "7"}[k])
			default:
				c.Params = append(c.Params, k+"="+url.QueryEscape(rapid.SampledFrom([]string{"", "x", "-1", "0", "6x", " 6", "99999999999999999999", "4294967302", "MD5", "sha1", "1e3", "0x10", "٦"}).Draw(t, "v_"+k)))
			}
		}
		if rapid.IntRange(0, 4).Draw(t, "extraQ") == 0 {
			c.Params = append(c.Params, rapid.SampledFrom([]string{"image=https%3A%2F%2Fx%2Fy.png", "x", "=", "digits=6&digits=8", "issuer=Other", "%zz=1", "a;b=c"}).Draw(t, "extra"))
		}
		c.SecretTwice = rapid.IntRange(0, 9).Draw(t, "twice") == 0
		if rapid.IntRange(0, 3).Draw(t, "secretPlaceQ") == 0 {
			c.SecretPlace = rapid.IntRange(1, 5).Draw(t, "secretPlace")
		}
		return c
	})
	if c13Free.rec().LabelCount("failed") == 0 {
		t.Fatalf("INFRA: no failing call was generated")
	}
}

var _ = fmt.Sprint

// c13URLCase: URL text assembled by the native fuzz target around "secret=<base32 of Key>".
type c13URLCase struct {
	Before string `json:"before"`
	After  string `json:"after"`
	Key    []byte `json:"key"`
}

var c13URL = newPart("C13", "fuzz-urls",
	"native fuzzing: arbitrary text before and after a 'secret=<base32>' parameter, parsed by net/url and handed to ParseOTPAuthURL; oracle: an error that comes back contains no rendering of the secret; non-trivial = the URL parsed and the call failed",
	func(c c13URLCase) verdict {
		text := ref.B32(c.Key)
		u, err := url.Parse(c.Before + "secret=" + text + c.After)
		if err != nil || u == nil {
			return ok(false, "unparsable-by-net/url")
		}
		// "the secret" of a URL is the value of its secret parameter. If the fuzzer's surroundings moved the text somewhere
		// else (into the host, the label, another parameter's value, the fragment) an error that echoes that other part
		// does not disclose a secret: not classified.
		q := u.Query()
		if len(q["secret"]) == 0 {
			return ok(false, "secret-not-a-parameter")
		}
		for _, v := range q["secret"] {
			if v != text {
				return ok(false, "secret-parameter-changed")
			}
		}
		q.Del("secret")
		rest := *u
		rest.RawQuery = q.Encode()
		needles := secretNeedles([]string{text}, c.Key)
		hay := rest.String() + "\x00" + rest.Scheme + "\x00" + rest.Host + "\x00" + rest.Path + "\x00" + rest.Fragment + "\x00" + rest.Opaque
		for k, vs := range q {
			hay += "\x00" + k + "\x00" + strings.Join(vs, "\x00")
		}
		for _, n := range needles {
			if strings.Contains(hay, n) {
				return ok(false, "secret-text-elsewhere")
			}
		}
		_, perr := otp.ParseOTPAuthURL(u)
		if perr == nil {
			return ok(false, "no-failure")
		}
		if e := leak(perr, needles, nil); e != "" {
			return bad(true, []string{"failed"}, "ParseOTPAuthURL(%q): %s", u.String(), e)
		}
		return ok(true, "failed")
	})
