package verifh

import (
	"fmt"
	"math/big"
	"net/url"
	"reflect"
	"strings"
	"testing"
	"time"
	"unicode/utf8"

	otp "github.com/ja7ad/otp"
	"pgregory.net/rapid"

	"verifh/ev"
	"verifh/gen"
	"verifh/ref"
)

// ---------------------------------------------------------------------------
// C10 — no public operation panics or hangs; bad arguments are reported as errors.

type c10Case struct {
	Op      string      `json:"op"`
	S       [5][]byte   `json:"s"` // string arguments (bytes: may be invalid UTF-8)
	B       [5][]byte   `json:"b"` // byte-slice arguments
	BNil    [5]bool     `json:"b_nil"`
	U       uint64      `json:"u"`
	Digits  int         `json:"digits"` // 0..255
	Algo    int         `json:"algo"`   // 0..255
	Period  uint64      `json:"period"`
	Skew    uint64      `json:"skew"`
	Unix    int64       `json:"unix"`
	Nsec    int64       `json:"nsec"`
	Width   int         `json:"width"` // LeftPadHex width 0..2^20
	Cfg     ref.OCRACfg `json:"cfg"`
	SuiteBy int         `json:"suite_by"` // 0 SuiteConfig, 1 RawSuite, 2 NewRawSuite(S[4]) result, 3 NewSuite result (if non-nil)
	NilP    bool        `json:"nil_param"`
	URLKind int         `json:"url_kind"` // 0 url.Parse(S[0]), 1 hand-built, 2 nil, 3 otpauth text assembled from parts with escapes, 4 hand-built incl. RawPath / User / Opaque
	Hostile bool        `json:"hostile"`  // generator drew at least one argument outside the happy range
}

var c10Ops = []string{
	"Digits.Int", "DigitsFromStr", "Algorithm.String", "AlgorithmFromStr", "TimeCounterFunc", "OCRAInput.Validate", "HexInputToOCRA",
	"RandomSecret", "ParseOTPAuthURL", "GenerateHOTP", "GenerateHOTPURL", "ValidateHOTP", "GenerateTOTP", "GenerateTOTPURL", "ValidateTOTP",
	"GenerateOCRA", "ValidateOCRA", "DecodeSecret", "NewSuite", "ListSuites", "IsKnownSuite", "SuiteConfigFromRaws", "SuiteConfig.methods",
	"NewRawSuite", "RawSuite.methods", "ParseDecimalToBigEndian8", "LeftPadHex", "ParseDecimal64BigEndian", "ParseHexTimestamp",
	"ParseDecimalChallengeRFC6287", "To8ByteBigEndian", "URLParam.reflect", "Param.reflect",
}

// fillReflect sets EVERY exported field of a parameter struct — also fields this harness has never heard of — from the
// case: strings from the drawn strings (a quarter empty), integers from the drawn 64-bit values (boundaries included),
// enumerations half of the time inside their supported range.
func fillReflect(v reflect.Value, c c10Case) {
	mix := c.U ^ (c.Period * 0x9e3779b97f4a7c15) ^ (uint64(c.Digits) << 40) ^ (uint64(c.Algo) << 48) ^ (c.Skew << 7)
	nums := []uint64{c.U, c.Period, c.Skew, uint64(c.Digits), uint64(c.Algo), 1 << 62, ^uint64(0), 1 << 48}
	for i := 0; i < v.NumField(); i++ {
		f := v.Field(i)
		if !f.CanSet() {
			continue
		}
		bits := mix >> (uint(i*5) % 60)
		switch f.Kind() {
		case reflect.String:
			if bits&3 == 0 {
				f.SetString("")
			} else {
				f.SetString(string(c.S[i%len(c.S)]))
			}
		case reflect.Uint, reflect.Uint8, reflect.Uint16, reflect.Uint32, reflect.Uint64:
			x := nums[int(bits>>2)%len(nums)]
			if f.Type().PkgPath() != "" && f.Kind() == reflect.Uint8 && bits&1 == 0 {
				x = []uint64{0, 1, 2, 6, 8, 10}[int(bits>>2)%6] // a named small enumeration: a supported value
			}
			f.SetUint(x)
		case reflect.Int, reflect.Int8, reflect.Int16, reflect.Int32, reflect.Int64:
			f.SetInt(int64(nums[int(bits>>2)%len(nums)]))
		case reflect.Bool:
			f.SetBool(bits&1 == 1)
		case reflect.Slice:
			if f.Type().Elem().Kind() == reflect.Uint8 {
				f.SetBytes(c.bs(i % 5))
			}
		}
	}
}

func (c c10Case) bs(i int) []byte {
	if c.BNil[i] {
		return nil
	}
	if c.B[i] == nil {
		return []byte{}
	}
	return c.B[i]
}

func (c c10Case) param() *otp.Param {
	if c.NilP {
		return nil
	}
	return &otp.Param{Digits: otp.Digits(c.Digits), Algorithm: otp.Algorithm(c.Algo), Period: uint(c.Period), Skew: uint(c.Skew)}
}

func (c c10Case) suite() otp.Suite {
	lc := toLib(c.Cfg)
	switch c.SuiteBy {
	case 1:
		return otp.RawSuite{SuiteConfig: lc}
	case 2:
		s, _ := otp.NewRawSuite(string(c.S[4]))
		return s // RawSuite{} on error: a legitimate value of the library's own type
	case 3:
		if s, err := otp.NewSuite(lc); err == nil && s != nil {
			return s
		}
		return lc
	}
	return lc
}

// callC10 performs the operation; it returns a short description of the outcome.
func callC10(c c10Case) string {
	s := func(i int) string { return string(c.S[i]) }
	t := time.Unix(c.Unix, c.Nsec)
	switch c.Op {
	case "URLParam.reflect":
		// a size taken from an argument can also end the process outright (out of memory is not a panic): the case is
		// left behind for the driver while it runs
		defer ev.Inflight("C10", "main", c)()
		var up otp.URLParam
		fillReflect(reflect.ValueOf(&up).Elem(), c)
		_, e1 := otp.GenerateTOTPURL(up)
		_, e2 := otp.GenerateHOTPURL(up)
		return fmt.Sprint(e1, e2)
	case "Param.reflect":
		defer ev.Inflight("C10", "main", c)()
		var p otp.Param
		fillReflect(reflect.ValueOf(&p).Elem(), c)
		_, e1 := otp.GenerateHOTP(validSecret, c.U, &p)
		_, e2 := otp.ValidateHOTP(validSecret, codeOfLen(int(p.Digits)), c.U, &p)
		_, e3 := otp.GenerateTOTP(validSecret, t, &p)
		_, e4 := otp.ValidateTOTP(validSecret, codeOfLen(int(p.Digits)), t, &p)
		return fmt.Sprint(e1, e2, e3, e4)
	case "Digits.Int":
		return fmt.Sprint(otp.Digits(c.Digits).Int())
	case "DigitsFromStr":
		return fmt.Sprint(otp.DigitsFromStr(s(0)))
	case "Algorithm.String":
		return otp.Algorithm(c.Algo).String()
	case "AlgorithmFromStr":
		return fmt.Sprint(otp.AlgorithmFromStr(s(0)))
	case "TimeCounterFunc":
		return fmt.Sprint(otp.TimeCounterFunc(t, uint(c.Period)))
	case "OCRAInput.Validate":
		in := otp.OCRAInput{Counter: c.bs(0), Challenge: c.bs(1), Password: c.bs(2), SessionInfo: c.bs(3), Timestamp: c.bs(4)} // a variable: the method may have a pointer receiver
		return fmt.Sprint(in.Validate(toLib(c.Cfg)))
	case "HexInputToOCRA":
		_, err := otp.HexInputToOCRA(s(0), s(1), s(2), s(3), s(4))
		return fmt.Sprint(err)
	case "RandomSecret":
		_, err := otp.RandomSecret(otp.Algorithm(c.Algo))
		return fmt.Sprint(err)
	case "ParseOTPAuthURL":
		var u *url.URL
		switch c.URLKind {
		case 0:
			u, _ = url.Parse(s(0))
			if u == nil {
				return "unparsable"
			}
		case 1:
			u = &url.URL{Scheme: s(0), Host: s(1), Path: s(2), RawQuery: s(3), Opaque: "", Fragment: s(4)}
		case 3:
			// otpauth text whose label is written with the escapes a hand-typed or foreign-generated URL may carry
			// (an escaped colon or slash makes net/url keep a RawPath next to the decoded Path)
			esc := []string{":", "%3A", "%3a", "%3A%20", ":%20", "%2F", "/", "@", "%40", "", "::", "%3A:", ":%3A", "%25", "%00", "%C3%A9"}
			label := "ACME" + esc[int(c.U%uint64(len(esc)))] + "bob" + esc[int((c.U/16)%uint64(len(esc)))] + "x"
			if c.U&(1<<20) != 0 {
				label = esc[int((c.U/256)%uint64(len(esc)))] + label
			}
			text := "otpauth://" + []string{"totp", "hotp", "TOTP", ""}[int(c.Period%4)] + "/" + label + "?secret=JBSWY3DPEHPK3PXP&issuer=" + esc[int((c.U/4096)%uint64(len(esc)))] + "ACME&digits=" + fmt.Sprint(c.Digits) + "&" + s(3)
			u, _ = url.Parse(text)
			if u == nil {
				return "unparsable"
			}
		case 4:
			u = &url.URL{Scheme: "otpauth", Host: s(1), Path: s(2), RawPath: s(0), RawQuery: s(3), Opaque: s(4), ForceQuery: c.NilP, OmitHost: c.U&1 == 1, RawFragment: s(4)}
			if c.U&2 != 0 {
				u.User = url.UserPassword(s(1), s(4))
			}
		}
		_, err := otp.ParseOTPAuthURL(u)
		return fmt.Sprint(err)
	case "GenerateHOTP":
		_, err := otp.GenerateHOTP(s(0), c.U, c.param())
		return fmt.Sprint(err)
	case "ValidateHOTP":
		_, err := otp.ValidateHOTP(s(0), s(1), c.U, c.param())
		otp.ValidateHOTP(s(0), codeOfLen(c.Digits), c.U, c.param()) // a code exactly as long as the (possibly absurd) digit count
		otp.ValidateHOTP(validSecret, codeOfLen(c.Digits), c.U, c.param())
		return fmt.Sprint(err)
	case "GenerateTOTP":
		_, err := otp.GenerateTOTP(s(0), t, c.param())
		return fmt.Sprint(err)
	case "ValidateTOTP":
		_, err := otp.ValidateTOTP(s(0), s(1), t, c.param())
		otp.ValidateTOTP(s(0), codeOfLen(c.Digits), t, c.param())
		otp.ValidateTOTP(validSecret, codeOfLen(c.Digits), t, c.param())
		return fmt.Sprint(err)
	case "GenerateHOTPURL", "GenerateTOTPURL":
		up := otp.URLParam{Issuer: s(0), AccountName: s(1), Secret: s(2), Period: uint(c.Period), Digits: otp.Digits(c.Digits), Algorithm: otp.Algorithm(c.Algo)}
		var u *url.URL
		var err error
		if c.Op == "GenerateHOTPURL" {
			u, err = otp.GenerateHOTPURL(up)
		} else {
			u, err = otp.GenerateTOTPURL(up)
		}
		if u != nil {
			_ = u.String()
		}
		return fmt.Sprint(err)
	case "GenerateOCRA":
		_, err := otp.GenerateOCRA(s(0), c.suite(), otp.OCRAInput{Counter: c.bs(0), Challenge: c.bs(1), Password: c.bs(2), SessionInfo: c.bs(3), Timestamp: c.bs(4)})
		return fmt.Sprint(err)
	case "ValidateOCRA":
		_, err := otp.ValidateOCRA(s(0), s(1), c.suite(), otp.OCRAInput{Counter: c.bs(0), Challenge: c.bs(1), Password: c.bs(2), SessionInfo: c.bs(3), Timestamp: c.bs(4)})
		otp.ValidateOCRA(validSecret, codeOfLen(c.Cfg.Digits), c.suite(), otp.OCRAInput{Counter: c.bs(0), Challenge: c.bs(1), Password: c.bs(2), SessionInfo: c.bs(3), Timestamp: c.bs(4)})
		return fmt.Sprint(err)
	case "DecodeSecret":
		_, err := otp.DecodeSecret(s(0))
		return fmt.Sprint(err)
	case "NewSuite":
		_, err := otp.NewSuite(toLib(c.Cfg))
		return fmt.Sprint(err)
	case "ListSuites":
		return fmt.Sprint(len(otp.ListSuites()))
	case "IsKnownSuite":
		return fmt.Sprint(otp.IsKnownSuite(s(4)))
	case "SuiteConfigFromRaws":
		return fmt.Sprint(otp.SuiteConfigFromRaws(s(4)).Digits)
	case "SuiteConfig.methods":
		lc := toLib(c.Cfg)
		return fmt.Sprint(lc.Config().Digits, lc.String(), lc.Validate())
	case "NewRawSuite":
		su, err := otp.NewRawSuite(s(4))
		if su != nil {
			_ = su.Config()
			_ = su.String()
			_ = su.Validate()
		}
		return fmt.Sprint(err)
	case "RawSuite.methods":
		rs := otp.RawSuite{SuiteConfig: toLib(c.Cfg)}
		return fmt.Sprint(rs.Config().Digits, rs.String(), rs.Validate())
	case "ParseDecimalToBigEndian8":
		_, err := otp.ParseDecimalToBigEndian8(s(0))
		return fmt.Sprint(err)
	case "LeftPadHex":
		return fmt.Sprint(len(otp.LeftPadHex(s(0), c.Width)))
	case "ParseDecimal64BigEndian":
		_, err := otp.ParseDecimal64BigEndian(s(0))
		return fmt.Sprint(err)
	case "ParseHexTimestamp":
		_, err := otp.ParseHexTimestamp(s(0))
		return fmt.Sprint(err)
	case "ParseDecimalChallengeRFC6287":
		_, err := otp.ParseDecimalChallengeRFC6287(s(0))
		return fmt.Sprint(err)
	case "To8ByteBigEndian":
		return fmt.Sprint(otp.To8ByteBigEndian(c.U))
	}
	panic("HARNESS: unknown op " + c.Op)
}

func checkC10(c c10Case) verdict {
	var panicked any
	var stack string
	done := bounded(func() {
		defer func() {
			if r := recover(); r != nil {
				panicked = r
				stack = trimStack(debugStack())
			}
		}()
		callC10(c)
	}, 15*time.Second)
	labels := []string{"op=" + c.Op}
	if c.Hostile {
		labels = append(labels, "hostile")
	}
	if !done {
		hang("C10", "main", c, recorders["C10/main"], fmt.Sprintf("%s did not return within 15 s and again within 30 s", c.Op))
	}
	if panicked != nil {
		return bad(true, labels, "%s panicked: %v\n%s", c.Op, panicked, stack)
	}
	return ok(c.Hostile, labels...)
}

var c10Main = newPart("C10", "main",
	"rapid: every exported function and method except MustRawSuite / MustHexPadLeft (31 operations incl. the default TimeCounterFunc value, plus URLParam and Param filled field by field through reflection, so that fields added later are set as well) with arguments from hostile-biased generators: enums 0..255, uint/uint64/int64 boundaries, strings (valid and invalid UTF-8, empty, 64 KiB, syntax-shaped near-misses), byte slices nil/empty/boundary lengths/64 KiB, arbitrary Param / URLParam / SuiteConfig / OCRAInput field combinations, instants incl. pre-epoch and beyond year 2262, URLs parsed from generated text, hand-built and nil; LeftPadHex widths 0..2^20; suites only of the library's own types; oracle: recover() => no panic, 15 s + 30 s double watchdog => no hang; non-trivial = at least one argument drawn from outside the happy range",
	checkC10)

const validSecret = "GEZDGNBVGY3TQOJQGEZDGNBVGY3TQOJQ"

// codeOfLen returns a digit string exactly n characters long (n clamped to 0..300): validators that prepare buffers from
// the digit count before refusing it meet a code that passes their length test.
func codeOfLen(n int) string {
	if n < 0 {
		n = 0
	}
	if n > 300 {
		n = 300
	}
	return strings.Repeat("7", n)
}

var hostileStrings = []string{"", " ", "\x00", "\xff\xfe", "=", "========", "A", "MZXW6YTBOI======", "mzxw6ytboi", "%zz", "otpauth://totp/a:b?secret=x&digits=-1", "otpauth://totp/%zz",
	"otpauth://hotp/a:b?digits=99999999999999999999", "otpauth://TOTP/x?period=0", "://", "OCRA-1:HOTP-SHA1-6:QN08", "OCRA-1:HOTP-SHA1-6:", "OCRA-1::", "::", "OCRA-1:HOTP-SHA1-:QN08",
	"OCRA-1:HOTP-SHA1-99999999999999999999:QN08", "OCRA-1:HOTP-SHA:QN08", "OCRA-1:HOTP-SHA1-6:T", "OCRA-1:HOTP-SHA1-6:TS", "OCRA-1:HOTP-SHA1-6:QN08-T9223372036854775807H", "OCRA-1:HOTP-SHA1-6:QN",
	"HOTP-", "OCRA-1:HOTP", "OCRA-1:hotp-sha1-6:qn08-psha1-s064-t1m", "-1", "+1", "18446744073709551615", "18446744073709551616", "0x10", "1e3", "ffff", "FFFFFFFFFFFFFFFF", "fffffffffffffffff", "zz", "0",
	"123456", "12345678", "6", "8", "10", "SHA1", "SHA256", "SHA512", "sha1", "MD5", "ſſſſſſſſ"}

// urlRelations: otpauth URLs in which the label and the issuer parameter stand in every simple relation to each other
// (equal, one a prefix of the other, the label with and without its colon and account part, empty parts): code that compares
// the label with the issuer indexes one by the length of the other.
var urlRelations = func() []string {
	var out []string
	labels := []string{"Example", "Example:", ":Example", "Example:alice", "Exam", "Example:alice:bob", "", "Example%3Aalice", "Example%3A", "E", "Examplealice"}
	issuers := []string{"Example", "Example:", "Exam", "Examplex", "Example:alice", "", "E", "example", "Example%3A", "alice"}
	for _, typ := range []string{"totp", "hotp"} {
		for _, l := range labels {
			for _, is := range issuers {
				out = append(out, "otpauth://"+typ+"/"+l+"?secret=JBSWY3DPEHPK3PXP&issuer="+is)
				out = append(out, "otpauth://"+typ+"/"+l+"?issuer="+is+"&secret=JBSWY3DPEHPK3PXP&digits=6&period=30&algorithm=SHA1")
			}
			out = append(out, "otpauth://"+typ+"/"+l+"?secret=JBSWY3DPEHPK3PXP")
		}
	}
	return out
}()

func drawStr(t *rapid.T, label string) ([]byte, bool) {
	switch rapid.IntRange(0, 13).Draw(t, label+"K") {
	case 13: // a suite string the parser takes, made long by what it tolerates (repeated data-input tokens, a fourth ':' part of
		// any text): lengths around 64, 128, 256, 1024 — tables, memos and fixed buffers keyed by the text have limits there
		base := grammarSuite(t)
		target := rapid.SampledFrom([]int{60, 64, 65, 66, 100, 127, 128, 129, 200, 255, 256, 257, 300, 1023, 1025, 5000}).Draw(t, label+"LT")
		switch rapid.IntRange(0, 2).Draw(t, label+"LK") {
		case 0: // repeat the first data-input token
			i := strings.LastIndex(base, ":") + 1
			tok := base[i:]
			if j := strings.Index(tok, "-"); j >= 0 {
				tok = tok[:j]
			}
			for len(base) < target {
				base = base[:i] + tok + "-" + base[i:]
			}
		case 1: // repeat the last token
			tok := base[strings.LastIndexAny(base, ":-")+1:]
			for len(base) < target {
				base += "-" + tok
			}
		default: // a fourth part
			fill := rapid.SampledFrom([]string{"x", "100%", "-S064", ":", "\u00e9", " "}).Draw(t, label+"LF")
			base += ":"
			for len(base) < target {
				base += fill
			}
		}
		return []byte(base), true
	case 10, 11: // text of multi-byte characters whose byte length and character count lie on different sides of a limit
		// (16..1024): code that tests len(s) and then cuts []rune(s), or the reverse, loses step exactly there;
		// alone (kind 10) or in place of one token of a suite string / URL (kind 11)
		unit := rapid.SampledFrom([]string{"\u00e9", "\u00df", "\u65e5", "\U0001F511", "a\u00e9", "\u65e5\u672c"}).Draw(t, label+"MU")
		n := rapid.IntRange(1, 140).Draw(t, label+"MN")
		if rapid.Bool().Draw(t, label+"MB") { // just past a power of two in bytes
			lim := rapid.SampledFrom([]int{16, 32, 64, 128, 256, 512, 1024}).Draw(t, label+"ML")
			n = lim/len(unit) + rapid.IntRange(0, 3).Draw(t, label+"MD")
		}
		junk := strings.Repeat("x", rapid.IntRange(0, 40).Draw(t, label+"MX")) + strings.Repeat(unit, n)
		if rapid.IntRange(10, 11).Draw(t, label+"MK") == 10 {
			return []byte(junk), true
		}
		base := rapid.SampledFrom([]string{"OCRA-1:HOTP-SHA1-6:QN08", "OCRA-1:HOTP-SHA256-8:C-QN08-PSHA1-S064-T1M", "otpauth://totp/ACME:alice?secret=JBSWY3DPEHPK3PXP&digits=6&algorithm=SHA1&period=30", "12345678"}).Draw(t, label+"MS")
		toks := strings.FieldsFunc(base, func(r rune) bool { return strings.ContainsRune(":-/?&=", r) })
		tok := rapid.SampledFrom(toks).Draw(t, label+"MT")
		return []byte(strings.Replace(base, tok, junk, 1)), true
	case 12: // a well-formed suite string or URL in which one number is replaced by a value that aliases an admissible one
		// when it is narrowed to 8, 16 or 32 bits (6 + 256 = 262 digits), or spelt with a sign / leading zeros
		base := rapid.SampledFrom([]string{"OCRA-1:HOTP-SHA1-6:QN08", "OCRA-1:HOTP-SHA256-8:C-QN08-PSHA1-S064-T1M", "OCRA-1:HOTP-SHA512-10:QH64-T30S", "OCRA-1:HOTP-SHA1-4:QA10-S128",
			"otpauth://totp/ACME:alice?secret=JBSWY3DPEHPK3PXP&digits=6&algorithm=SHA1&period=30", "otpauth://hotp/ACME:alice?secret=JBSWY3DPEHPK3PXP&digits=8&algorithm=SHA256&counter=5"}).Draw(t, label+"AB")
		var spans [][2]int // digit runs
		for i := 0; i < len(base); {
			if base[i] >= '0' && base[i] <= '9' {
				j := i
				for j < len(base) && base[j] >= '0' && base[j] <= '9' {
					j++
				}
				spans = append(spans, [2]int{i, j})
				i = j
			} else {
				i++
			}
		}
		sp := rapid.SampledFrom(spans).Draw(t, label+"AS")
		var v uint64
		fmt.Sscan(base[sp[0]:sp[1]], &v)
		var repl string
		switch rapid.IntRange(0, 6).Draw(t, label+"AK") {
		case 6: // a count of zero (T0M: zero minutes), with signs and leading zeros, and the edges of the RFC ranges
			repl = rapid.SampledFrom([]string{"0", "00", "+0", "-0", "000", "1", "59", "60", "48", "49", "99"}).Draw(t, label+"AZ")
		case 0:
			repl = fmt.Sprint(v + 1<<8*uint64(rapid.IntRange(1, 3).Draw(t, label+"AM")))
		case 1:
			repl = fmt.Sprint(v + 1<<16)
		case 2:
			repl = fmt.Sprint(v + 1<<32)
		case 3:
			repl = "18446744073709551616"[:20-len(fmt.Sprint(v))] + fmt.Sprint(v) // v + 2^64-ish: 20 digits ending in v
		case 4:
			repl = rapid.SampledFrom([]string{"+", "-", "0", "00", "0x", " "}).Draw(t, label+"AP") + fmt.Sprint(v)
		default:
			repl = fmt.Sprint(int64(v) - 256)
		}
		return []byte(base[:sp[0]] + repl + base[sp[1]:]), true
	case 0, 1, 2, 3:
		if rapid.IntRange(0, 3).Draw(t, label+"HR") == 0 {
			return []byte(rapid.SampledFrom(urlRelations).Draw(t, label+"HU")), true
		}
		return []byte(rapid.SampledFrom(hostileStrings).Draw(t, label+"H")), true
	case 4:
		return rapid.SliceOfN(rapid.Byte(), 0, 40).Draw(t, label+"R"), true
	case 5:
		return []byte(rapid.StringN(0, 30, 90).Draw(t, label+"U")), true
	case 6: // huge
		n := rapid.SampledFrom([]int{255, 256, 257, 4096, 65536}).Draw(t, label+"N")
		ch := rapid.SampledFrom([]string{"A", "7", "0", "9", "f", "=", "%", ":", "-", "\xff"}).Draw(t, label+"C")
		return []byte(strings.Repeat(ch, n)), true
	case 7: // decimal / hex digits
		n := rapid.IntRange(0, 330).Draw(t, label+"DL")
		ch := rapid.SampledFrom([]string{"0123456789", "0123456789abcdefABCDEF", "01"}).Draw(t, label+"DA")
		b := make([]byte, n)
		for i := range b {
			b[i] = ch[rapid.IntRange(0, len(ch)-1).Draw(t, label+"D")]
		}
		return b, n > 20
	case 8: // a suite string with one token damaged by invalid UTF-8 / odd bytes (case folding and slicing disagree on such text)
		base := rapid.SampledFrom([]string{"OCRA-1:HOTP-SHA1-6:S", "OCRA-1:HOTP-SHA1-6:QN08-S064", "OCRA-1:HOTP-SHA256-8:C-QN08-PSHA1-S-T1M", "OCRA-1:HOTP-SHA1-6:QN08", "OCRA-1:HOTP-SHA1-6:C-T30S"}).Draw(t, label+"SB")
		junk := rapid.SampledFrom([]string{"\xff", "\xff\xfe", "\xc3", "\xe6\x97", "\x00", "\u00e9", "\u017f", "\u212a", "\ufffd"}).Draw(t, label+"SJ")
		k := rapid.IntRange(0, len(base)).Draw(t, label+"SP")
		if rapid.Bool().Draw(t, label+"SR") && k < len(base) {
			return []byte(base[:k] + junk + base[k+1:]), true
		}
		return []byte(base[:k] + junk + base[k:]), true
	default: // a valid base32 secret, in a third of the cases of a length around the HMAC block sizes
		if rapid.IntRange(0, 2).Draw(t, label+"SL") == 0 {
			return []byte(ref.B32(gen.Key().Draw(t, label+"SK"))), false
		}
		return []byte(ref.B32(rapid.SliceOfN(rapid.Byte(), 1, 40).Draw(t, label+"S"))), false
	}
}

func drawC10(t *rapid.T) c10Case {
	c := c10Case{Op: rapid.SampledFrom(c10Ops).Draw(t, "op")}
	h := false
	for i := range c.S {
		var hh bool
		c.S[i], hh = drawStr(t, fmt.Sprintf("s%d", i))
		h = h || hh
	}
	for i := range c.B {
		switch rapid.IntRange(0, 5).Draw(t, fmt.Sprintf("b%dK", i)) {
		case 0:
			c.BNil[i] = true
			h = true
		case 1:
			c.B[i] = []byte{}
			h = true
		case 2:
			c.B[i] = make([]byte, rapid.SampledFrom([]int{8, 20, 32, 64, 128}).Draw(t, fmt.Sprintf("b%dG", i)))
		case 3:
			c.B[i] = make([]byte, rapid.SampledFrom([]int{1, 7, 9, 19, 21, 127, 129, 255, 257, 65536}).Draw(t, fmt.Sprintf("b%dB", i)))
			h = true
		default:
			c.B[i] = rapid.SliceOfN(rapid.Byte(), 0, 200).Draw(t, fmt.Sprintf("b%d", i))
		}
	}
	u64 := func(label string) uint64 {
		if rapid.IntRange(0, 5).Draw(t, label+"W") == 0 {
			// a value whose product with a unit constant (ns per s, ms per s, s per min ...) wraps around 2^64 or 2^63 into a
			// small number: ceil(k * 2^64 / unit) + j
			unit := rapid.SampledFrom([]uint64{1_000_000_000, 1_000_000, 1_000, 60, 3600, 30, 30_000_000_000, 86_400}).Draw(t, label+"WU")
			k := uint64(rapid.IntRange(1, 6).Draw(t, label+"WK"))
			top := new(big.Int).Lsh(big.NewInt(1), uint(rapid.SampledFrom([]int{64, 63}).Draw(t, label+"WB")))
			v := new(big.Int).Mul(top, new(big.Int).SetUint64(k))
			v.Add(v, new(big.Int).SetUint64(unit-1)).Div(v, new(big.Int).SetUint64(unit))
			return v.Uint64() + uint64(rapid.IntRange(0, 2).Draw(t, label+"WJ"))
		}
		if rapid.Bool().Draw(t, label+"K") {
			return rapid.SampledFrom([]uint64{0, 1, 2, 10, 11, 29, 30, 31, 1<<31 - 1, 1 << 31, 1<<32 - 1, 1 << 32, 1<<63 - 1, 1 << 63, 1<<64 - 1}).Draw(t, label+"B")
		}
		return rapid.Uint64().Draw(t, label)
	}
	c.U = u64("u")
	c.Period = u64("period")
	c.Skew = u64("skew")
	switch rapid.IntRange(0, 3).Draw(t, "skewMode") {
	case 0, 1:
		c.Skew = uint64(rapid.IntRange(0, 12).Draw(t, "skewS"))
	case 2:
		c.Skew = gen.RefusedSkew(t)
	}
	c.Digits = rapid.IntRange(0, 255).Draw(t, "digits")
	if rapid.Bool().Draw(t, "digitsNear") {
		c.Digits = rapid.IntRange(0, 12).Draw(t, "digitsN")
	}
	c.Algo = rapid.IntRange(0, 255).Draw(t, "algo")
	if rapid.Bool().Draw(t, "algoNear") {
		c.Algo = rapid.IntRange(0, 4).Draw(t, "algoN")
	}
	h = h || c.Digits < 1 || c.Digits > 10 || c.Algo > 2 || c.Period == 0 || c.Skew > 10
	c.Unix = rapid.SampledFrom([]int64{0, -1, 1, -62135596800, -62135596801, 253402300799, 9223372036, 9223372037, 1 << 62, -(1 << 62), 1<<63 - 1, -(1 << 63), 1700000000}).Draw(t, "unix")
	if rapid.Bool().Draw(t, "unixAny") {
		c.Unix = rapid.Int64().Draw(t, "unixR")
	}
	c.Nsec = rapid.SampledFrom([]int64{0, 1, 999999999, -1, 1 << 40, -(1 << 40), 1<<63 - 1}).Draw(t, "nsec")
	c.Width = rapid.SampledFrom([]int{0, 1, 2, 15, 16, 17, 256, 1 << 20}).Draw(t, "width")
	if rapid.Bool().Draw(t, "widthAny") {
		c.Width = rapid.IntRange(0, 1<<20).Draw(t, "widthR")
	}
	ii := func(label string) int {
		if rapid.IntRange(0, 3).Draw(t, label+"Alias") == 0 {
			// an admissible small value plus or minus a multiple of 2^8 / 2^16 / 2^32: equal to it after a narrowing conversion
			v := rapid.IntRange(0, 11).Draw(t, label+"AV")
			w := rapid.SampledFrom([]int{1 << 8, 2 << 8, 1 << 16, 1 << 32, -(1 << 8), -(1 << 32)}).Draw(t, label+"AW")
			return v + w
		}
		return rapid.SampledFrom([]int{-1 << 63, -1 << 31, -2, -1, 0, 1, 2, 3, 4, 5, 6, 7, 8, 9, 10, 11, 12, 60, 255, 256, 1 << 31, 1<<63 - 1}).Draw(t, label)
	}
	mask := rapid.IntRange(0, 31).Draw(t, "fields")
	c.Cfg = ref.OCRACfg{Raw: string(c.S[3]), Hash: rapid.SampledFrom([]int{0, 1, 2, 3, 4, 200, 255}).Draw(t, "cfgHash"), Digits: ii("cfgDigits"),
		C: mask&1 != 0, Q: mask&2 != 0, P: mask&4 != 0, S: mask&8 != 0, T: mask&16 != 0, QFormat: ii("cfgQ"), PHash: ii("cfgP"), TimeStep: ii("cfgT"), SessionNN: -1}
	switch rapid.IntRange(0, 3).Draw(t, "cfgMode") {
	case 0: // everything arbitrary
		h = true
	case 1: // usable configuration
		c.Cfg.Hash, c.Cfg.Digits, c.Cfg.QFormat, c.Cfg.PHash, c.Cfg.TimeStep = c.Algo%3, 4+c.Digits%7, 1+c.Digits%6, 1+c.Algo%3, 1
	default:
		// usable configuration with admissible inputs, then ONE hostile ingredient: an enum value outside
		// its range that the suite check lets through, or one byte field of an odd / huge length
		c.Cfg.Hash, c.Cfg.Digits, c.Cfg.QFormat, c.Cfg.PHash, c.Cfg.TimeStep = c.Algo%3, 4+c.Digits%7, 1+c.Digits%6, 1+c.Algo%3, 1
		c.BNil = [5]bool{}
		c.B[0], c.B[4] = make([]byte, 8), make([]byte, 8)
		c.B[1] = make([]byte, rapid.IntRange(ref.QMin(c.Cfg.QFormat), 128).Draw(t, "okQ"))
		c.B[2] = make([]byte, ref.PLen(c.Cfg.PHash))
		c.B[3] = make([]byte, rapid.IntRange(0, 128).Draw(t, "okS"))
		if !utf8.ValidString(c.Cfg.Raw) || rapid.Bool().Draw(t, "plainRaw") {
			c.Cfg.Raw = rapid.SampledFrom([]string{"OCRA-1:HOTP-SHA1-6:QN08", "", strings.Repeat("r", 250), strings.Repeat("r", 400)}).Draw(t, "rawPick")
		}
		odd := []int{0, 1, 7, 9, 19, 21, 33, 63, 65, 100, 127, 129, 200, 255, 257, 1000, 65536}
		switch rapid.IntRange(0, 5).Draw(t, "ingredient") {
		case 0:
			c.Cfg.PHash = rapid.SampledFrom([]int{4, 5, 255, -1, 1 << 31, -1 << 63}).Draw(t, "oddPHash")
			c.B[2] = make([]byte, rapid.SampledFrom(odd[1:]).Draw(t, "pLen"))
		case 1:
			c.Cfg.QFormat = rapid.SampledFrom([]int{7, 8, 255, -1, 1 << 31, -1 << 63}).Draw(t, "oddQFormat")
			c.B[1] = make([]byte, rapid.SampledFrom(odd).Draw(t, "qLen"))
		case 2:
			c.Cfg.TimeStep = rapid.SampledFrom([]int{1<<63 - 1, 1 << 31, 3600}).Draw(t, "oddStep")
		case 3:
			k := rapid.IntRange(0, 4).Draw(t, "oddField")
			c.B[k] = make([]byte, rapid.SampledFrom(odd).Draw(t, "oddLen"))
		case 4:
			c.BNil[rapid.IntRange(0, 4).Draw(t, "nilField")] = true
		default:
			c.Cfg.Digits = rapid.SampledFrom([]int{4, 10}).Draw(t, "edgeDigits")
		}
		h = true
	}
	c.SuiteBy = rapid.IntRange(0, 3).Draw(t, "suiteBy")
	if rapid.IntRange(0, 5).Draw(t, "deepSuite") == 0 {
		// deep case: a well-formed suite STRING (session token S, S000 .. S999), a valid secret and admissible fields, so that
		// the derivation itself runs — with the session information at any length 0..140 (longer or shorter than the nnn of
		// Snnn) and, in a third of the cases, one more field at an odd length
		name := grammarSuite(t)
		if i := strings.Index(name, "-S"); i >= 0 && !strings.HasPrefix(name[i:], "-SHA") {
			j := i + 2
			for j < len(name) && name[j] >= '0' && name[j] <= '9' {
				j++
			}
			name = name[:i] + "-S" + rapid.SampledFrom([]string{"", "000", "001", "008", "020", "064", "100", "127", "128", "129", "512", "999"}).Draw(t, "deepSnnn") + name[j:]
		}
		rd, _ := ref.ReadSuite(name, false)
		c.S[4], c.SuiteBy = []byte(name), 2
		if rapid.IntRange(0, 3).Draw(t, "deepSecret") != 0 {
			c.S[0] = []byte(validSecret)
		}
		c.BNil = [5]bool{}
		c.B[0], c.B[4] = make([]byte, 8), make([]byte, 8)
		c.B[1] = make([]byte, rapid.IntRange(ref.QMin(rd.Cfg.QFormat), 128).Draw(t, "deepQ"))
		c.B[2] = make([]byte, ref.PLen(maxI(rd.Cfg.PHash, 1)))
		c.B[3] = make([]byte, rapid.IntRange(0, 140).Draw(t, "deepS"))
		if rapid.IntRange(0, 2).Draw(t, "deepOdd") == 0 {
			c.B[rapid.IntRange(0, 4).Draw(t, "deepOddField")] = make([]byte, rapid.SampledFrom([]int{0, 1, 7, 9, 19, 21, 63, 65, 127, 129, 255, 1000}).Draw(t, "deepOddLen"))
		}
		c.Cfg.Digits = rd.Cfg.Digits // the code submitted by the ValidateOCRA operation has the suite's length
		h = true
	}
	c.NilP = rapid.IntRange(0, 7).Draw(t, "nilP") == 0
	c.URLKind = rapid.IntRange(0, 4).Draw(t, "urlKind")
	c.Hostile = h
	return c
}

func TestC10_Main(t *testing.T) {
	// valid secrets of every boundary key length under every hash through the five keyed operations, enumerated: code that
	// treats keys by length (block sizes 64 / 128, digest sizes 20 / 32 / 64) indexes or slices wrongly at a few lengths only,
	// and the random cases met SHA-1 with a 65..128-byte key at two seeds of three (C10-r7b)
	i := 0
	for _, n := range []int{0, 1, 19, 20, 21, 31, 32, 33, 63, 64, 65, 66, 100, 127, 128, 129, 130, 200, 255, 256, 257, 1024} {
		key := make([]byte, n)
		for k := range key {
			key[k] = byte(k*13 + n)
		}
		for algo := 0; algo < 3; algo++ {
			for _, op := range []string{"GenerateHOTP", "ValidateHOTP", "GenerateTOTP", "ValidateTOTP", "GenerateOCRA", "ValidateOCRA"} {
				if i++; !ev.Mine(i) {
					continue
				}
				c := c10Case{Op: op, U: 1, Digits: 6, Algo: algo, Period: 30, Skew: 1, Unix: 59}
				c.S[0], c.S[1] = []byte(ref.B32(key)), []byte("123456")
				c.Cfg = ref.OCRACfg{Raw: "OCRA-1:HOTP-SHA1-6:QN08", Hash: algo, Digits: 6, Q: true}
				c.B[1] = []byte("12345678")
				c10Main.each(t, c)
			}
		}
	}
	c10Main.rapid(t, ev.Pick(60_000, 600_000), drawC10)
}

// ---------------------------------------------------------------------------
// Damaged texts, enumerated: every text-taking operation x well-formed base texts x every position x a set of junk
// (invalid UTF-8, lone continuation bytes, NUL, letters that case-fold to ASCII, U+FFFD, a flipped bit) x {replace, insert}.
// Code that folds case and slices by index, or walks runes and indexes bytes, loses step on exactly such texts; the random
// generator reaches a particular (token, byte) combination only now and then, the product reaches all of them.

type c10DmgCase struct {
	Op   string `json:"op"`
	Text []byte `json:"text"`
}

var c10DmgOps = map[string][]string{
	"NewRawSuite":     {"OCRA-1:HOTP-SHA1-6:S", "OCRA-1:HOTP-SHA1-6:QN08-S064", "OCRA-1:HOTP-SHA256-8:C-QN08-PSHA1-S-T1M", "OCRA-1:HOTP-SHA512-10:QH10-T48H", "OCRA-1:HOTP-SHA1-6:C-T30S"},
	"ParseOTPAuthURL": {"otpauth://totp/ACME:bob?secret=JBSWY3DPEHPK3PXP&issuer=ACME&digits=6&period=30&algorithm=SHA1", "otpauth://hotp/A%3Ab?secret=ME&counter=5"},
	"DecodeSecret":    {"JBSWY3DPEHPK3PXP", "mzxw6ytb", " MZXW6=== \n", "ME======"},
	"helpers":         {"12345678", "0000000000000001", "ffffffffffffffff", "18446744073709551615"},
	"enums":           {"SHA256", "10"},
}

var c10Junk = []string{"\xff", "\xff\xfe", "\xc3", "\xe6\x97", "\x80", "\x00", "é", "ſ", "K", "ı", "�", "\U0001F600", "\r", "\x11", "%", "%zz", "="}

func checkC10Dmg(c c10DmgCase) verdict {
	s := string(c.Text)
	switch c.Op {
	case "NewRawSuite":
		if su, err := otp.NewRawSuite(s); err == nil && su != nil {
			_ = su.Config()
			_ = su.String()
			_ = su.Validate()
			otp.GenerateOCRA("ME", su, otp.OCRAInput{Challenge: []byte("12345678"), Counter: make([]byte, 8), Timestamp: make([]byte, 8), Password: make([]byte, 20)})
		}
		otp.IsKnownSuite(s)
		otp.SuiteConfigFromRaws(s)
	case "ParseOTPAuthURL":
		if u, err := url.Parse(s); err == nil && u != nil {
			otp.ParseOTPAuthURL(u)
		}
	case "DecodeSecret":
		otp.DecodeSecret(s)
		otp.GenerateHOTP(s, 1, nil)
		otp.ValidateTOTP(s, "123456", time.Unix(59, 0), nil)
	case "helpers":
		otp.ParseDecimalToBigEndian8(s)
		otp.ParseDecimal64BigEndian(s)
		otp.ParseDecimalChallengeRFC6287(s)
		otp.ParseHexTimestamp(s)
		otp.HexInputToOCRA(s, s, s, s, s)
		otp.LeftPadHex(s, 16)
	default:
		otp.AlgorithmFromStr(s)
		otp.DigitsFromStr(s)
	}
	return ok(true, "op="+c.Op)
}

var c10Dmg = newPart("C10", "damaged-texts",
	"complete product: NewRawSuite (+ use of the result) / IsKnownSuite / SuiteConfigFromRaws, ParseOTPAuthURL, DecodeSecret and two entry points, the numeric / hex helpers, the enum conversions x 17 well-formed base texts x every byte position x 17 kinds of junk (invalid UTF-8, lone continuation bytes, NUL, CR, letters that case-fold to ASCII, U+FFFD, an emoji, a control byte in the digit range, %, %zz, =) x {replace, insert}; oracle: no panic (each call under the part's recover) and no hang; every case distinct and non-trivial",
	checkC10Dmg)

func TestC10_DamagedTexts(t *testing.T) {
	defer c10Dmg.rec().Flush()
	i := 0
	ops := []string{"NewRawSuite", "ParseOTPAuthURL", "DecodeSecret", "helpers", "enums"}
	for _, op := range ops {
		for _, base := range c10DmgOps[op] {
			for k := 0; k <= len(base); k++ {
				for _, j := range c10Junk {
					for _, replace := range []bool{false, true} {
						if replace && k == len(base) {
							continue
						}
						i++
						if !ev.Mine(i) {
							continue
						}
						text := base[:k] + j + base[k:]
						if replace {
							text = base[:k] + j + base[k+1:]
						}
						c10Dmg.each(t, c10DmgCase{Op: op, Text: []byte(text)})
					}
				}
			}
		}
	}
	// otpauth URLs whose label and issuer parameter stand in every simple relation to each other (see urlRelations)
	for _, u := range urlRelations {
		i++
		if ev.Mine(i) {
			c10Dmg.each(t, c10DmgCase{Op: "ParseOTPAuthURL", Text: []byte(u)})
		}
	}
	c10Dmg.rec().Exhaustive()
}

// ---------------------------------------------------------------------------
// Numbers that alias admissible ones, enumerated. Every run of digits in the well-formed base texts (suite strings, URLs)
// is replaced by v + k (k = 2^8, 2 x 2^8, 2^16, 2^32, and 20 digits ending in v), v - 2^8, and v with a sign or leading
// zeros; hand-built configurations get the same values in every integer field. A range check made on a narrower type
// than the value it guards lets exactly these through to a table index or a slice bound.

var c10Alias = newPart("C10", "alias-numbers",
	"complete product: every run of digits in 9 well-formed suite strings / URLs x {v+256, v+512, v+65536, v+2^32, 20 digits ending in v, v-256, +v, -v, 0v, 00v, and the small values 0, 00, +0, -0, 1, 59, 60, 99 (a count of zero units, the edges of the RFC ranges)} through NewRawSuite (+ use of the result) / ParseOTPAuthURL, and hand-built configurations with digits / hash / challenge format / password hash / time step at v + {2^8, 2^9, 2^16, 2^32} and v - 2^8 (v over the admissible values) through Validate, NewSuite, GenerateOCRA and ValidateOCRA with admissible inputs and a code of the suite's length; oracle: no panic, no hang; every case distinct and non-trivial",
	checkC10Dmg)

type c10AliasCfgCase struct {
	Cfg ref.OCRACfg `json:"cfg"`
}

var c10AliasCfg = newPart("C10", "alias-configurations",
	"see alias-numbers: the hand-built configurations",
	func(c c10AliasCfgCase) verdict {
		lc := toLib(c.Cfg)
		_ = lc.Validate()
		otp.NewSuite(lc)
		in := otp.OCRAInput{Counter: make([]byte, 8), Challenge: []byte("1234567890"), Password: make([]byte, 20), SessionInfo: []byte("s"), Timestamp: make([]byte, 8)}
		otp.GenerateOCRA("MFRGGZDFMZTWQ2LK", lc, in)
		otp.GenerateOCRA("MFRGGZDFMZTWQ2LK", otp.RawSuite{SuiteConfig: lc}, in)
		for _, n := range []int{6, 10} {
			otp.ValidateOCRA("MFRGGZDFMZTWQ2LK", "0000000000"[:n], lc, in)
		}
		_ = in.Validate(lc)
		return ok(true)
	})

func TestC10_AliasNumbers(t *testing.T) {
	defer c10Alias.rec().Flush()
	defer c10AliasCfg.rec().Flush()
	bases := map[string][]string{
		"NewRawSuite": {"OCRA-1:HOTP-SHA1-6:QN08", "OCRA-1:HOTP-SHA256-8:C-QN08-PSHA1-S064-T1M", "OCRA-1:HOTP-SHA512-10:QH64-T30S", "OCRA-1:HOTP-SHA1-4:QA10-S128-T48H", "OCRA-1:HOTP-SHA1-6:C-QN08-PSHA512"},
		"ParseOTPAuthURL": {"otpauth://totp/ACME:alice?secret=JBSWY3DPEHPK3PXP&digits=6&algorithm=SHA1&period=30", "otpauth://hotp/ACME:alice?secret=JBSWY3DPEHPK3PXP&digits=8&algorithm=SHA256&counter=5",
			"otpauth://totp/ACME:alice?secret=JBSWY3DPEHPK3PXP&digits=10&algorithm=SHA512&period=1", "otpauth://totp/a:b?secret=ME&period=3600&digits=1"},
	}
	i := 0
	for _, op := range []string{"NewRawSuite", "ParseOTPAuthURL"} {
		for _, base := range bases[op] {
			for a := 0; a < len(base); {
				if base[a] < '0' || base[a] > '9' {
					a++
					continue
				}
				b := a
				for b < len(base) && base[b] >= '0' && base[b] <= '9' {
					b++
				}
				var v uint64
				fmt.Sscan(base[a:b], &v)
				vs := fmt.Sprint(v)
				repl := []string{fmt.Sprint(v + 256), fmt.Sprint(v + 512), fmt.Sprint(v + 65536), fmt.Sprint(v + 1<<32), "18446744073709551616"[:20-len(vs)] + vs,
					fmt.Sprint(int64(v) - 256), "+" + vs, "-" + vs, "0" + vs, "00" + vs, "0", "00", "+0", "-0", "1", "59", "60", "99"}
				for _, r := range repl {
					i++
					if ev.Mine(i) {
						c10Alias.each(t, c10DmgCase{Op: op, Text: []byte(base[:a] + r + base[b:])})
					}
				}
				a = b
			}
		}
	}
	c10Alias.rec().Exhaustive()
	// hand-built configurations
	off := []int{1 << 8, 1 << 9, 1 << 16, 1 << 32, -(1 << 8)}
	usable := ref.OCRACfg{Raw: "x", Hash: 0, Digits: 6, C: true, Q: true, P: true, S: true, T: true, QFormat: 1, PHash: 1, TimeStep: 30, SessionNN: -1}
	for _, o := range off {
		for d := 4; d <= 10; d++ {
			c := usable
			c.Digits = d + o
			i++
			if ev.Mine(i) {
				c10AliasCfg.each(t, c10AliasCfgCase{Cfg: c})
			}
		}
		for h := 0; h <= 2; h++ {
			c := usable
			c.Hash = h + o
			i++
			if ev.Mine(i) {
				c10AliasCfg.each(t, c10AliasCfgCase{Cfg: c})
			}
		}
		for q := 1; q <= 6; q++ {
			c := usable
			c.QFormat = q + o
			i++
			if ev.Mine(i) {
				c10AliasCfg.each(t, c10AliasCfgCase{Cfg: c})
			}
		}
		for p := 1; p <= 3; p++ {
			c := usable
			c.PHash = p + o
			i++
			if ev.Mine(i) {
				c10AliasCfg.each(t, c10AliasCfgCase{Cfg: c})
			}
		}
		c := usable
		c.TimeStep = 30 + o
		i++
		if ev.Mine(i) {
			c10AliasCfg.each(t, c10AliasCfgCase{Cfg: c})
		}
	}
	c10AliasCfg.rec().Exhaustive()
}
