module verifh

go 1.24

require (
	early.verif v0.0.0
	github.com/ja7ad/otp v0.0.0-00010101000000-000000000000
	pgregory.net/rapid v1.3.0
)

replace github.com/ja7ad/otp => /repo

replace early.verif => ./early
