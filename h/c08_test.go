package verifh

import (
	"bytes"
	"crypto/rand"
	"crypto/sha256"
	"encoding/binary"
	"fmt"
	"sort"
	"strings"
	"sync"
	"testing"

	"early.verif"
	otp "github.com/ja7ad/otp"
	"pgregory.net/rapid"

	"verifh/ev"
	"verifh/ref"
)

// ---------------------------------------------------------------------------
// C08 — random secrets are full-length CSPRNG output, base32 without padding.

// stream is an endless deterministic byte stream (SHA-256 in counter mode over a
// seed, or a constant) standing in for the operating system's random source.
type stream struct {
	mu    sync.Mutex
	seed  uint64
	konst int // -1: PRF stream; 0..255: constant stream of that byte
	chunk int // max bytes handed out per Read (short reads); 0 = unlimited
	cur   int
	reads [][2]int // (offset, n) per Read call
}

func (s *stream) at(off, n int) []byte {
	out := make([]byte, n)
	if s.konst >= 0 {
		for i := range out {
			out[i] = byte(s.konst)
		}
		return out
	}
	for i := 0; i < n; i++ {
		blk := (off + i) / 32
		var in [16]byte
		binary.LittleEndian.PutUint64(in[:8], s.seed)
		binary.LittleEndian.PutUint64(in[8:], uint64(blk))
		h := sha256.Sum256(in[:])
		out[i] = h[(off+i)%32]
	}
	return out
}

func (s *stream) Read(p []byte) (int, error) {
	s.mu.Lock()
	defer s.mu.Unlock()
	n := len(p)
	if s.chunk > 0 && n > s.chunk {
		n = s.chunk
	}
	copy(p, s.at(s.cur, n))
	s.reads = append(s.reads, [2]int{s.cur, n})
	s.cur += n
	return n, nil
}

type c08Case struct {
	Seed  uint64 `json:"seed"`
	Konst int    `json:"konst"`
	Chunk int    `json:"chunk"`
	Ops   []int  `json:"ops"` // algorithm enum value of each call, 0..255
}

func sizeOf(algo int) int {
	switch algo {
	case 0:
		return 20
	case 1:
		return 32
	case 2:
		return 64
	}
	return -1
}

var randMu sync.Mutex

func withReader(r *stream, f func()) {
	randMu.Lock()
	defer randMu.Unlock()
	// crypto/rand.Reader has been a switchable stand-in since before the library was initialised (package early.verif), so
	// a library that copied the variable at start-up reads the recorded stream too; the variable itself is set as well, for
	// the case that something replaced it in the meantime
	restore := early.Use(r)
	defer restore()
	old := rand.Reader
	rand.Reader = r
	defer func() { rand.Reader = old }()
	f()
}

func checkC08(c c08Case) (v verdict) {
	st := &stream{seed: c.Seed, konst: c.Konst, chunk: c.Chunk}
	sizes := map[int]bool{}
	unsupportedBetween, otherOps := false, false
	succ := 0
	var outs [][2]string
	v = ok(false)
	withReader(st, func() {
		model := 0
		for i, a := range c.Ops {
			if a >= 256 {
				// another exported operation between the RandomSecret calls (kind = a>>8, algorithm value = a&255): none of them
				// may change what RandomSecret does afterwards; if one of them hands out a freshly generated secret itself (a URL
				// builder that fills in an empty secret), that secret is "produced by random-secret generation" too
				kind, al := a>>8, a&255
				switch kind {
				case 1:
					_ = otp.Algorithm(al).String()
					_ = fmt.Sprintf("%v %s %d %#v", otp.Algorithm(al), otp.Algorithm(al), otp.Algorithm(al), otp.Algorithm(al))
					otp.AlgorithmFromStr(otp.Algorithm(al).String())
				case 2, 3:
					up := otp.URLParam{Issuer: "Iss", AccountName: "acc", Secret: "", Algorithm: otp.Algorithm(al)}
					u, err := otp.GenerateTOTPURL(up)
					if kind == 3 {
						u, err = otp.GenerateHOTPURL(up)
					}
					sec := ""
					if err == nil && u != nil {
						sec = u.Query().Get("secret")
					}
					if sec == "" {
						if st.cur != model {
							v = bad(true, []string{"url-empty-secret"}, "call %d: URL generation with an empty secret (algorithm %d) handed out no secret but consumed %d random bytes", i, al, st.cur-model)
							return
						}
						break
					}
					n := sizeOf(al)
					if n < 0 {
						v = bad(true, []string{"url-empty-secret"}, "call %d: URL generation with an empty secret and the unsupported hash %d produced the secret %q; want an error and no secret", i, al, sec)
						return
					}
					want := st.at(model, n)
					if back, derr := otp.DecodeSecret(sec); derr != nil || !bytes.Equal(back, want) || st.cur != model+n {
						v = bad(true, []string{"url-empty-secret"}, "call %d: URL generation filled the empty secret with %q (%d bytes, %d random bytes consumed); a generated secret for hash %d is the next %d bytes of the random source, %x", i, sec, len(back), st.cur-model, al, n, want)
						return
					}
					model += n
				default:
					otp.GenerateHOTPURL(otp.URLParam{Issuer: "Iss", AccountName: "acc", Secret: "JBSWY3DPEHPK3PXP", Algorithm: otp.Algorithm(al)})
					otp.GenerateHOTP("JBSWY3DPEHPK3PXP", 1, &otp.Param{Digits: 6, Algorithm: otp.Algorithm(al)})
				}
				otherOps = true
				continue
			}
			got, err := otp.RandomSecret(otp.Algorithm(a))
			n := sizeOf(a)
			if n < 0 {
				if err == nil || got != "" {
					v = bad(true, []string{"unsupported"}, "call %d: RandomSecret(%d) = %q, %v; want error and no secret", i, a, got, err)
					return
				}
				if st.cur != model {
					v = bad(true, []string{"unsupported"}, "call %d: RandomSecret(%d) failed but consumed %d random bytes", i, a, st.cur-model)
					return
				}
				if succ > 0 {
					unsupportedBetween = true
				}
				continue
			}
			want := st.at(model, n)
			if err != nil {
				v = bad(true, nil, "call %d: RandomSecret(%d) failed: %v", i, a, err)
				return
			}
			if got != ref.B32(want) {
				v = bad(true, nil, "call %d: RandomSecret(%d) = %q; the next %d bytes of the random source are %x = %q (stream offset %d)", i, a, got, n, want, ref.B32(want), model)
				return
			}
			if st.cur != model+n {
				v = bad(true, nil, "call %d: RandomSecret(%d) consumed %d bytes of the random source, want exactly %d", i, a, st.cur-model, n)
				return
			}
			if back, derr := otp.DecodeSecret(got); derr != nil || !bytes.Equal(back, want) {
				v = bad(true, nil, "call %d: DecodeSecret(RandomSecret) = %x, %v; want %x", i, back, derr, want)
				return
			}
			model += n
			sizes[n] = true
			succ++
			outs = append(outs, [2]string{got, strings.Clone(got)})
			// a secret handed out earlier must not change when later ones are produced
			for k, o := range outs {
				if o[0] != o[1] {
					v = bad(true, nil, "the secret returned by call %d changed after call %d: %q -> %q", k, i, o[1], o[0])
					return
				}
			}
		}
	})
	if v.Err != nil {
		return v
	}
	nt := (succ >= 2 && len(sizes) >= 2) || unsupportedBetween
	labels := []string{fmt.Sprintf("sizes=%d", len(sizes))}
	if c.Chunk > 0 {
		labels = append(labels, "short-reads")
	}
	if c.Konst >= 0 {
		labels = append(labels, "constant-stream")
	}
	if unsupportedBetween {
		labels = append(labels, "unsupported-between")
	}
	if otherOps {
		labels = append(labels, "other-operations-between")
	}
	return ok(nt || otherOps, labels...)
}

var c08Main = newPart("C08", "histories",
	"rapid: call histories of 1..24 RandomSecret calls with algorithm values 0..255 (biased to the three hashes), crypto/rand.Reader replaced by a recording endless stream (SHA-256 counter-mode PRF of a drawn seed, or a constant byte 0x00/0xff/other) delivered in full or in short reads of 1..7 bytes; model = stream cursor: k-th successful call returns exactly unpadded upper-case base32 of stream[cur:cur+20|32|64], consumes exactly that many bytes, DecodeSecret maps it back, and every secret returned earlier in the history is still unchanged; unsupported algorithm => error, no secret, nothing consumed; in between, other exported operations (rendering algorithm values, URL builders with and without a secret, HOTP) which must not change any of this — a secret a URL builder generates for an empty Secret is held to the same rule; non-trivial = >= 2 successful calls of different sizes or an unsupported call after a successful one",
	checkC08)

func genC08(t *rapid.T) c08Case {
	c := c08Case{Seed: rapid.Uint64().Draw(t, "seed"), Konst: -1}
	if rapid.IntRange(0, 4).Draw(t, "konstKind") == 0 {
		c.Konst = rapid.SampledFrom([]int{0, 255, 0x80, 0x7f, 1}).Draw(t, "konst")
	}
	if rapid.IntRange(0, 2).Draw(t, "chunkKind") == 0 {
		c.Chunk = rapid.IntRange(1, 7).Draw(t, "chunk")
	}
	c.Ops = rapid.SliceOfN(rapid.Custom(func(t *rapid.T) int {
		switch rapid.IntRange(0, 7).Draw(t, "opKind") {
		case 0:
			return rapid.IntRange(3, 255).Draw(t, "badAlgo")
		case 1: // another operation in between: rendering an algorithm value, URL builders (with and without a secret), HOTP
			al := rapid.SampledFrom([]int{0, 1, 2, 3, 4, 200, 255}).Draw(t, "otherAlgo")
			if rapid.Bool().Draw(t, "otherSame") {
				al = rapid.IntRange(3, 255).Draw(t, "otherBad")
			}
			return rapid.IntRange(1, 4).Draw(t, "otherKind")<<8 | al
		}
		return rapid.IntRange(0, 2).Draw(t, "algo")
	}), 1, 24).Draw(t, "ops")
	return c
}

func TestC08_Histories(t *testing.T) {
	c08Main.rapid(t, ev.Pick(4_000, 60_000), genC08)
}

// Concurrent batches: the multiset of outputs equals the multiset of chunks handed out.
type c08ConcCase struct {
	Seed uint64  `json:"seed"`
	Ops  [][]int `json:"ops"` // per goroutine
}

func checkC08Conc(c c08ConcCase) (v verdict) {
	st := &stream{seed: c.Seed, konst: -1}
	var outs []string
	var mu sync.Mutex
	var firstErr error
	withReader(st, func() {
		var wg sync.WaitGroup
		for _, ops := range c.Ops {
			wg.Add(1)
			go func(ops []int) {
				defer wg.Done()
				for _, a := range ops {
					s, err := otp.RandomSecret(otp.Algorithm(a))
					mu.Lock()
					if sizeOf(a) < 0 {
						if err == nil || s != "" {
							firstErr = fmt.Errorf("RandomSecret(%d) = %q, %v", a, s, err)
						}
					} else if err != nil {
						firstErr = err
					} else {
						outs = append(outs, s)
					}
					mu.Unlock()
				}
			}(ops)
		}
		wg.Wait()
	})
	if firstErr != nil {
		return bad(true, nil, "concurrent RandomSecret: %v", firstErr)
	}
	var want []string
	for _, r := range st.reads {
		want = append(want, ref.B32(st.at(r[0], r[1])))
	}
	sort.Strings(outs)
	sort.Strings(want)
	if len(outs) != len(want) {
		return bad(true, nil, "%d secrets returned but the random source served %d reads", len(outs), len(want))
	}
	for i := range outs {
		if outs[i] != want[i] {
			return bad(true, nil, "secret %q is not the base32 of any chunk handed out by the random source (nearest %q)", outs[i], want[i])
		}
	}
	return ok(len(c.Ops) >= 2, fmt.Sprintf("goroutines=%d", len(c.Ops)))
}

var c08Conc = newPart("C08", "concurrent",
	"rapid: 2..8 goroutines each issuing 1..8 RandomSecret calls concurrently against the recording stream (full reads); oracle: the multiset of returned secrets equals the multiset of base32(chunk) over the reads the source served (disjoint parts of the stream, each byte used once); non-trivial = >= 2 goroutines",
	checkC08Conc)

func TestC08_Concurrent(t *testing.T) {
	c08Conc.rapid(t, ev.Pick(500, 10_000), func(t *rapid.T) c08ConcCase {
		return c08ConcCase{Seed: rapid.Uint64().Draw(t, "seed"),
			Ops: rapid.SliceOfN(rapid.SliceOfN(rapid.SampledFrom([]int{0, 1, 2, 0, 1, 2, 3, 77}), 1, 8), 2, 8).Draw(t, "ops")}
	})
}
