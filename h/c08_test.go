package verifh

import (
	"bytes"
	"crypto/rand"
	"crypto/sha256"
	"encoding/binary"
	"encoding/json"
	"fmt"
	"os"
	"os/exec"
	"sort"
	"strings"
	"sync"
	"sync/atomic"
	"testing"
	"time"

	"early.verif"
	otp "github.com/ja7ad/otp"
	"pgregory.net/rapid"

	"verifh/ev"
	"verifh/ref"
)

// ---------------------------------------------------------------------------
// C08 — random secrets are full-length CSPRNG output, base32 without padding.

// tape is the process-wide stand-in for the operating system's random source. Everything it ever delivered is kept
// (log); used is how much of that has been accounted to secrets. The content of what it delivers next is set per case:
// SHA-256 in counter mode over a seed, or a constant byte; reads may be cut short. The tape outlives the cases on
// purpose: a library that reads ahead (a bufio.Reader around the source) still holds bytes delivered during an earlier
// case, and they are exactly log[used:].
type tape struct {
	mu    sync.Mutex
	seed  uint64
	konst int // -1: PRF content; 0..255: constant content of that byte
	chunk int // max bytes handed out per Read (short reads); 0 = unlimited
	log   []byte
	used  int
	reads [][2]int     // (offset, n) per Read call since the last mark
	slow  atomic.Int64 // nanoseconds each Read takes before it delivers (0 = at once)
}

var theTape = &tape{konst: -1}

func (s *tape) content(off, n int) []byte {
	out := make([]byte, n)
	if s.konst >= 0 {
		for i := range out {
			out[i] = byte(s.konst)
		}
		return out
	}
	for i := 0; i < n; i++ {
		blk := (off + i) / 32
		var in [16]byte
		binary.LittleEndian.PutUint64(in[:8], s.seed)
		binary.LittleEndian.PutUint64(in[8:], uint64(blk))
		h := sha256.Sum256(in[:])
		out[i] = h[(off+i)%32]
	}
	return out
}

func (s *tape) Read(p []byte) (int, error) {
	if d := time.Duration(s.slow.Load()); d > 0 {
		time.Sleep(d) // a slow source: callers that arrive meanwhile pile up behind whoever is reading
	}
	s.mu.Lock()
	defer s.mu.Unlock()
	n := len(p)
	if s.chunk > 0 && n > s.chunk {
		n = s.chunk
	}
	b := s.content(len(s.log), n)
	copy(p, b)
	s.reads = append(s.reads, [2]int{len(s.log), n})
	s.log = append(s.log, b...)
	return n, nil
}

func (s *tape) set(seed uint64, konst, chunk int) {
	s.mu.Lock()
	defer s.mu.Unlock()
	s.seed, s.konst, s.chunk = seed, konst, chunk
	s.reads = nil
	if len(s.log) > 1<<24 && s.used > 1<<23 { // keep the memory bounded: forget what has been accounted for
		s.log = append([]byte(nil), s.log[s.used:]...)
		s.used = 0
	}
}

// delivered returns how many bytes the source has handed out so far.
func (s *tape) delivered() int {
	s.mu.Lock()
	defer s.mu.Unlock()
	return len(s.log)
}

// take accounts the next n delivered bytes to a secret whose key bytes are got. The rule: a secret is the next n bytes
// of the source that no earlier secret used — bytes may have been fetched in advance, but none is skipped, changed or used
// twice. On a mismatch the cursor is re-synchronised (behind the place where the bytes do occur, or at the end), so that one
// violation does not make every later case fail.
func (s *tape) take(got []byte, n int) (want []byte, okk bool, where string) {
	s.mu.Lock()
	defer s.mu.Unlock()
	if s.used+n <= len(s.log) {
		want = append([]byte(nil), s.log[s.used:s.used+n]...)
	} else {
		want = append([]byte(nil), s.log[s.used:]...)
	}
	if len(got) == n && bytes.Equal(got, want) {
		s.used += n
		return want, true, ""
	}
	where = "they occur nowhere in what the source delivered"
	if len(got) > 0 {
		if i := bytes.Index(s.log, got); i >= 0 {
			where = fmt.Sprintf("they are the bytes at offset %d (%+d from the first unused byte)", i, i-s.used)
			if i+len(got) > s.used {
				s.used = i + len(got)
				return want, false, where
			}
		}
	}
	s.used = len(s.log)
	return want, false, where
}

type c08Case struct {
	Seed  uint64 `json:"seed"`
	Konst int    `json:"konst"`
	Chunk int    `json:"chunk"`
	Ops   []int  `json:"ops"` // algorithm enum value of each call, 0..255
	// SlowMs: every read of the source takes this long before it delivers (an entropy pool that blocks): the secret is still
	// made of the bytes the source delivers, however long that takes - not of a substitute produced while waiting
	SlowMs int `json:"slow_ms,omitempty"`
	// Via 5 / 6: the application has installed OTHER values (8 or 9 digits, SHA-256 / SHA-512, other periods) as the exported
	// default parameter sets, written into the structs / with the pointers replaced: RandomSecret takes its hash as an
	// argument, and SHA-1 - the zero value of the enum - still means SHA-1
	Via int `json:"via_default,omitempty"`
}

func sizeOf(algo int) int {
	switch algo {
	case 0:
		return 20
	case 1:
		return 32
	case 2:
		return 64
	}
	return -1
}

var randMu sync.Mutex

func withReader(r *tape, f func()) {
	randMu.Lock()
	defer randMu.Unlock()
	// crypto/rand.Reader has been a switchable stand-in since before the library was initialised (package early.verif), so
	// a library that copied the variable at start-up reads the tape too; the variable itself is set as well, for the case
	// that something replaced it in the meantime
	restore := early.Use(r)
	defer restore()
	old := rand.Reader
	rand.Reader = r
	defer func() { rand.Reader = old }()
	f()
}

// secretBytes reads a text as upper-case unpadded base32 (the reference decoder, not the library's).
func secretBytes(text string) ([]byte, bool) {
	if strings.ContainsAny(text, "=") || text != strings.ToUpper(text) {
		return nil, false
	}
	b, good := ref.B32DecodeLoose(text)
	if !good || ref.B32(b) != text {
		return nil, false
	}
	return b, true
}

func checkC08(c c08Case) (v verdict) {
	st := theTape
	st.set(c.Seed, c.Konst, c.Chunk)
	st.slow.Store(int64(c.SlowMs) * 1_000_000)
	defer st.slow.Store(0)
	_, restoreDefaults := viaDefault(c.Via, &otp.Param{})
	defer restoreDefaults()
	sizes := map[int]bool{}
	unsupportedBetween, otherOps, readAhead := false, false, false
	succ := 0
	var outs [][2]string
	v = ok(false)
	// one generated secret: the text is upper-case unpadded base32 of exactly n bytes, those are the next unused bytes of
	// the source, and the library's decoder maps the text back to them
	secret := func(i int, what, text string, n int) bool {
		b, isB32 := secretBytes(text)
		if !isB32 || len(b) != n {
			v = bad(true, nil, "call %d: %s = %q is not upper-case unpadded base32 of %d bytes", i, what, text, n)
			st.take(nil, 0)
			return false
		}
		want, good, where := st.take(b, n)
		if !good {
			v = bad(true, nil, "call %d: %s = %q = %x; the next %d unused bytes of the random source are %x = %q: %s", i, what, text, b, n, want, ref.B32(want), where)
			return false
		}
		back, derr := otp.DecodeSecret(text)
		if derr != nil || !bytes.Equal(back, b) {
			v = bad(true, nil, "call %d: DecodeSecret(%s) = %x, %v; want %x", i, what, back, derr, b)
			return false
		}
		// the decoded key is the caller's (who wipes it after use): decoding the same text again still gives those bytes
		for k := range back {
			back[k] = 0
		}
		if again, aerr := otp.DecodeSecret(text); aerr != nil || !bytes.Equal(again, b) {
			v = bad(true, nil, "call %d: after the caller wiped the key it had decoded, DecodeSecret(%s) = %x, %v; want %x", i, what, again, aerr, b)
			return false
		}
		return true
	}
	withReader(st, func() {
		for i, a := range c.Ops {
			before := st.delivered()
			if a >= 256 {
				// another exported operation between the RandomSecret calls (kind = a>>8, algorithm value = a&255): none of them
				// may change what RandomSecret does afterwards; if one of them hands out a freshly generated secret itself (a URL
				// builder that fills in an empty secret), that secret is "produced by random-secret generation" too
				kind, al := a>>8, a&255
				switch kind {
				case 1:
					_ = otp.Algorithm(al).String()
					_ = fmt.Sprintf("%v %s %d %#v", otp.Algorithm(al), otp.Algorithm(al), otp.Algorithm(al), otp.Algorithm(al))
					otp.AlgorithmFromStr(otp.Algorithm(al).String())
				case 2, 3:
					up := otp.URLParam{Issuer: "Iss", AccountName: "acc", Secret: "", Algorithm: otp.Algorithm(al)}
					u, err := otp.GenerateTOTPURL(up)
					if kind == 3 {
						u, err = otp.GenerateHOTPURL(up)
					}
					sec := ""
					if err == nil && u != nil {
						sec = u.Query().Get("secret")
					}
					if sec == "" {
						if d := st.delivered(); d != before {
							v = bad(true, []string{"url-empty-secret"}, "call %d: URL generation with an empty secret (algorithm %d) handed out no secret but took %d bytes from the random source", i, al, d-before)
							return
						}
						break
					}
					n := sizeOf(al)
					if n < 0 {
						v = bad(true, []string{"url-empty-secret"}, "call %d: URL generation with an empty secret and the unsupported hash %d produced the secret %q; want an error and no secret", i, al, sec)
						return
					}
					if !secret(i, fmt.Sprintf("the secret URL generation filled in for hash %d", al), sec, n) {
						v.Labels = append(v.Labels, "url-empty-secret")
						return
					}
				default:
					otp.GenerateHOTPURL(otp.URLParam{Issuer: "Iss", AccountName: "acc", Secret: "JBSWY3DPEHPK3PXP", Algorithm: otp.Algorithm(al)})
					otp.GenerateHOTP("JBSWY3DPEHPK3PXP", 1, &otp.Param{Digits: 6, Algorithm: otp.Algorithm(al)})
				}
				otherOps = true
				continue
			}
			got, err := otp.RandomSecret(otp.Algorithm(a))
			n := sizeOf(a)
			if n < 0 {
				if err == nil || got != "" {
					v = bad(true, []string{"unsupported"}, "call %d: RandomSecret(%d) = %q, %v; want error and no secret", i, a, got, err)
					return
				}
				if d := st.delivered(); d != before {
					v = bad(true, []string{"unsupported"}, "call %d: RandomSecret(%d) failed but took %d bytes from the random source", i, a, d-before)
					return
				}
				if succ > 0 {
					unsupportedBetween = true
				}
				continue
			}
			if err != nil {
				v = bad(true, nil, "call %d: RandomSecret(%d) failed: %v", i, a, err)
				return
			}
			if !secret(i, fmt.Sprintf("RandomSecret(%d)", a), got, n) {
				return
			}
			sizes[n] = true
			succ++
			outs = append(outs, [2]string{got, strings.Clone(got)})
			// a secret handed out earlier must not change when later ones are produced
			for k, o := range outs {
				if o[0] != o[1] {
					v = bad(true, nil, "the secret returned by call %d changed after call %d: %q -> %q", k, i, o[1], o[0])
					return
				}
			}
		}
		if st.delivered() > st.used {
			readAhead = true
		}
		if c.Konst >= 0 && v.Err == nil {
			// closing call: under constant content a skipped byte looks like any other; switch to distinguishable content and
			// take one more secret — it must still be the next unused bytes (those fetched in advance included)
			st.set(c.Seed, -1, c.Chunk)
			got, err := otp.RandomSecret(otp.SHA1)
			if err != nil {
				v = bad(true, nil, "closing call: RandomSecret(SHA1) failed: %v", err)
				return
			}
			secret(len(c.Ops), "RandomSecret(SHA1) after the constant stretch", got, 20)
		}
	})
	if v.Err != nil {
		return v
	}
	nt := (succ >= 2 && len(sizes) >= 2) || unsupportedBetween
	labels := []string{fmt.Sprintf("sizes=%d", len(sizes))}
	if c.Chunk > 0 {
		labels = append(labels, "short-reads")
	}
	if c.Konst >= 0 {
		labels = append(labels, "constant-stream")
	}
	if unsupportedBetween {
		labels = append(labels, "unsupported-between")
	}
	if otherOps {
		labels = append(labels, "other-operations-between")
	}
	if readAhead {
		labels = append(labels, "library-reads-ahead")
	} else {
		labels = append(labels, "exact-consumption")
	}
	return ok(nt || otherOps, labels...)
}

var c08Main = newPart("C08", "histories",
	"rapid: call histories of 1..24 RandomSecret calls with algorithm values 0..255 (biased to the three hashes), crypto/rand.Reader replaced by a recording endless stream (SHA-256 counter-mode PRF of a drawn seed, or a constant byte 0x00/0xff/other) delivered in full or in short reads of 1..7 bytes, in two cases of five while the application has other values installed as the exported default parameter sets, plus enumerated histories over a source that blocks 300 ms (thorough: also 1.5 s, 5.5 s) before each delivery; model = stream cursor: k-th successful call returns exactly unpadded upper-case base32 of stream[cur:cur+20|32|64], consumes exactly that many bytes, DecodeSecret maps it back, and every secret returned earlier in the history is still unchanged; unsupported algorithm => error, no secret, nothing consumed; in between, other exported operations (rendering algorithm values, URL builders with and without a secret, HOTP) which must not change any of this — a secret a URL builder generates for an empty Secret is held to the same rule; non-trivial = >= 2 successful calls of different sizes or an unsupported call after a successful one",
	checkC08)

func genC08(t *rapid.T) c08Case {
	c := c08Case{Seed: rapid.Uint64().Draw(t, "seed"), Konst: -1}
	if rapid.IntRange(0, 4).Draw(t, "konstKind") == 0 {
		c.Konst = rapid.SampledFrom([]int{0, 255, 0x80, 0x7f, 1}).Draw(t, "konst")
	}
	if rapid.IntRange(0, 2).Draw(t, "chunkKind") == 0 {
		c.Chunk = rapid.IntRange(1, 7).Draw(t, "chunk")
	}
	c.Via = rapid.SampledFrom([]int{0, 0, 0, 5, 6}).Draw(t, "viaDefault")
	c.Ops = rapid.SliceOfN(rapid.Custom(func(t *rapid.T) int {
		switch rapid.IntRange(0, 7).Draw(t, "opKind") {
		case 0:
			return rapid.IntRange(3, 255).Draw(t, "badAlgo")
		case 1: // another operation in between: rendering an algorithm value, URL builders (with and without a secret), HOTP
			al := rapid.SampledFrom([]int{0, 1, 2, 3, 4, 200, 255}).Draw(t, "otherAlgo")
			if rapid.Bool().Draw(t, "otherSame") {
				al = rapid.IntRange(3, 255).Draw(t, "otherBad")
			}
			return rapid.IntRange(1, 4).Draw(t, "otherKind")<<8 | al
		}
		return rapid.IntRange(0, 2).Draw(t, "algo")
	}), 1, 24).Draw(t, "ops")
	return c
}

func TestC08_Histories(t *testing.T) {
	// a source that blocks before it delivers (300 ms; thorough also 1.5 s and 5.5 s), enumerated: few cases, they cost time
	i := 0
	slows := []int{300}
	if ev.Thorough() {
		slows = []int{300, 1500, 5500}
	}
	for _, ms := range slows {
		for a := 0; a < 3; a++ {
			if i++; ev.Mine(i) {
				c08Main.each(t, c08Case{Seed: uint64(1000*ms + a), Konst: -1, Ops: []int{a, (a + 1) % 3}, SlowMs: ms})
			}
		}
	}
	c08Main.rapid(t, ev.Pick(4_000, 60_000), genC08)
}

// Concurrent batches: the multiset of outputs equals the multiset of chunks handed out.
type c08ConcCase struct {
	Seed uint64  `json:"seed"`
	Ops  [][]int `json:"ops"` // per goroutine
	// microseconds every read of the source takes (0 = none): with a slow source the callers of a library that serves
	// several waiting requests from one read arrive while a read is under way and are served together
	SlowMicros int `json:"slow_us,omitempty"`
}

func checkC08Conc(c c08ConcCase) (v verdict) {
	st := theTape
	st.set(c.Seed, -1, 0)
	st.slow.Store(int64(c.SlowMicros) * 1000)
	defer st.slow.Store(0)
	var outs []string
	var sized [][2]int // (hash, key bytes) per secret handed out
	var mu sync.Mutex
	var firstErr error
	withReader(st, func() {
		var wg sync.WaitGroup
		for _, ops := range c.Ops {
			wg.Add(1)
			go func(ops []int) {
				defer wg.Done()
				for _, a := range ops {
					s, err := otp.RandomSecret(otp.Algorithm(a))
					mu.Lock()
					if sizeOf(a) < 0 {
						if err == nil || s != "" {
							firstErr = fmt.Errorf("RandomSecret(%d) = %q, %v", a, s, err)
						}
					} else if err != nil {
						firstErr = err
					} else {
						outs = append(outs, s)
						if b, isB32 := secretBytes(s); isB32 {
							sized = append(sized, [2]int{a, len(b)})
						}
					}
					mu.Unlock()
				}
			}(ops)
		}
		wg.Wait()
	})
	if firstErr != nil {
		st.take(nil, 0)
		return bad(true, nil, "concurrent RandomSecret: %v", firstErr)
	}
	for _, sz := range sized {
		if sz[1] != sizeOf(sz[0]) {
			st.take(nil, 0)
			return bad(true, nil, "concurrent RandomSecret(%d) returned a secret of %d key bytes; want %d", sz[0], sz[1], sizeOf(sz[0]))
		}
	}
	var keys [][]byte
	total := 0
	for _, o := range outs {
		b, isB32 := secretBytes(o)
		if !isB32 || (len(b) != 20 && len(b) != 32 && len(b) != 64) {
			st.take(nil, 0)
			return bad(true, nil, "concurrent RandomSecret returned %q: not upper-case unpadded base32 of 20, 32 or 64 bytes", o)
		}
		keys = append(keys, b)
		total += len(b)
	}
	st.mu.Lock()
	defer st.mu.Unlock()
	if len(st.log)-st.used < total {
		have := len(st.log) - st.used
		st.used = len(st.log)
		return bad(true, nil, "concurrent RandomSecret handed out %d secrets with %d key bytes in all, but only %d unused bytes had been taken from the random source", len(outs), total, have)
	}
	region := st.log[st.used : st.used+total]
	st.used += total
	// (1) what was handed out is, byte for byte, what the source delivered next: nothing changed, nothing used twice, nothing
	// skipped. Concurrent callers of a library that fetches in advance may each get several pieces (a locked bufio.Reader
	// serves the rest of its buffer to one caller and the start of the next block to another), so the comparison is on the
	// multiset of bytes
	var hist [256]int
	for _, b := range region {
		hist[b]++
	}
	for _, k := range keys {
		for _, b := range k {
			hist[b]--
		}
	}
	for b, d := range hist {
		if d != 0 {
			return bad(true, nil, "concurrent RandomSecret: the %d secrets handed out do not consist of the %d bytes the random source delivered next (byte 0x%02x occurs %+d times too %s in the source's bytes); secrets %q", len(outs), total, b, d, map[bool]string{true: "often", false: "rarely"}[d > 0], outs)
		}
	}
	// (2) when every read of the source had the size of one secret — the library does not fetch in advance — each secret is
	// exactly one of those reads
	exact := len(st.reads) == len(outs)
	for _, r := range st.reads {
		if r[1] != 20 && r[1] != 32 && r[1] != 64 {
			exact = false
		}
	}
	lab := "pieces-may-interleave"
	if exact {
		lab = "one-read-per-secret"
		var want []string
		for _, r := range st.reads {
			want = append(want, ref.B32(st.log[r[0]:r[0]+r[1]]))
		}
		got := append([]string(nil), outs...)
		sort.Strings(got)
		sort.Strings(want)
		for i := range got {
			if got[i] != want[i] {
				return bad(true, nil, "secret %q is not the base32 of any chunk handed out by the random source (nearest %q)", got[i], want[i])
			}
		}
	}
	return ok(len(c.Ops) >= 2, fmt.Sprintf("goroutines=%d", len(c.Ops)), lab)
}

var c08Conc = newPart("C08", "concurrent",
	"rapid: 2..8 goroutines each issuing 1..8 RandomSecret calls concurrently against the recording stream (full reads; in half of the cases every read of the source takes 100 us or 1 ms, so that callers pile up behind a read under way); oracle: every secret has the size of ITS hash; the multiset of returned secrets equals the multiset of base32(chunk) over the reads the source served (disjoint parts of the stream, each byte used once); non-trivial = >= 2 goroutines",
	checkC08Conc)

func TestC08_Concurrent(t *testing.T) {
	c08Conc.rapid(t, ev.Pick(500, 10_000), func(t *rapid.T) c08ConcCase {
		return c08ConcCase{Seed: rapid.Uint64().Draw(t, "seed"),
			Ops:        rapid.SliceOfN(rapid.SliceOfN(rapid.SampledFrom([]int{0, 1, 2, 0, 1, 2, 3, 77}), 1, 8), 2, 8).Draw(t, "ops"),
			SlowMicros: rapid.SampledFrom([]int{0, 0, 100, 1000}).Draw(t, "slow")}
	})
}

// Fresh processes: with the operating system's source in place (nothing substituted), what two freshly started processes
// hand out first never coincides. A source that is replaced by something deterministic at start-up gives every secret the
// right shape; only a second process shows it.
type c08FreshCase struct {
	Processes int `json:"processes"`
}

func runChildC08() {
	var out []string
	for k := 0; k < 3; k++ {
		for a := 0; a < 3; a++ {
			s, err := otp.RandomSecret(otp.Algorithm(a))
			if err != nil {
				s = "error: " + err.Error()
			}
			out = append(out, s)
		}
	}
	b, _ := json.Marshal(out)
	fmt.Println(string(b))
}

var c08Fresh = newPart("C08", "fresh-processes",
	"three fresh child processes (the library's calls are the first thing that happens in them, nothing is substituted) each produce 9 secrets (3 per hash): every one is upper-case unpadded base32 of 20 / 32 / 64 bytes and all 27 are pairwise different; one case",
	func(c c08FreshCase) verdict {
		seen := map[string]int{}
		for p := 0; p < c.Processes; p++ {
			cmd := exec.Command(os.Args[0], "-test.run", "^$")
			cmd.Env = append(os.Environ(), "VERIF_CHILD=c08")
			raw, err := cmd.Output()
			var got []string
			if err != nil || json.Unmarshal(bytes.TrimSpace(raw), &got) != nil || len(got) != 9 {
				fmt.Println("INFRA: child process for C08 failed:", err, string(raw))
				os.Exit(3)
			}
			for i, s := range got {
				b, good := secretBytes(s)
				if !good || len(b) != sizeOf(i%3) {
					return bad(true, nil, "fresh process %d: RandomSecret(%d) = %q; want upper-case unpadded base32 of %d bytes", p+1, i%3, s, sizeOf(i%3))
				}
				if q, dup := seen[s]; dup {
					return bad(true, nil, "the secret %q was produced by fresh process %d and again by fresh process %d (call %d): two processes never draw the same bytes from the operating system's random source", s, q, p+1, i+1)
				}
				seen[s] = p + 1
			}
		}
		return ok(true, fmt.Sprintf("secrets=%d", len(seen)))
	})

func TestC08_FreshProcesses(t *testing.T) {
	defer c08Fresh.rec().Flush()
	if ev.Mine(0) {
		c08Fresh.each(t, c08FreshCase{Processes: 3})
	}
	c08Fresh.rec().Exhaustive()
}
