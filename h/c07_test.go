package verifh

import (
	"bytes"
	"encoding/base64"
	"encoding/hex"
	"fmt"
	"os"
	"path/filepath"
	"regexp"
	"sort"
	"strings"
	"sync"
	"testing"
	"time"
	"unicode"

	otp "github.com/ja7ad/otp"
	"pgregory.net/rapid"

	"verifh/ev"
	"verifh/gen"
	"verifh/ref"
)

// ---------------------------------------------------------------------------
// C07 — every spelling of a base32 secret decodes to exactly the same key bytes.

type c07Case struct {
	Key []byte       `json:"key"`
	Sp  gen.Spelling `json:"spelling"`
	// entry-point probe parameters
	Counter uint64 `json:"counter"`
	Digits  int    `json:"digits"`
	Algo    int    `json:"algo"`
}

type c07Seen struct {
	text string
	key  []byte
}

var (
	c07Mu      sync.Mutex
	c07Earlier []c07Seen
)

func checkC07(c c07Case) verdict {
	text := gen.Spell(c.Key, c.Sp)
	labels := []string{fmt.Sprintf("len%%5=%d", len(c.Key)%5), fmt.Sprintf("pad=%d", c.Sp.Pad), fmt.Sprintf("case=%d", c.Sp.Case)}
	if c.Sp.Lead != "" || c.Sp.Trail != "" {
		labels = append(labels, "whitespace")
	}
	nt := !c.Sp.Canonical()
	got, err := otp.DecodeSecret(text)
	if err != nil || !bytes.Equal(got, c.Key) {
		return bad(nt, labels, "DecodeSecret(%q) = %x, %v; want %x", text, got, err, c.Key)
	}
	// texts decoded earlier in this process decode to the same bytes again, character for character the same text — at
	// every age from the previous case to several hundred cases back (a bounded table of recent secrets that recycles its
	// storage serves a stale or half-overwritten entry only for some ages)
	c07Mu.Lock()
	for _, age := range []int{1, 2, 3, 5, 8, 13, 21, 34, 55, 89, 144, 233, 377, 610, 987} {
		if age > len(c07Earlier) {
			break
		}
		e := c07Earlier[len(c07Earlier)-age]
		if again, aerr := otp.DecodeSecret(e.text); aerr != nil || !bytes.Equal(again, e.key) {
			c07Earlier = nil
			c07Mu.Unlock()
			return bad(true, labels, "DecodeSecret(%q), a text decoded correctly %d decodes ago, now gives %x, %v; want %x", e.text, age, again, aerr, e.key)
		}
	}
	c07Earlier = append(c07Earlier, c07Seen{text, append([]byte(nil), c.Key...)})
	if len(c07Earlier) > 2000 {
		c07Earlier = append([]c07Seen(nil), c07Earlier[len(c07Earlier)-1000:]...)
	}
	c07Mu.Unlock()
	// every generation / validation entry point sees the same key
	p := &otp.Param{Digits: otp.Digits(c.Digits), Algorithm: otp.Algorithm(c.Algo), Period: 30, Skew: 1}
	want := ref.MustHOTP(c.Key, c.Counter, c.Digits, c.Algo)
	if g, e := otp.GenerateHOTP(text, c.Counter, p); e != nil || g != want {
		return bad(nt, labels, "GenerateHOTP with spelling %q = %q, %v; want %q", text, g, e, want)
	}
	if okk, e := otp.ValidateHOTP(text, want, c.Counter, p); !okk || e != nil {
		return bad(nt, labels, "ValidateHOTP with spelling %q rejects the right code: %v", text, e)
	}
	tm := time.Unix(int64(c.Counter%(1<<40))*30+7, 0)
	wantT := ref.MustHOTP(c.Key, c.Counter%(1<<40), c.Digits, c.Algo)
	if g, e := otp.GenerateTOTP(text, tm, p); e != nil || g != wantT {
		return bad(nt, labels, "GenerateTOTP with spelling %q = %q, %v; want %q", text, g, e, wantT)
	}
	if okk, e := otp.ValidateTOTP(text, wantT, tm, p); !okk || e != nil {
		return bad(nt, labels, "ValidateTOTP with spelling %q rejects the right code: %v", text, e)
	}
	cfg := ref.OCRACfg{Raw: "OCRA-1:HOTP-SHA1-6:QN08", Hash: 0, Digits: 6, Q: true, QFormat: 1}
	in := ref.OCRAIn{Q: []byte{1, 2, 3, 4, 5, 6, 7, byte(c.Counter)}}
	wantO, _ := ref.OCRA(c.Key, cfg, in)
	su, e := otp.NewRawSuite(cfg.Raw)
	if e != nil {
		return bad(nt, labels, "NewRawSuite(%q): %v", cfg.Raw, e)
	}
	if g, e := otp.GenerateOCRA(text, su, toLibIn(in)); e != nil || g != wantO {
		return bad(nt, labels, "GenerateOCRA with spelling %q = %q, %v; want %q", text, g, e, wantO)
	}
	if okk, e := otp.ValidateOCRA(text, wantO, su, toLibIn(in)); !okk || e != nil {
		return bad(nt, labels, "ValidateOCRA with spelling %q rejects the right code: %v", text, e)
	}
	return ok(nt, labels...)
}

var c07Main = newPart("C07", "spellings",
	"rapid: byte strings of length 0..256 (length residue mod 5 drawn uniformly, so every padding amount 0/1/3/4/6) x {canonical padded, unpadded, partially padded} x {upper, lower, random mixed case} x leading/trailing space, tab, CR, LF; oracle: round-trip DecodeSecret(spelling(base32(b))) == b with an independent encoder, and GenerateHOTP/TOTP/OCRA + ValidateHOTP/TOTP/OCRA with the spelled secret agree with the reference on the raw key; non-trivial = spelling is not the canonical padded upper-case one",
	checkC07)

func genC07(t *rapid.T) c07Case {
	res := rapid.IntRange(0, 4).Draw(t, "residue")
	blocks := rapid.IntRange(0, 51).Draw(t, "blocks")
	if rapid.Bool().Draw(t, "smallKey") {
		blocks = rapid.IntRange(0, 4).Draw(t, "blocksSmall")
	}
	n := blocks*5 + res
	if rapid.IntRange(0, 19).Draw(t, "longKey") == 0 { // beyond the quantifier's 256 bytes: same statement, rarer sizes
		n = rapid.SampledFrom([]int{300, 640, 1000, 2048}).Draw(t, "longLen") + res
	} else if n > 256 {
		n = 255 - (255-res)%5
		n = (n/5)*5 + res
		if n > 256 {
			n -= 5
		}
	}
	key := rapid.SliceOfN(rapid.Byte(), n, n).Draw(t, "key")
	switch rapid.IntRange(0, 9).Draw(t, "keyContent") {
	case 0: // key bytes that are themselves encoded text, or constant: gen.Key's content kinds (base32 / hex / decimal text, zeros, 0xff)
		key = gen.Key().Draw(t, "keyOfKinds")
	case 1: // the first n characters of a base32 text: a key that reads as a secret once more
		key = []byte(ref.B32(append(key, make([]byte, 8)...)))[:n]
	}
	sp := gen.Spelling{
		Pad:   rapid.IntRange(0, 2).Draw(t, "spPad"),
		PadN:  rapid.IntRange(0, 7).Draw(t, "spPadN"),
		Case:  rapid.IntRange(0, 2).Draw(t, "spCase"),
		Mask:  rapid.Uint64().Draw(t, "spMask"),
		Lead:  rapid.SampledFrom([]string{"", "", " ", "\t", "\n", "\r\n", " \t \n"}).Draw(t, "spLead"),
		Trail: rapid.SampledFrom([]string{"", "", " ", "\t", "\n", "\r\n", "\n\n "}).Draw(t, "spTrail"),
	}
	if rapid.IntRange(0, 9).Draw(t, "canon") == 0 {
		sp = gen.Spelling{}
	}
	return c07Case{Key: key, Sp: sp, Counter: gen.Counter().Draw(t, "counter"), Digits: rapid.SampledFrom([]int{6, 8, 10}).Draw(t, "digits"), Algo: rapid.IntRange(0, 2).Draw(t, "algo")}
}

func TestC07_Spellings(t *testing.T) {
	c07Main.rapid(t, ev.Pick(25_000, 400_000), genC07)
}

// Invalid texts must be rejected.
type c07BadCase struct {
	Text  string `json:"text"`
	Class string `json:"class"`
}

func checkC07Bad(c c07BadCase) verdict {
	labels := []string{"class=" + c.Class}
	if b, err := otp.DecodeSecret(c.Text); err == nil {
		return bad(true, labels, "DecodeSecret(%q) accepted an invalid text (%s) as %x", c.Text, c.Class, b)
	}
	if code, err := otp.GenerateHOTP(c.Text, 1, nil); err == nil {
		return bad(true, labels, "GenerateHOTP(%q) produced %q from an invalid secret (%s)", c.Text, code, c.Class)
	}
	if okk, err := otp.ValidateTOTP(c.Text, "000000", time.Unix(0, 0), nil); okk || err == nil {
		return bad(true, labels, "ValidateTOTP(%q) = (%v, %v) for an invalid secret (%s)", c.Text, okk, err, c.Class)
	}
	return ok(true, labels...)
}

var c07Bad = newPart("C07", "invalid",
	"rapid: invalid classes built from a valid encoding: (1) one interior run of 1..16 characters outside A-Za-z2-7= (ASCII punctuation, digits 0 1 8 9, Latin-1 and other non-ASCII letters incl. U+017F and U+0131 whose Unicode upper-case is ASCII; never white space), replacing or inserted; (2) alphabet text whose unpadded length is 1, 3 or 6 mod 8, bare or padded to a multiple of 8; (3) '=' inserted before a non-'=' character; (5) one symbol replaced by a byte that becomes it when a bit is masked, set or flipped (0x12 for '2', 0xC1 for 'A'); (6) a valid secret in display format, groups separated by dashes / dots / underscores / slashes; (4) a valid spelling with one foreign byte (0x85, 0xA0, NUL, DEL, 0xFF, 0x1C, 0x1F) at its very start or end, also between the text and surrounding blanks; in any letter case, optionally surrounded by blanks; oracle: DecodeSecret, GenerateHOTP and ValidateTOTP return an error; every case non-trivial",
	checkC07Bad)

var badChars = []string{"!", "\"", "#", "$", "%", "&", "'", "(", ")", "*", "+", ",", "-", ".", "/", ":", ";", "<", ">", "?", "@", "[", "\\", "]", "^", "_", "`", "{", "|", "}", "~",
	"0", "1", "8", "9", "\x00", "\x7f", "\u00e9", "\u00df", "\u03a9", "\u017f", "\u0131", "\u212a", "\uff41", "\uff21", "\uff12", "\u0663", "\xff", "\xc3"}

const alphabet = "ABCDEFGHIJKLMNOPQRSTUVWXYZ234567"

func genC07Bad(t *rapid.T) c07BadCase {
	alpha := func(n int) string {
		b := make([]byte, n)
		for i := range b {
			b[i] = alphabet[rapid.IntRange(0, 31).Draw(t, "a")]
		}
		return string(b)
	}
	var text, class string
	switch rapid.IntRange(0, 6).Draw(t, "class") {
	case 6:
		// a valid secret in "display format": groups of four separated by dashes (also dots, underscores, slashes) — characters
		// outside the alphabet at regular places; blanks as separators are left out (interior white space is unclassified)
		n := rapid.SampledFrom([]int{5, 10, 10, 15, 20, 20, 32, 64, 3, 7}).Draw(t, "n")
		body := ref.B32(rapid.SliceOfN(rapid.Byte(), n, n).Draw(t, "key"))
		sep := rapid.SampledFrom([]string{"-", "-", ".", "_", "/", "--"}).Draw(t, "sep")
		g := rapid.SampledFrom([]int{4, 4, 4, 8, 5, 3}).Draw(t, "group")
		var sb strings.Builder
		for i := 0; i < len(body); i++ {
			if i > 0 && i%g == 0 {
				sb.WriteString(sep)
			}
			sb.WriteByte(body[i])
		}
		text = sb.String()
		if !strings.Contains(text, sep) {
			text = text[:len(text)/2] + sep + text[len(text)/2:]
		}
		if rapid.Bool().Draw(t, "lowerG") {
			text = strings.ToLower(text)
		}
		return c07BadCase{Text: text, Class: "grouped-by-separators"}
	case 5:
		// ONE symbol of a valid text replaced by a byte that BECOMES that symbol when a bit is masked, set or flipped (0x12
		// for '2' under |0x20, 0xC1 for 'A' under &0x7F, 0x01 for 'A' under |0x40 ...): the length stays admissible, the byte
		// is outside the alphabet
		n := rapid.IntRange(2, 40).Draw(t, "n")
		body := []byte(ref.B32(rapid.SliceOfN(rapid.Byte(), n, n).Draw(t, "key")))
		if rapid.Bool().Draw(t, "lowerB") {
			body = []byte(strings.ToLower(string(body)))
		}
		pos := rapid.IntRange(0, len(body)-1).Draw(t, "pos")
		var cands []byte
		for _, m := range []byte{0x20, 0x40, 0x80, 0x10, 0x60} {
			for _, v := range []byte{body[pos] ^ m, body[pos] &^ m, body[pos] | m} {
				inAlpha := v >= 'A' && v <= 'Z' || v >= 'a' && v <= 'z' || v >= '2' && v <= '7' || v == '='
				blank := v == ' ' || v == '\t' || v == '\n' || v == '\r' || v == '\v' || v == '\f'
				if v != body[pos] && !inAlpha && !blank {
					cands = append(cands, v)
				}
			}
		}
		if len(cands) == 0 {
			cands = []byte{0x12}
		}
		body[pos] = cands[rapid.IntRange(0, len(cands)-1).Draw(t, "alias")]
		text = string(body)
		if rapid.Bool().Draw(t, "padIt") {
			for len(text)%8 != 0 {
				text += "="
			}
		}
		return c07BadCase{Text: text, Class: "bit-alias-of-a-symbol"}
	case 4:
		// a valid spelling with ONE foreign byte at its very start or end (also between the text and surrounding blanks): bytes
		// that some table or library calls white space when it reads bytes as Latin-1 code points (0x85 NEL, 0xA0 NBSP — as
		// lone bytes they are not even characters), NUL, DEL, 0xFF, the separators 0x1C..0x1F
		n := rapid.IntRange(1, 40).Draw(t, "n")
		body := gen.Spell(rapid.SliceOfN(rapid.Byte(), n, n).Draw(t, "key"), gen.DrawSpelling(t))
		fb := string([]byte{rapid.SampledFrom([]byte{0x85, 0xA0, 0x00, 0x7F, 0xFF, 0x1C, 0x1F, 0x85, 0xA0}).Draw(t, "foreign")})
		switch rapid.IntRange(0, 3).Draw(t, "where") {
		case 0:
			text = fb + body
		case 1:
			text = body + fb
		case 2:
			text = " " + fb + body
		default:
			text = body + fb + "\n"
		}
		return c07BadCase{Text: text, Class: "foreign-byte-at-the-ends"}
	case 0, 1:
		n := rapid.IntRange(2, 64).Draw(t, "n")
		body := ref.B32(rapid.SliceOfN(rapid.Byte(), n, n).Draw(t, "key"))
		pos := rapid.IntRange(1, len(body)-1).Draw(t, "pos")
		bad := rapid.SampledFrom(badChars).Draw(t, "ch")
		if rapid.IntRange(0, 3).Draw(t, "aliasK") == 0 {
			// a non-ASCII rune whose low 8 (or 16) bits are an alphabet character or '=': outside the alphabet all the same
			lowc := rune((alphabet + "=abcdefghijklmnopqrstuvwxyz")[rapid.IntRange(0, 58).Draw(t, "aliasLow")])
			hi := rune(rapid.IntRange(1, 0xff).Draw(t, "aliasHi"))
			r := hi<<8 | lowc
			if rapid.Bool().Draw(t, "alias16") {
				r = rune(rapid.IntRange(1, 0x10).Draw(t, "aliasPlane"))<<16 | lowc
			}
			if r >= 0xd800 && r <= 0xdfff {
				r = 0x100 | lowc
			}
			bad = string(r)
		}
		run := strings.Repeat(bad, rapid.SampledFrom([]int{1, 1, 1, 2, 5, 8, 16}).Draw(t, "run"))
		if rapid.Bool().Draw(t, "replace") && pos+len(run) <= len(body)-1 {
			text = body[:pos] + run + body[pos+len(run):]
		} else {
			text = body[:pos] + run + body[pos:]
		}
		if rapid.Bool().Draw(t, "padIt") {
			for len(text)%8 != 0 {
				text += "="
			}
		}
		class = "outside-alphabet"
	case 2:
		n := rapid.IntRange(0, 12).Draw(t, "blocks")*8 + rapid.SampledFrom([]int{1, 3, 6}).Draw(t, "rem")
		text = alpha(n)
		if rapid.Bool().Draw(t, "padIt") {
			for len(text)%8 != 0 {
				text += "="
			}
		}
		class = "impossible-length"
	default:
		n := rapid.IntRange(2, 40).Draw(t, "n")
		body := ref.B32Pad(rapid.SliceOfN(rapid.Byte(), n, n).Draw(t, "key"))
		last := strings.IndexByte(body, '=')
		if last < 0 {
			last = len(body)
		}
		pos := rapid.IntRange(1, last-1).Draw(t, "pos") // a non-'=' character follows
		eq := strings.Repeat("=", rapid.IntRange(1, 3).Draw(t, "eqs"))
		if rapid.Bool().Draw(t, "replace") && pos+len(eq) < last {
			text = body[:pos] + eq + body[pos+len(eq):]
		} else {
			text = body[:pos] + eq + body[pos:]
		}
		class = "padding-in-the-middle"
	}
	if rapid.Bool().Draw(t, "lower") {
		b := []byte(text) // ASCII letters only: the bad run stays what it is
		for i, c := range b {
			if c >= 'A' && c <= 'Z' {
				b[i] = c + 32
			}
		}
		text = string(b)
	}
	text = rapid.SampledFrom([]string{"", "", " ", "\n"}).Draw(t, "lead") + text + rapid.SampledFrom([]string{"", "", " ", "\t"}).Draw(t, "trail")
	return c07BadCase{Text: text, Class: class}
}

func TestC07_Invalid(t *testing.T) {
	c07Bad.rapid(t, ev.Pick(25_000, 400_000), genC07Bad)
}

// FuzzC07 — coverage-guided: whatever text is accepted must be a spelling of the result.
func FuzzC07(f *testing.F) {
	for _, s := range []string{"", "MZXW6YTBOI======", "mzxw6ytboi", " MZXW6YTB\n", "MZXW6===", "ſſſſſſſſ", "M=ZXW6YT", "A", "AAA", "MZXW6YTBOI=", " MZXW6YTB", "MZXW\n6YTB", "MZXW 6YTB"} {
		f.Add(s)
	}
	f.Fuzz(func(t *testing.T, s string) {
		b, err := otp.DecodeSecret(s)
		if err != nil {
			return
		}
		// accepted: strip white space and '=' ; the rest must be alphabet characters
		// (any letter case) that decode to b.
		var sb strings.Builder
		for _, r := range s {
			if unicode.IsSpace(r) || r == '=' {
				continue
			}
			if r >= 'a' && r <= 'z' {
				r -= 32
			}
			sb.WriteRune(r)
		}
		want, okk := ref.B32DecodeLoose(sb.String())
		if !okk || !bytes.Equal(want, b) {
			c := c07BadCase{Text: s, Class: "fuzz:accepted-but-not-a-spelling"}
			p := ev.WriteReplay("C07", "invalid", c, fmt.Errorf("DecodeSecret(%q) = %x but the text is not a base32 spelling of it (reference decode %x, ok=%v)", s, b, want, okk))
			t.Fatalf("C07 violated: DecodeSecret(%q) accepted as %x [replay %s]", s, b, p)
		}
	})
}

// Siblings: an invalid text derived from a secret that was decoded successfully JUST BEFORE, in the same
// process (a decoder that remembers earlier secrets must not let their malformed look-alikes through).
type c07SibCase struct {
	Key  []byte       `json:"key"`
	Sp   gen.Spelling `json:"spelling"`
	Kind int          `json:"kind"` // 0 '=' inserted in the middle, 1 '=' run inserted, 2 a foreign character inserted, 3 one character dropped to an impossible length, 4 padding moved to the front
	Pos  int          `json:"pos"`
}

func checkC07Sib(c c07SibCase) verdict {
	text := gen.Spell(c.Key, c.Sp)
	if b, err := otp.DecodeSecret(text); err != nil || !bytes.Equal(b, c.Key) {
		return bad(true, nil, "DecodeSecret(%q) = %x, %v; want %x", text, b, err, c.Key)
	}
	// the valid text goes through every entry point first (whatever any of them remembers about it is now in place)
	p8 := &otp.Param{Digits: 8, Algorithm: otp.SHA1, Period: 30, Skew: 1}
	tm := time.Unix(1_700_000_000, 0)
	su, _ := otp.NewRawSuite("OCRA-1:HOTP-SHA1-6:QN08")
	cfg := ref.OCRACfg{Raw: "OCRA-1:HOTP-SHA1-6:QN08", Digits: 6, Q: true, QFormat: 1, SessionNN: -1}
	q := []byte("12345678")
	codeH := ref.MustHOTP(c.Key, 7, 8, 0)
	codeT := ref.MustHOTP(c.Key, 1_700_000_000/30, 8, 0)
	codeO, _ := ref.OCRA(c.Key, cfg, ref.OCRAIn{Q: q})
	otp.GenerateHOTP(text, 7, p8)
	otp.ValidateHOTP(text, codeH, 7, p8)
	otp.GenerateTOTP(text, tm, p8)
	otp.ValidateTOTP(text, codeT, tm, p8)
	otp.GenerateOCRA(text, su, otp.OCRAInput{Challenge: q})
	otp.ValidateOCRA(text, codeO, su, otp.OCRAInput{Challenge: q})
	bare := strings.TrimRight(strings.TrimSpace(text), "=")
	if len(bare) < 4 {
		return ok(false, "too-short")
	}
	k := 1 + c.Pos%(len(bare)-2)
	var badText string
	switch c.Kind {
	case 0:
		badText = bare[:k] + "=" + bare[k:]
	case 1:
		badText = bare[:k] + "====" + bare[k:]
	case 2:
		badText = bare[:k] + "!" + bare[k:]
	case 3:
		badText = bare
		for r := len(badText) % 8; !(r == 1 || r == 3 || r == 6); r = len(badText) % 8 {
			badText = badText[:len(badText)-1]
			if badText == "" {
				return ok(false, "too-short")
			}
		}
	case 4:
		badText = "========"[:1+c.Pos%7] + bare
	case 5:
		// one letter replaced by a non-ASCII letter that Unicode case mapping folds onto it (a key built with ToUpper /
		// ToLower / EqualFold of the text treats the look-alike and the valid text as the same secret)
		folds := map[byte]string{'S': "\u017f", 's': "\u017f", 'K': "\u212a", 'k': "\u212a", 'I': "\u0131", 'i': "\u0131"}
		badText = ""
		for i := 0; i < len(text); i++ {
			j := (k + i) % len(text)
			if f, okk := folds[text[j]]; okk {
				badText = text[:j] + f + text[j+1:]
				break
			}
		}
		if badText == "" {
			return ok(false, "no-foldable-letter")
		}
	case 6:
		// the valid text wrapped the way it is pasted from configuration files and shells
		w := [][2]string{{"\"", "\""}, {"'", "'"}, {"`", "`"}, {"(", ")"}, {"<", ">"}, {"[", "]"}, {"{", "}"}, {"\" ", " \""}, {" '", "' "}}[c.Pos%9]
		badText = w[0] + text + w[1]
	case 7:
		// prefixes / suffixes of other notations
		badText = []string{"0x", "b32:", "base32:", "secret=", "otpauth://", "0b", "\ufeff"}[c.Pos%7] + text
		if c.Pos%2 == 1 {
			badText = text + []string{";", ",", ".", "\x00", "\\n", "%3D", "\u200b"}[c.Pos%7]
		}
	default:
		// blanks that are not ASCII white space INSIDE the text
		badText = bare[:k] + []string{"\u00a0", "\u2003", "\u3000", "\u200b", "-", "_", " "}[c.Pos%7] + bare[k:]
	}
	labels := []string{fmt.Sprintf("kind=%d", c.Kind)}
	if b, err := otp.DecodeSecret(badText); err == nil {
		return bad(true, labels, "after decoding %q, the malformed look-alike %q is accepted as %x", text, badText, b)
	}
	if code, err := otp.GenerateHOTP(badText, 1, nil); err == nil {
		return bad(true, labels, "after decoding %q, GenerateHOTP(%q) produces %q", text, badText, code)
	}
	if code, err := otp.GenerateTOTP(badText, tm, p8); err == nil {
		return bad(true, labels, "after using %q, GenerateTOTP(%q) produces %q", text, badText, code)
	}
	if code, err := otp.GenerateOCRA(badText, su, otp.OCRAInput{Challenge: q}); err == nil {
		return bad(true, labels, "after using %q, GenerateOCRA(%q) produces %q", text, badText, code)
	}
	// the validators get the code of the VALID text: only a validator that took the look-alike for it accepts
	if okk, err := otp.ValidateHOTP(badText, codeH, 7, p8); okk || err == nil {
		return bad(true, labels, "after using %q, ValidateHOTP(%q, code of the valid text) = (%v, %v)", text, badText, okk, err)
	}
	if okk, err := otp.ValidateTOTP(badText, codeT, tm, p8); okk || err == nil {
		return bad(true, labels, "after using %q, ValidateTOTP(%q, code of the valid text) = (%v, %v)", text, badText, okk, err)
	}
	if okk, err := otp.ValidateOCRA(badText, codeO, su, otp.OCRAInput{Challenge: q}); okk || err == nil {
		return bad(true, labels, "after using %q, ValidateOCRA(%q, code of the valid text) = (%v, %v)", text, badText, okk, err)
	}
	// and the valid spelling still decodes to the same key afterwards
	if b, err := otp.DecodeSecret(text); err != nil || !bytes.Equal(b, c.Key) {
		return bad(true, labels, "after the rejected look-alike, DecodeSecret(%q) = %x, %v; want %x", text, b, err, c.Key)
	}
	return ok(true, labels...)
}

var c07Sib = newPart("C07", "siblings",
	"rapid: a secret (2..64 bytes, any spelling) is decoded successfully, then a malformed look-alike of the SAME text is presented ('=' or '====' inserted in the middle, a foreign character inserted, cut to an impossible length, padding in front, a letter replaced by a non-ASCII letter that case-folds onto it, the text wrapped in quotes / brackets, prefixed or suffixed like other notations, a non-ASCII blank or separator inside): after the valid text went through all seven entry points, the look-alike must be rejected by DecodeSecret, by the three generators and — submitted with the VALID text's code — by the three validators, and the valid spelling must still decode to the same key afterwards; every case non-trivial",
	checkC07Sib)

func TestC07_Siblings(t *testing.T) {
	c07Sib.rapid(t, ev.Pick(15_000, 300_000), func(t *rapid.T) c07SibCase {
		n := rapid.IntRange(3, 64).Draw(t, "n")
		return c07SibCase{Key: rapid.SliceOfN(rapid.Byte(), n, n).Draw(t, "key"), Sp: gen.DrawSpelling(t), Kind: rapid.IntRange(0, 8).Draw(t, "kind"), Pos: rapid.IntRange(0, 500).Draw(t, "pos")}
	})
}

// Other notations. A secret is base32 text; a key written in another notation and announced by a word — hex:3132..., ascii:1234...,
// base64:..., 0x... — contains characters outside the alphabet (the ':' at least) and is refused. The words are a dictionary:
// a fixed list of notation names plus every short word-like string literal of the library's own source (a table of "schemes"
// or prefixes consulted by the decoder is written as literals).
type c07NotCase struct {
	Word    string `json:"word"`
	Sep     string `json:"sep"`
	Payload string `json:"payload"`
	Kind    string `json:"payload_kind"`
}

var wordLitRe = regexp.MustCompile(`"([A-Za-z][A-Za-z0-9+._-]{1,11})"`)

func notationWords() []string {
	words := map[string]bool{}
	for _, w := range []string{"hex", "ascii", "base64", "b64", "base32", "b32", "base16", "b16", "raw", "text", "utf8", "str", "string", "plain", "bin", "bytes", "key", "secret", "file", "env", "otpauth", "urn", "data", "literal", "sha1", "0x", "x", "h", "a"} {
		words[w] = true
	}
	repo := os.Getenv("VERIF_REPO")
	if repo == "" {
		repo = "/repo"
	}
	files, _ := filepath.Glob(filepath.Join(repo, "*.go"))
	for _, fn := range files {
		if strings.HasSuffix(fn, "_test.go") || strings.HasPrefix(filepath.Base(fn), "verif_hooks") {
			continue
		}
		b, err := os.ReadFile(fn)
		if err != nil {
			continue
		}
		for _, m := range wordLitRe.FindAllSubmatch(b, -1) {
			words[string(m[1])] = true
			words[strings.ToLower(string(m[1]))] = true
		}
	}
	var out []string
	for w := range words {
		out = append(out, w)
	}
	sort.Strings(out)
	return out
}

func outsideAlphabet(text string) bool {
	t := strings.Trim(text, " \t\r\n")
	for i := 0; i < len(t); i++ {
		c := t[i]
		if !(c >= 'A' && c <= 'Z' || c >= 'a' && c <= 'z' || c >= '2' && c <= '7' || c == '=') {
			return true
		}
	}
	return false
}

func checkC07Not(c c07NotCase) verdict {
	text := c.Word + c.Sep + c.Payload
	if !outsideAlphabet(text) {
		return ok(false, "inside-the-alphabet")
	}
	v := checkC07Bad(c07BadCase{Text: text, Class: "a key announced as " + c.Word + c.Sep + " in " + c.Kind + " notation"})
	v.Labels = []string{"payload=" + c.Kind, "sep=" + c.Sep}
	return v
}

var c07Not = newPart("C07", "other-notations",
	"enumeration: notation words (a fixed list — hex, ascii, base64, b32, raw, text, 0x ... — plus every short word-like string literal of the library's own non-test source, as written and lower-cased) x separators {: = :// :: - blank} x payloads of one key in {hex lower / upper, ASCII text, decimal digits, base64, its valid base32 text, nothing}; every text with a character outside A-Za-z2-7= must be refused by DecodeSecret, GenerateHOTP and ValidateTOTP (texts that stay inside the alphabet are skipped); every case distinct",
	checkC07Not)

func TestC07_OtherNotations(t *testing.T) {
	defer c07Not.rec().Flush()
	key := []byte("12345678901234567890")
	payloads := [][2]string{{"hex-lower", hex.EncodeToString(key)}, {"hex-upper", strings.ToUpper(hex.EncodeToString(key))}, {"ascii", string(key)}, {"decimal", "755224"},
		{"base64", base64.StdEncoding.EncodeToString(key)}, {"base32", ref.B32(key)}, {"empty", ""}, {"hex-short", "0a"}}
	i := 0
	for _, w := range notationWords() {
		for _, sep := range []string{":", "=", "://", "::", "-", " ", ""} {
			for _, p := range payloads {
				i++
				if !ev.Mine(i) {
					continue
				}
				c07Not.each(t, c07NotCase{Word: w, Sep: sep, Payload: p[1], Kind: p[0]})
			}
		}
	}
	c07Not.rec().Exhaustive()
}

// Padding inside, enumerated over lengths: the canonical padded encoding of an n-byte string (n not a multiple of 5, so it
// ends in '=') followed by more valid text. A decoder that works block-wise (256 / 512 / 1024 characters at a time, or
// line by line) hands each block to a base32 routine as if it were a complete text and so lets padding through exactly
// where a block ends; sweeping n puts the end of the padding on every multiple of 8 up to 1128.
type c07PadCase struct {
	N     int    `json:"n"`
	Tail  string `json:"tail"`
	Lower bool   `json:"lower"`
	Lead  string `json:"lead"`
}

var c07Pad = newPart("C07", "padding-inside",
	"complete: n = 1..704 (n mod 5 != 0) x the canonical padded base32 of an n-byte pattern followed by each of five valid tails (padded, unpadded, one quantum, 40 characters, 300 characters) x upper / lower case x with / without leading white space; for n <= 64 and every sixteenth n also with a line break (LF, CR, CRLF, LFCR) between the padding and the tail, and with one-character tails inside and outside the alphabet after a line break; oracle: padding in the middle must be rejected by DecodeSecret and GenerateHOTP; every case distinct and non-trivial",
	func(c c07PadCase) verdict {
		key := make([]byte, c.N)
		for i := range key {
			key[i] = byte(i*7 + c.N)
		}
		text := c.Lead + ref.B32Pad(key) + c.Tail
		if c.Lower {
			text = strings.ToLower(text)
		}
		labels := []string{fmt.Sprintf("padded-len-mod-256=%d", len(ref.B32Pad(key))%256)}
		if b, err := otp.DecodeSecret(text); err == nil {
			return bad(true, labels, "DecodeSecret accepts padding in the middle: %d characters ending in '=' followed by %q decoded to %d bytes", len(ref.B32Pad(key)), c.Tail, len(b))
		}
		if code, err := otp.GenerateHOTP(text, 1, nil); err == nil {
			return bad(true, labels, "GenerateHOTP accepts padding in the middle (%d padded characters + %q): %q", len(ref.B32Pad(key)), c.Tail, code)
		}
		return ok(true, labels...)
	})

func TestC07_PaddingInside(t *testing.T) {
	defer c07Pad.rec().Flush()
	tails := []string{"AAAAAAAA", "ME======", "MZXW6YQ", strings.Repeat("GEZDGNBV", 5), strings.Repeat("MFRGGZDF", 38)[:300]}
	// the same with a line break (LF, CR, CRLF) between the padding and what follows — a decoder that drops line breaks at a
	// different moment than it computes the padding lets the tail through (D15) — and with a one-character tail, inside or
	// outside the alphabet
	breaks := []string{"\n", "\r", "\r\n", "\n\r"}
	// (no tail made of '=' alone: more padding behind the padding is surplus TRAILING padding once the line break is dropped -
	// not padding in the middle, and not an impossible length "after unpadding": the statement leaves it open, F28)
	short := []string{"0", "A", "2", "1A", "MZXW6YQ"}
	i := 0
	for n := 1; n <= 704; n++ {
		if n%5 == 0 {
			continue
		}
		for ti, tail := range tails {
			i++
			if !ev.Mine(i) {
				continue
			}
			c07Pad.each(t, c07PadCase{N: n, Tail: tail, Lower: (n+ti)%2 == 1, Lead: []string{"", " ", "\n"}[(n+ti)%3]})
			if n <= 64 || n%16 == 1 {
				c07Pad.each(t, c07PadCase{N: n, Tail: breaks[(n+ti)%4] + tail, Lower: (n+ti)%2 == 0, Lead: []string{"", " ", "\n"}[(n+ti)%3]})
			}
		}
		if n <= 64 {
			for bi, br := range breaks {
				for si, sh := range short {
					i++
					if ev.Mine(i) {
						c07Pad.each(t, c07PadCase{N: n, Tail: br + sh, Lower: (bi+si)%2 == 1})
					}
				}
			}
		}
	}
	c07Pad.rec().Exhaustive()
}
