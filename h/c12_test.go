//go:build verif

package verifh

import (
	"bytes"
	"encoding"
	"encoding/json"
	"fmt"
	"net/url"
	"reflect"
	"sort"
	"strconv"
	"strings"
	"testing"
	"time"

	otp "github.com/ja7ad/otp"
	"pgregory.net/rapid"

	"verifh/ev"
	"verifh/ref"
)

// ---------------------------------------------------------------------------
// C12 — caller data and package defaults are never modified.

// slot describes how one byte field is laid out in caller memory.
type slot struct {
	Len    int  `json:"len"`    // -1 = nil
	Layout int  `json:"layout"` // 0 len==cap, 1 prefix of a larger array (spare capacity = canary), 2 middle of a larger array
	Spare  int  `json:"spare"`  // bytes of spare capacity behind the length (layouts 1, 2)
	Fill   byte `json:"fill"`
}

type c12Step struct {
	Op     string      `json:"op"`
	Cfg    ref.OCRACfg `json:"cfg"`
	Slots  [5]slot     `json:"slots"` // C,Q,P,S,T
	Digits int         `json:"digits"`
	Algo   int         `json:"algo"`
	Period uint64      `json:"period"`
	Skew   uint64      `json:"skew"`
	NilP   bool        `json:"nil_param"`
	U      uint64      `json:"u"`
	Text   string      `json:"text"`
}

type c12Case struct {
	Steps []c12Step `json:"steps"`
}

const canary = 0xC5

// materialise builds the slice and returns it with its whole backing array.
func (s slot) materialise() (field []byte, backing []byte) {
	if s.Len < 0 {
		return nil, nil
	}
	pre := 0
	if s.Layout == 2 {
		pre = 5
	}
	spare := 0
	if s.Layout != 0 {
		spare = s.Spare
	}
	backing = make([]byte, pre+s.Len+spare)
	for i := range backing {
		backing[i] = canary
	}
	for i := 0; i < s.Len; i++ {
		backing[pre+i] = s.Fill + byte(i)
	}
	field = backing[pre : pre+s.Len] // capacity runs to the end of the array: the spare bytes are reachable by append
	return field, backing
}

type regSnap struct {
	names []string
	cfgs  []otp.SuiteConfig
}

// renderDeep writes a canonical text of a value of any shape: maps in key order, pointers followed (not printed as
// addresses), unexported fields included. The registry is observed through the hook VerifRegistry, which hands out the
// package's own variable as an untyped value, so the comparison works whatever concrete type the registry has.
func renderDeep(sb *strings.Builder, v reflect.Value, depth int) {
	if depth > 12 {
		sb.WriteString("<deep>")
		return
	}
	switch v.Kind() {
	case reflect.Invalid:
		sb.WriteString("<nil>")
	case reflect.Interface, reflect.Pointer:
		if v.IsNil() {
			sb.WriteString("<nil>")
			return
		}
		sb.WriteString("&")
		renderDeep(sb, v.Elem(), depth+1)
	case reflect.Map:
		type kv struct {
			k string
			v reflect.Value
		}
		var es []kv
		for it := v.MapRange(); it.Next(); {
			var kb strings.Builder
			renderDeep(&kb, it.Key(), depth+1)
			es = append(es, kv{kb.String(), it.Value()})
		}
		sort.Slice(es, func(i, j int) bool { return es[i].k < es[j].k })
		sb.WriteString("map[")
		for _, e := range es {
			sb.WriteString(e.k + ":")
			renderDeep(sb, e.v, depth+1)
			sb.WriteString(";")
		}
		sb.WriteString("]")
	case reflect.Slice, reflect.Array:
		if v.Kind() == reflect.Slice && v.IsNil() {
			sb.WriteString("nil")
		}
		sb.WriteString("[")
		for i := 0; i < v.Len(); i++ {
			renderDeep(sb, v.Index(i), depth+1)
			sb.WriteString(",")
		}
		sb.WriteString("]")
	case reflect.Struct:
		sb.WriteString(v.Type().Name() + "{")
		for i := 0; i < v.NumField(); i++ {
			sb.WriteString(v.Type().Field(i).Name + "=")
			renderDeep(sb, v.Field(i), depth+1)
			sb.WriteString(",")
		}
		sb.WriteString("}")
	case reflect.String:
		fmt.Fprintf(sb, "%q", v.String())
	case reflect.Bool:
		fmt.Fprint(sb, v.Bool())
	case reflect.Int, reflect.Int8, reflect.Int16, reflect.Int32, reflect.Int64:
		fmt.Fprint(sb, v.Int())
	case reflect.Uint, reflect.Uint8, reflect.Uint16, reflect.Uint32, reflect.Uint64, reflect.Uintptr:
		fmt.Fprint(sb, v.Uint())
	case reflect.Float32, reflect.Float64:
		fmt.Fprint(sb, v.Float())
	case reflect.Func, reflect.Chan, reflect.UnsafePointer:
		fmt.Fprintf(sb, "<%s nil=%v>", v.Kind(), v.IsNil())
	default:
		fmt.Fprintf(sb, "<%s>", v.Kind())
	}
}

// registryText is the complete content of the library's registry variable, read directly (no accessor runs).
func registryText() string {
	var sb strings.Builder
	renderDeep(&sb, reflect.ValueOf(otp.VerifRegistry()), 0)
	return sb.String()
}

// warmRegistryText: the baseline is taken after ONE name has gone through the list, the known-test and the
// constructor, so that a registry built lazily on first use (which modifies nothing an observer could have seen before)
// is complete — and before any other name has been looked up, so that a per-entry write-back on first lookup still shows.
func warmRegistryText() string {
	if inChild { // a fresh child observes first-use behaviour: nothing of the library may run before its own calls
		return ""
	}
	if n := otp.ListSuites(); len(n) > 0 {
		sortStrings(n)
		otp.IsKnownSuite(n[0])
		otp.NewRawSuite(n[0])
		otp.SuiteConfigFromRaws(n[0])
	}
	return registryText()
}

func snapRegistry() regSnap {
	if inChild {
		return regSnap{}
	}
	n := otp.ListSuites()
	sortStrings(n)
	r := regSnap{names: n}
	for _, x := range n {
		r.cfgs = append(r.cfgs, otp.SuiteConfigFromRaws(x))
	}
	return r
}

var (
	baseRegistryText = warmRegistryText() // initialised ahead of baseRegistry
	baseRegistry     = snapRegistry()
	baseHOTP         = *otp.DefaultHOTPParam
	baseTOTP         = *otp.DefaultTOTPParam
	ptrHOTP          = otp.DefaultHOTPParam
	ptrTOTP          = otp.DefaultTOTPParam
)

func globalsIntact() error {
	if otp.DefaultHOTPParam != ptrHOTP || otp.DefaultTOTPParam != ptrTOTP {
		return fmt.Errorf("a default parameter pointer was re-assigned")
	}
	if *otp.DefaultHOTPParam != baseHOTP {
		return fmt.Errorf("DefaultHOTPParam changed: %+v -> %+v", baseHOTP, *otp.DefaultHOTPParam)
	}
	if *otp.DefaultTOTPParam != baseTOTP {
		return fmt.Errorf("DefaultTOTPParam changed: %+v -> %+v", baseTOTP, *otp.DefaultTOTPParam)
	}
	if now := snapRegistry(); !reflect.DeepEqual(now, baseRegistry) {
		return fmt.Errorf("the suite registry changed")
	}
	if now := registryText(); now != baseRegistryText {
		return fmt.Errorf("the suite registry variable itself changed (read through the hook, no accessor involved): %s", firstDiff(baseRegistryText, now))
	}
	return nil
}

func firstDiff(a, b string) string {
	i := 0
	for i < len(a) && i < len(b) && a[i] == b[i] {
		i++
	}
	lo := i - 60
	if lo < 0 {
		lo = 0
	}
	cut := func(s string) string {
		hi := i + 60
		if hi > len(s) {
			hi = len(s)
		}
		return s[lo:hi]
	}
	return fmt.Sprintf("was ...%s..., is ...%s...", cut(a), cut(b))
}

// restoreGlobals puts the defaults back after a detected violation so that later
// cases (shrinking) start from a clean state.
func restoreGlobals() {
	otp.DefaultHOTPParam, otp.DefaultTOTPParam = ptrHOTP, ptrTOTP
	*otp.DefaultHOTPParam, *otp.DefaultTOTPParam = baseHOTP, baseTOTP
	baseRegistryText = registryText() // the registry cannot be put back from outside: later cases are judged against its present state
}

const c12Secret = "GEZDGNBVGY3TQOJQGEZDGNBVGY3TQOJQ"
const c12Key = "12345678901234567890"

// c12Code: the right code of the step's HOTP / TOTP parameters at the given counter in half of the steps, else a wrong one.
func c12Code(st c12Step, counter uint64) string {
	d, a := st.Digits, st.Algo
	if st.NilP {
		d, a = 6, 0
	}
	if (st.U>>41)%2 == 0 && d >= 1 && d <= 10 && a >= 0 && a <= 2 {
		return ref.MustHOTP([]byte(c12Key), counter, d, a)
	}
	return "123456"
}

func checkC12(c c12Case) verdict {
	type retained struct {
		got  string
		copy string
		what string
	}
	var kept []retained
	keep := func(s, what string) {
		kept = append(kept, retained{got: s, copy: strings.Clone(s), what: what})
	}
	// URLs handed to the parser earlier in the history, and URLs the builders returned: later calls must leave both alone
	type keptURL struct {
		u      *url.URL
		before url.URL
		text   string
		what   string
	}
	var keptURLs []keptURL
	keepURL := func(u *url.URL, what string) {
		if u != nil {
			keptURLs = append(keptURLs, keptURL{u: u, before: *u, text: u.String(), what: what})
		}
	}
	// parameter structs of earlier steps: a library that keeps the pointer (a pool it returns the caller's struct to) writes
	// into it during a LATER call
	type keptParam struct {
		p    *otp.Param
		was  otp.Param
		step int
		op   string
	}
	var keptParams []keptParam
	// errors are returned values too: what an error says when it is rendered later (after the caller re-used its buffers)
	// is what it said when it was returned
	type keptErr struct {
		err  error
		text string
		step int
		op   string
	}
	// byte fields of OCRA inputs the caller built with the library's own helpers and has passed in: they are the caller's
	// from then on, whatever operation runs later
	type keptField struct {
		b, was []byte
		what   string
		step   int
	}
	var keptFields []keptField
	var keptErrs []keptErr
	keepErr := func(err error, step int, op string) {
		if err != nil {
			keptErrs = append(keptErrs, keptErr{err, fmt.Sprintf("%v|%+v|%#v", err, err, err), step, op})
		}
	}
	labels := []string{}
	nt := false
	for i, st := range c.Steps {
		labels = append(labels, "op="+st.Op)
		var fields, backs, snaps [5][]byte
		for k := range st.Slots {
			fields[k], backs[k] = st.Slots[k].materialise()
			snaps[k] = append([]byte(nil), backs[k]...)
		}
		in := otp.OCRAInput{Counter: fields[0], Challenge: fields[1], Password: fields[2], SessionInfo: fields[3], Timestamp: fields[4]}
		var param *otp.Param
		var paramCopy otp.Param
		if !st.NilP {
			param = &otp.Param{Digits: otp.Digits(st.Digits), Algorithm: otp.Algorithm(st.Algo), Period: uint(st.Period), Skew: uint(st.Skew)}
			paramCopy = *param
			keptParams = append(keptParams, keptParam{param, paramCopy, i, st.Op})
		} else {
			nt = true
		}
		if st.Period == 0 {
			nt = true
		}
		lc := toLib(st.Cfg)
		lcCopy := lc
		pads := [5]int{8, 128, 0, 128, 8}
		for k, s := range st.Slots {
			if s.Len >= 0 && s.Layout != 0 && pads[k] > 0 && s.Len < pads[k] && s.Spare > 0 {
				nt = true // spare capacity behind a field shorter than its pad width
				labels = append(labels, "spare<pad")
				break
			}
		}
		// the suite is handed over by value, or — a third of the steps — through a pointer (*SuiteConfig and *RawSuite
		// implement Suite as well): what the pointer leads to is the caller's and stays as it is, also when it is an
		// "incomplete" configuration that carries nothing but a suite name
		var suiteArg otp.Suite = lc
		var ptrCfg *otp.SuiteConfig
		var ptrRaw *otp.RawSuite
		switch (st.U >> 20) % 6 {
		case 0:
			ptrCfg = &otp.SuiteConfig{}
			*ptrCfg = lc
			suiteArg = ptrCfg
		case 1:
			ptrRaw = &otp.RawSuite{SuiteConfig: lc}
			suiteArg = ptrRaw
		case 2:
			names := registeredNames
			ptrRaw = &otp.RawSuite{SuiteConfig: otp.SuiteConfig{Raw: names[int(st.U>>24)%len(names)]}}
			suiteArg = ptrRaw
		}
		var ptrCfgCopy otp.SuiteConfig
		var ptrRawCopy otp.RawSuite
		if ptrCfg != nil {
			ptrCfgCopy = *ptrCfg
		}
		if ptrRaw != nil {
			ptrRawCopy = *ptrRaw
		}
		checkPtr := func() error {
			if ptrCfg != nil && *ptrCfg != ptrCfgCopy {
				return fmt.Errorf("the SuiteConfig behind the caller's pointer changed: %+v -> %+v", ptrCfgCopy, *ptrCfg)
			}
			if ptrRaw != nil && *ptrRaw != ptrRawCopy {
				return fmt.Errorf("the RawSuite behind the caller's pointer changed: %+v -> %+v", ptrRawCopy, *ptrRaw)
			}
			return nil
		}
		switch st.Op {
		case "GenerateOCRA":
			code, err := otp.GenerateOCRA(c12Secret, suiteArg, in)
			keepErr(err, i, "GenerateOCRA")
			if e := checkPtr(); e != nil {
				return bad(true, labels, "step %d GenerateOCRA: %v", i, e)
			}
			if err == nil {
				keep(code, "OCRA code")
				labels = append(labels, "admitted")
			}
		case "ValidateOCRA":
			// half of the calls submit the code the reference computes for this very input (an accepting validation
			// is the path on which a library would "consume" a counter), the rest a wrong code
			code := "000000"
			cp := func(b []byte) []byte { return append([]byte(nil), b...) }
			switch st.U % 4 {
			case 0, 2:
				if want, err := ref.OCRA([]byte(c12Key), st.Cfg, ref.OCRAIn{C: cp(fields[0]), Q: cp(fields[1]), P: cp(fields[2]), S: cp(fields[3]), T: cp(fields[4])}); err == nil {
					code = want
				}
			case 1:
				// the code of the NEIGHBOURING counter / time step (the 8-byte field plus or minus one): a validator that walks
				// neighbours by patching the field in place finds this one — and leaves the caller's bytes patched
				nb := ref.OCRAIn{C: cp(fields[0]), Q: cp(fields[1]), P: cp(fields[2]), S: cp(fields[3]), T: cp(fields[4])}
				f := &nb.T
				if !st.Cfg.T || len(nb.T) != 8 || (st.U>>3)%2 == 0 && st.Cfg.C && len(nb.C) == 8 {
					f = &nb.C
				}
				if len(*f) == 8 {
					d := byte(1)
					if (st.U>>2)%2 == 0 {
						d = 0xff
					}
					for k := 7; k >= 0; k-- { // add +1 or -1 big-endian
						(*f)[k] += d
						if d == 1 && (*f)[k] != 0 || d == 0xff && (*f)[k] != 0xff {
							break
						}
					}
					if want, err := ref.OCRA([]byte(c12Key), st.Cfg, nb); err == nil {
						code = want
						labels = append(labels, "neighbour-step-code")
					}
				}
			}
			okk, verr := otp.ValidateOCRA(c12Secret, code, suiteArg, in)
			if okk {
				labels = append(labels, "accepted")
			}
			keepErr(verr, i, "ValidateOCRA")
			if e := checkPtr(); e != nil {
				return bad(true, labels, "step %d ValidateOCRA: %v", i, e)
			}
		case "OCRAInput.Validate":
			// the input struct itself is the caller's too: after the check its five fields are the very slices they were (same
			// array, length, capacity, nil-ness) — a check that "normalises" its receiver hands padded copies back
			hdr := func(x otp.OCRAInput) string {
				return fmt.Sprintf("%p/%d/%d/%v %p/%d/%d/%v %p/%d/%d/%v %p/%d/%d/%v %p/%d/%d/%v", x.Counter, len(x.Counter), cap(x.Counter), x.Counter == nil, x.Challenge, len(x.Challenge), cap(x.Challenge), x.Challenge == nil,
					x.Password, len(x.Password), cap(x.Password), x.Password == nil, x.SessionInfo, len(x.SessionInfo), cap(x.SessionInfo), x.SessionInfo == nil, x.Timestamp, len(x.Timestamp), cap(x.Timestamp), x.Timestamp == nil)
			}
			h0 := hdr(in)
			keepErr(in.Validate(lc), i, "OCRAInput.Validate")
			if h1 := hdr(in); h1 != h0 {
				return bad(true, labels, "step %d: OCRAInput.Validate changed the input struct it was called on (array/len/cap/nil of counter, challenge, password, session, timestamp): %s -> %s", i, h0, h1)
			}
			pin := &in
			_ = pin.Validate(lc)
			if h1 := hdr(in); h1 != h0 {
				return bad(true, labels, "step %d: OCRAInput.Validate through a pointer changed the input struct: %s -> %s", i, h0, h1)
			}
		case "GenerateHOTP":
			if code, err := otp.GenerateHOTP(c12Secret, st.U, param); err == nil {
				keep(code, "HOTP code")
			}
		case "ValidateHOTP":
			if okk, _ := otp.ValidateHOTP(c12Secret, c12Code(st, st.U), st.U, param); okk {
				labels = append(labels, "accepted")
			}
		case "GenerateTOTP":
			if code, err := otp.GenerateTOTP(c12Secret, time.Unix(int64(st.U%(1<<40)), 0), param); err == nil {
				keep(code, "TOTP code")
			}
		case "ValidateTOTP":
			per := st.Period
			if st.NilP || per == 0 {
				per = 30
			}
			if okk, _ := otp.ValidateTOTP(c12Secret, c12Code(st, (st.U%(1<<40))/per), time.Unix(int64(st.U%(1<<40)), 0), param); okk {
				labels = append(labels, "accepted")
			}
		case "GenerateTOTPURL", "GenerateHOTPURL":
			up := otp.URLParam{Issuer: "Iss uer", AccountName: st.Text + "@x", Secret: c12Secret, Period: uint(st.Period), Digits: otp.Digits(st.Digits), Algorithm: otp.Algorithm(st.Algo % 3)}
			upCopy := up
			var u *url.URL
			if st.Op == "GenerateTOTPURL" {
				u, _ = otp.GenerateTOTPURL(up)
			} else {
				u, _ = otp.GenerateHOTPURL(up)
			}
			if up != upCopy {
				return bad(true, labels, "step %d %s modified the caller's URLParam: %+v -> %+v", i, st.Op, upCopy, up)
			}
			if u != nil {
				keep(u.String(), "URL text")
				keepURL(u, "URL returned by "+st.Op)
			}
		case "ParseOTPAuthURL":
			// type in any letter case (also unsupported ones), odd labels, user info, fragment: whatever the outcome, the URL stays as it was
			host := []string{"totp", "hotp", "TOTP", "Hotp", "hOTP", "MOTP", "totp:80", ""}[st.U%8]
			scheme := []string{"otpauth", "otpauth", "otpauth", "OTPAUTH", "http"}[(st.U>>8)%5]
			u, err := url.Parse(scheme + "://" + []string{"", "user:pw@"}[(st.U>>16)%2] + host + "/" + url.PathEscape("Iss:"+st.Text) + "?secret=ABC&digits=" + fmt.Sprint(st.Digits) + "&period=" + fmt.Sprint(st.Period) + "&issuer=Iss&ALGORITHM=sha1&algorithm=" + []string{"SHA1", "sha256", "md5"}[(st.U>>24)%3] + "#frag")
			if err == nil {
				before := *u
				var ui url.Userinfo
				if u.User != nil {
					ui = *u.User
				}
				p, _ := otp.ParseOTPAuthURL(u)
				if !reflect.DeepEqual(before, *u) || (u.User != nil && *u.User != ui) {
					return bad(true, labels, "step %d ParseOTPAuthURL modified the caller's URL: %+v -> %+v", i, before, *u)
				}
				keepURL(u, "URL that was passed to ParseOTPAuthURL")
				if p != nil {
					// what a caller does with a parse result: hand it (its value) to the URL builders. They get a URLParam, not
					// the URL: the parsed URL stays as it was, each call returns a URL of its own, and an earlier result does
					// not change when the next one is built
					q := *p
					q.AccountName += "+1"
					u2, _ := otp.GenerateTOTPURL(*p)
					keepURL(u2, "URL returned by GenerateTOTPURL(parse result)")
					u3, _ := otp.GenerateHOTPURL(q)
					keepURL(u3, "URL returned by GenerateHOTPURL(parse result)")
					if u2 != nil && (u2 == u || u2 == u3) || u3 != nil && u3 == u {
						return bad(true, labels, "step %d: a URL builder called with the result of ParseOTPAuthURL returned the very *url.URL that had been parsed, or the same one twice (%p %p %p)", i, u, u2, u3)
					}
					if !reflect.DeepEqual(before, *u) {
						return bad(true, labels, "step %d: building a URL from the result of ParseOTPAuthURL modified the URL that had been parsed: %+v -> %+v", i, before, *u)
					}
					if u2 != nil {
						u2.Host, u2.Path, u2.RawQuery = "scribbled", "/scribbled", "x=1"
						if !reflect.DeepEqual(before, *u) {
							return bad(true, labels, "step %d: the URL returned by GenerateTOTPURL(parse result) shares memory with the URL that had been parsed", i)
						}
						keptURLs = keptURLs[:len(keptURLs)-2]
						keepURL(u3, "URL returned by GenerateHOTPURL(parse result)")
					}
					// the result must not be wired to the argument: changing it leaves the URL alone
					p.Issuer, p.AccountName, p.Secret = "x", "y", "z"
					if !reflect.DeepEqual(before, *u) {
						return bad(true, labels, "step %d ParseOTPAuthURL result shares memory with the URL", i)
					}
				}
			}
		case "NewSuite":
			if s, err := otp.NewSuite(lc); err == nil && s != nil {
				cfg2 := s.Config()
				cfg2.Digits = 99 // scribble over the returned copy
				if s.Config().Digits == 99 {
					return bad(true, labels, "step %d: Suite.Config() returns shared state", i)
				}
			}
		case "Registry":
			names := otp.ListSuites()
			for k := range names {
				names[k] = "scribbled"
			}
			if s, err := otp.NewRawSuite(st.Text); err == nil {
				if rs, okk := s.(otp.RawSuite); okk {
					rs.Digits, rs.Raw, rs.IncludeCounter = 99, "scribbled", !rs.IncludeCounter
				}
			}
			cfg := otp.SuiteConfigFromRaws(st.Text)
			cfg.Digits, cfg.Hash = 77, 9
		case "CustomDefaults":
			// a caller has replaced the exported defaults by its own parameter set (the variables are exported for that):
			// nil-parameter calls read it and leave it exactly as the caller made it — also when it is an "incomplete" one
			// (Digits 0, Period 0) that the library cannot use
			mine := otp.Param{Digits: otp.Digits(st.Digits), Algorithm: otp.Algorithm(st.Algo), Period: uint(st.Period), Skew: uint(st.Skew)}
			if st.U%4 == 0 {
				mine = otp.Param{} // everything left at zero
			}
			hp, tp := mine, mine
			otp.DefaultHOTPParam, otp.DefaultTOTPParam = &hp, &tp
			instant := time.Unix(int64(st.U%(1<<40)), 0)
			otp.GenerateHOTP(c12Secret, st.U, nil)
			otp.ValidateHOTP(c12Secret, "123456", st.U, nil)
			otp.GenerateTOTP(c12Secret, instant, nil)
			otp.ValidateTOTP(c12Secret, "123456", instant, nil)
			changed := otp.DefaultHOTPParam != &hp || otp.DefaultTOTPParam != &tp || hp != mine || tp != mine
			nowH, nowT := otp.DefaultHOTPParam, otp.DefaultTOTPParam
			restoreGlobals()
			if changed {
				return bad(true, labels, "step %d: nil-parameter calls changed the defaults the caller had installed (%+v): DefaultHOTPParam %p -> %p %+v, DefaultTOTPParam %p -> %p %+v", i, mine, &hp, nowH, hp, &tp, nowT, tp)
			}
			nt = true
		case "Helpers":
			// an OCRA input whose fields come from the helpers, passed in once and kept by the caller (compared after every
			// later step, which may be any operation)
			{
				dec := strconv.FormatUint(st.U, 10)
				cnt := otp.To8ByteBigEndian(st.U)
				ts, _ := otp.ParseDecimal64BigEndian(dec)
				cnt2, _ := otp.ParseDecimalToBigEndian8(dec)
				hts, _ := otp.ParseHexTimestamp(fmt.Sprintf("%x", st.U))
				q, _ := otp.ParseDecimalChallengeRFC6287(dec)
				mh := otp.MustHexPadLeft(fmt.Sprintf("%x", st.U|1), 8)
				if su, serr := otp.NewRawSuite("OCRA-1:HOTP-SHA1-6:C-QN08-T1M"); serr == nil {
					otp.GenerateOCRA(c12Secret, su, otp.OCRAInput{Counter: cnt, Challenge: q, Timestamp: ts})
					otp.ValidateOCRA(c12Secret, "123456", su, otp.OCRAInput{Counter: cnt2, Challenge: q, Timestamp: hts})
				}
				for _, f := range []struct {
					b    []byte
					what string
				}{{cnt, "To8ByteBigEndian"}, {ts, "ParseDecimal64BigEndian"}, {cnt2, "ParseDecimalToBigEndian8"}, {hts, "ParseHexTimestamp"}, {q, "ParseDecimalChallengeRFC6287"}, {mh, "MustHexPadLeft"}} {
					if f.b != nil {
						keptFields = append(keptFields, keptField{f.b, append([]byte(nil), f.b...), f.what, i})
					}
				}
				if len(keptFields) > 60 {
					keptFields = keptFields[len(keptFields)-60:]
				}
			}
			a := otp.To8ByteBigEndian(st.U)
			wantA := append([]byte(nil), a...)
			for k := range a {
				a[k] = canary
			}
			if b := otp.To8ByteBigEndian(st.U); !bytes.Equal(b, wantA) {
				return bad(true, labels, "step %d: To8ByteBigEndian returns shared memory", i)
			}
			hx := fmt.Sprintf("%016x", st.U)
			oi, err := otp.HexInputToOCRA(hx, hx+hx, "", hx, hx)
			if err == nil {
				w := append([]byte(nil), oi.Challenge...)
				for k := range oi.Challenge {
					oi.Challenge[k] = canary
				}
				for k := range oi.Counter {
					oi.Counter[k] = canary
				}
				if o2, _ := otp.HexInputToOCRA(hx, hx+hx, "", hx, hx); !bytes.Equal(o2.Challenge, w) {
					return bad(true, labels, "step %d: HexInputToOCRA returns shared memory", i)
				}
			}
			// a decoded key belongs to the caller (who may wipe it after use): overwriting it changes neither what the same
			// text decodes to next time nor any code computed from the text afterwards
			for _, text := range []string{c12Secret, "  " + strings.ToLower(c12Secret) + "\n", ref.B32Pad([]byte(st.Text + "key"))} {
				k1, derr := otp.DecodeSecret(text)
				if derr != nil {
					continue
				}
				wantK := append([]byte(nil), k1...)
				for k := range k1 {
					k1[k] = 0
				}
				if full := k1[:cap(k1)]; len(full) > len(k1) {
					for k := len(k1); k < len(full); k++ {
						full[k] = canary
					}
				}
				if k2, _ := otp.DecodeSecret(text); !bytes.Equal(k2, wantK) {
					return bad(true, labels, "step %d: after the caller wiped the key DecodeSecret(%q) had returned, the same text decodes to %x (was %x): the result shares memory with what later calls use", i, text, k2, wantK)
				}
				if code, gerr := otp.GenerateHOTP(text, st.U, nil); gerr != nil || code != ref.MustHOTP(wantK, st.U, 6, 0) {
					return bad(true, labels, "step %d: after the caller wiped the key DecodeSecret(%q) had returned, GenerateHOTP(text, %d) = %q, %v; want %q", i, text, st.U, code, gerr, ref.MustHOTP(wantK, st.U, 6, 0))
				}
				if okk, _ := otp.ValidateTOTP(text, ref.MustHOTP(wantK, st.U%(1<<40)/30, 6, 0), time.Unix(int64(st.U%(1<<40)), 0), nil); !okk {
					return bad(true, labels, "step %d: after the caller wiped the key DecodeSecret(%q) had returned, ValidateTOTP rejects the text's own code", i, text)
				}
			}
		case "StdInterfaces":
			// Whatever standard decoding interfaces the library's types implement — now or later: encoding.TextUnmarshaler,
			// encoding.BinaryUnmarshaler, json.Unmarshaler, or plain encoding/json on the exported fields — they take a byte
			// slice of the caller's. The call leaves the slice as it was, and what it produced does not change when the caller
			// re-uses its buffer afterwards (a value that kept a string or slice pointing into the argument would).
			texts := []string{"OCRA-1:HOTP-SHA1-6:QN08", "OCRA-1:HOTP-SHA256-8:C-QN08-PSHA1-S064-T1M", st.Text, "SHA256", "SHA512", "8", "6", "QN08", "1"}
			for _, mk := range []func() any{func() any { return new(otp.RawSuite) }, func() any { return new(otp.SuiteConfig) }, func() any { return new(otp.Param) }, func() any { return new(otp.URLParam) },
				func() any { return new(otp.OCRAInput) }, func() any { return new(otp.Algorithm) }, func() any { return new(otp.Digits) }, func() any { return new(otp.ChallengeFormat) }, func() any { return new(otp.PasswordHashAlgorithm) }} {
				for _, text := range texts {
					for mode := 0; mode < 3; mode++ {
						v := mk()
						var buf []byte
						var derr error
						switch mode {
						case 0:
							tu, isTU := v.(encoding.TextUnmarshaler)
							if !isTU {
								continue
							}
							buf = []byte(text)
							derr = tu.UnmarshalText(buf)
						case 1:
							bu, isBU := v.(encoding.BinaryUnmarshaler)
							if !isBU {
								continue
							}
							buf = []byte(text)
							derr = bu.UnmarshalBinary(buf)
						default:
							buf, _ = json.Marshal(text)
							if _, isJU := v.(json.Unmarshaler); !isJU {
								if _, isTU := v.(encoding.TextUnmarshaler); !isTU {
									// a struct without a decoder of its own: encoding/json fills the exported fields
									buf, _ = json.Marshal(map[string]any{"Raw": text, "raw": text, "Issuer": text, "Secret": text, "Challenge": []byte(text), "hash": 1, "digits": 8})
								}
							}
							derr = json.Unmarshal(buf, v)
						}
						if derr != nil {
							continue
						}
						was := append([]byte(nil), buf...)
						render := func() string {
							out := fmt.Sprintf("%#v", reflect.ValueOf(v).Elem().Interface())
							if sg, isS := reflect.ValueOf(v).Elem().Interface().(fmt.Stringer); isS {
								out += "|" + sg.String()
							}
							return out
						}
						r1 := render()
						for k := range buf {
							buf[k] = 'x' - byte(k%3)
						}
						if r2 := render(); r2 != r1 {
							return bad(true, labels, "step %d: a %T decoded from the caller's buffer %q changed when the caller re-used the buffer: %s -> %s", i, v, was, r1, r2)
						}
						labels = append(labels, fmt.Sprintf("std-decoder=%T/%d", v, mode))
					}
				}
			}
		case "padBytes":
			// direct look at the padding helper through the hook
			for k, w := range pads {
				if w == 0 || fields[k] == nil {
					continue
				}
				out := otp.VerifPadBytes(fields[k], w)
				if len(out) != w {
					return bad(true, labels, "step %d: padBytes(len %d, %d) returned %d bytes", i, len(fields[k]), w, len(out))
				}
				if len(fields[k]) < w {
					for j := range out { // writing into the result must not reach the caller's array
						out[j] ^= 0xff
					}
				}
			}
		default:
			panic("HARNESS: unknown op " + st.Op)
		}
		// caller memory: full backing arrays incl. the capacity behind the length
		for k := range backs {
			if !bytes.Equal(backs[k], snaps[k]) {
				return bad(true, labels, "step %d %s modified caller memory of field %d (len %d, layout %d, spare %d): %x -> %x", i, st.Op, k, st.Slots[k].Len, st.Slots[k].Layout, st.Slots[k].Spare, snaps[k], backs[k])
			}
		}
		if param != nil && *param != paramCopy {
			return bad(true, labels, "step %d %s modified the caller's Param: %+v -> %+v", i, st.Op, paramCopy, *param)
		}
		if lc != lcCopy {
			return bad(true, labels, "step %d %s modified the caller's SuiteConfig", i, st.Op)
		}
		if err := globalsIntact(); err != nil {
			restoreGlobals()
			return bad(true, labels, "after step %d (%s, nil param=%v, period=%d): %v", i, st.Op, st.NilP, st.Period, err)
		}
		// aliasing the other way: scribbling over the arguments afterwards must not change retained results
		for k := range backs {
			for j := range backs[k] {
				backs[k][j] = 0x3c
			}
		}
		for _, r := range kept {
			if r.got != r.copy {
				return bad(true, labels, "a retained %s changed after step %d: %q -> %q", r.what, i, r.copy, r.got)
			}
		}
		for _, k := range keptErrs {
			if now := fmt.Sprintf("%v|%+v|%#v", k.err, k.err, k.err); now != k.text {
				return bad(true, labels, "the error %s returned in step %d reads differently after step %d (the caller has re-used its buffers since): %q -> %q", k.op, k.step, i, k.text, now)
			}
		}
		for _, k := range keptFields {
			if !bytes.Equal(k.b, k.was) {
				return bad(true, labels, "an OCRA input field the caller had built with %s in step %d and passed in changed during step %d (%s): %x -> %x", k.what, k.step, i, st.Op, k.was, k.b)
			}
		}
		for _, k := range keptParams {
			if *k.p != k.was {
				return bad(true, labels, "the *Param passed to %s in step %d changed during step %d (%s): %+v -> %+v", k.op, k.step, i, st.Op, k.was, *k.p)
			}
		}
		for _, k := range keptURLs {
			if !reflect.DeepEqual(k.before, *k.u) || k.u.String() != k.text {
				return bad(true, labels, "a %s changed after step %d (%s): %q -> %q", k.what, i, st.Op, k.text, k.u.String())
			}
		}
	}
	return ok(nt, labels...)
}

var c12Main = newPart("C12", "histories",
	"rapid: histories of 1..12 calls over all operations taking slices, pointers or structs (GenerateOCRA, ValidateOCRA, OCRAInput.Validate, Generate/Validate HOTP/TOTP with *Param incl. nil and period 0, Generate{TOTP,HOTP}URL, ParseOTPAuthURL, NewSuite, registry lookups with scribbling over returned values, nil-parameter calls after the caller installed its own (also incomplete) default parameter sets, helper results - also kept as the fields of an OCRA input that was passed in and compared after every later step -, the padding helper through its hook); every OCRA byte field presented as len==cap, as a prefix of a larger array whose spare capacity holds canary bytes, or as a middle sub-slice, lengths {nil,0,1,7,8,9,127,128,129} or random 0..140; oracle: byte-wise equality of full backing arrays (incl. capacity behind the length), Param / SuiteConfig / URLParam / url.URL copies, DefaultHOTPParam, DefaultTOTPParam (values and pointers) and the whole suite registry — through its accessors and, read directly through the hook VerifRegistry, the package variable itself rendered deeply whatever its type — before vs after every call; validation steps submit the reference's correct code in half of the cases (the accepting path); retained result strings compared with independent copies after every later call and after scribbling over the arguments; non-trivial = a field with spare capacity that is shorter than its pad width, or a nil-param call, or a period-0 call",
	checkC12)

var c12Ops = []string{"GenerateOCRA", "GenerateOCRA", "GenerateOCRA", "ValidateOCRA", "OCRAInput.Validate", "GenerateHOTP", "ValidateHOTP", "GenerateTOTP", "GenerateTOTP", "ValidateTOTP", "ValidateTOTP",
	"GenerateTOTPURL", "GenerateHOTPURL", "ParseOTPAuthURL", "NewSuite", "Registry", "Helpers", "padBytes", "padBytes", "CustomDefaults", "StdInterfaces"}

func drawSlot(t *rapid.T, label string, want int) slot {
	s := slot{Layout: rapid.IntRange(0, 2).Draw(t, label+"Layout"), Fill: rapid.Byte().Draw(t, label+"Fill")}
	switch rapid.IntRange(0, 5).Draw(t, label+"LenK") {
	case 0:
		s.Len = -1
	case 1, 2:
		s.Len = want // admissible
	case 3:
		s.Len = rapid.SampledFrom([]int{0, 1, 7, 8, 9, 10, 20, 32, 64, 127, 128, 129}).Draw(t, label+"LenB")
	default:
		s.Len = rapid.IntRange(0, 140).Draw(t, label+"Len")
	}
	s.Spare = rapid.SampledFrom([]int{1, 8, 120, 128, 136, 300}).Draw(t, label+"Spare")
	return s
}

func genC12(t *rapid.T) c12Case {
	n := rapid.IntRange(1, 12).Draw(t, "nSteps")
	var c c12Case
	for i := 0; i < n; i++ {
		st := c12Step{Op: rapid.SampledFrom(c12Ops).Draw(t, "op"), Cfg: drawUsableCfg(t)}
		st.Cfg.Raw = "suite"
		want := [5]int{8, rapid.SampledFrom([]int{10, 16, 64, 127, 128}).Draw(t, "qWant"), ref.PLen(st.Cfg.PHash), rapid.SampledFrom([]int{0, 5, 64, 127, 128}).Draw(t, "sWant"), 8}
		if want[2] < 0 {
			want[2] = 20
		}
		for k := range st.Slots {
			st.Slots[k] = drawSlot(t, fmt.Sprintf("f%d", k), want[k])
		}
		st.Digits = rapid.SampledFrom([]int{6, 6, 8, 10, 0, 11}).Draw(t, "digits")
		st.Algo = rapid.SampledFrom([]int{0, 1, 2, 0, 1, 2, 3}).Draw(t, "algo")
		st.Period = rapid.SampledFrom([]uint64{0, 0, 30, 30, 60, 1}).Draw(t, "period")
		st.Skew = rapid.SampledFrom([]uint64{0, 1, 2, 10, 11}).Draw(t, "skew")
		st.NilP = rapid.IntRange(0, 3).Draw(t, "nilP") == 0
		st.U = rapid.Uint64().Draw(t, "u")
		if rapid.Bool().Draw(t, "regName") {
			st.Text = rapid.SampledFrom(registeredNames).Draw(t, "name")
		} else {
			st.Text = rapid.SampledFrom([]string{"alice", "a b", "OCRA-1:HOTP-SHA1-6:QN08-T5M", "x%y"}).Draw(t, "text")
		}
		c.Steps = append(c.Steps, st)
	}
	return c
}

func TestC12_Histories(t *testing.T) {
	c12Main.rapid(t, ev.Pick(6_000, 100_000), genC12)
}
