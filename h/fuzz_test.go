package verifh

import (
	"fmt"
	"testing"
	"unicode/utf8"

	otp "github.com/ja7ad/otp"

	"verifh/ev"
	"verifh/gen"
	"verifh/ref"
)

// Native (coverage-guided) fuzz targets, thorough tier only. Each decodes the fuzzer's
// bytes into the same structured case its property check uses (data-provider layer) and
// runs the same oracle; a failure is stored as the usual JSON replay file.

type provider struct {
	b []byte
	i int
}

func (p *provider) byte() byte {
	if p.i >= len(p.b) {
		return 0
	}
	x := p.b[p.i]
	p.i++
	return x
}

func (p *provider) intn(n int) int { return int(p.byte()) % n }

func (p *provider) u64() uint64 {
	var v uint64
	for k := 0; k < 8; k++ {
		v = v<<8 | uint64(p.byte())
	}
	return v
}

func (p *provider) bytes(max int) []byte {
	n := int(p.byte())
	if max > 255 {
		n = n<<1 | int(p.byte()&1)
	}
	if n > max {
		n = max
	}
	out := make([]byte, n)
	for k := range out {
		out[k] = p.byte()
	}
	return out
}

func (p *provider) spelling() gen.Spelling {
	b := p.byte()
	return gen.Spelling{Pad: int(b % 3), PadN: int(b>>2) % 8, Case: int(b>>5) % 3, Mask: p.u64(), Lead: gen.Ws[int(p.byte())%len(gen.Ws)], Trail: gen.Ws[int(p.byte())%len(gen.Ws)]}
}

func fuzzFail[C any](t *testing.T, p *part[C], c C) {
	if v := p.safe(c); v.Err != nil {
		path := ev.WriteReplay(p.id, p.name, c, v.Err)
		t.Fatalf("%s/%s violated: %v [replay %s]", p.id, p.name, v.Err, path)
	}
}

func FuzzC01(f *testing.F) {
	f.Add([]byte("12345678901234567890"), uint64(0), uint8(6), uint8(0), []byte{1, 0, 0})
	f.Add([]byte{}, uint64(1<<63), uint8(10), uint8(2), []byte{0x2b, 9, 9, 9, 9, 9, 9, 9, 9, 3, 4})
	f.Add(make([]byte, 129), uint64(1<<32), uint8(0), uint8(3), []byte{})
	f.Fuzz(func(t *testing.T, key []byte, counter uint64, digits, algo uint8, sp []byte) {
		if len(key) > 300 {
			key = key[:300]
		}
		p := &provider{b: sp}
		c := c01Case{Key: key, Sp: p.spelling(), Counter: counter, Digits: int(digits), Algo: int(algo), NilParam: p.byte()&7 == 7}
		fuzzFail(t, c01Main, c)
	})
}

func FuzzC05(f *testing.F) {
	f.Add([]byte{0, 3, 1, 2, 3, 4, 5, 6, 7, 8, 9, 10, 11, 12, 13, 14, 15, 16})
	f.Add([]byte{1, 31, 2, 9, 3, 3, 2, 60, 200, 8, 8, 8, 8, 8, 8, 8, 8, 8, 8, 8, 8, 8, 8, 8, 8})
	f.Add([]byte{2, 17, 0, 4, 6, 1, 1, 4, 0, 0, 0, 0, 0, 0, 0, 0, 0, 0, 0, 0, 0, 0, 0, 0, 0, 128, 1, 1})
	f.Fuzz(func(t *testing.T, data []byte) {
		p := &provider{b: data}
		var c c05Case
		switch p.intn(4) {
		case 0:
			c.Suite = suiteSpec{Via: "registered", Name: registeredNames[p.intn(len(registeredNames))]}
		default:
			cfg := ref.OCRACfg{SessionNN: -1, Hash: p.intn(3), Digits: 4 + p.intn(7)}
			mask := p.intn(32)
			cfg.C, cfg.Q, cfg.P, cfg.S, cfg.T = mask&1 != 0, mask&2 != 0, mask&4 != 0, mask&8 != 0, mask&16 != 0
			cfg.QFormat, cfg.PHash, cfg.TimeStep = p.intn(7), p.intn(4), p.intn(3)-1
			if cfg.Q && cfg.QFormat == 0 {
				cfg.QFormat = 1
			}
			if cfg.P && cfg.PHash == 0 {
				cfg.PHash = 1
			}
			if cfg.T && cfg.TimeStep <= 0 {
				cfg.TimeStep = 30
			}
			raw := p.bytes(80)
			if !utf8.Valid(raw) {
				raw = []byte(fmt.Sprintf("%x", raw))
			}
			cfg.Raw = string(raw)
			c.Suite = suiteSpec{Via: []string{"config", "rawsuite", "newsuite"}[p.intn(3)], Cfg: cfg}
		}
		_, cfg, err := c.Suite.resolve()
		if err != nil {
			return
		}
		c.Key = p.bytes(200)
		c.Sp = gen.Spelling{Pad: 1}
		fill := func(n int) []byte {
			out := make([]byte, n)
			for k := range out {
				out[k] = p.byte()
			}
			return out
		}
		if cfg.C {
			c.In.C = fill(8)
		}
		if cfg.Q {
			lo := ref.QMin(cfg.QFormat)
			c.In.Q = fill(lo + p.intn(128-lo+1))
		}
		if cfg.P {
			c.In.P = fill(ref.PLen(cfg.PHash))
		}
		if cfg.S {
			c.In.S = fill(p.intn(129))
		}
		if cfg.T {
			c.In.T = fill(8)
		}
		c.Junk = ref.OCRAIn{C: p.bytes(20), Q: p.bytes(300), P: p.bytes(70), S: p.bytes(300), T: p.bytes(20)}
		fuzzFail(t, c05Main, c)
	})
}

func FuzzC10(f *testing.F) {
	for op := range c10Ops {
		f.Add([]byte{byte(op), 1, 2, 3, 4, 5, 6, 7, 8, 9, 10, 11, 12, 13, 14, 15, 16, 17, 18, 19, 20})
	}
	f.Add(append([]byte{8, 40}, []byte("otpauth://totp/a:b?secret=x&digits=300&period=-1")...))
	f.Add(append([]byte{23, 40}, []byte("OCRA-1:HOTP-SHA1-6:QN08-PSHA1-S064-T1M")...))
	f.Fuzz(func(t *testing.T, data []byte) {
		p := &provider{b: data}
		c := c10Case{Op: c10Ops[p.intn(len(c10Ops))]}
		for i := range c.S {
			c.S[i] = p.bytes(300)
		}
		for i := range c.B {
			switch p.intn(4) {
			case 0:
				c.BNil[i] = true
			default:
				c.B[i] = p.bytes(300)
			}
		}
		c.U, c.Period, c.Skew = p.u64(), p.u64(), p.u64()
		if p.byte()&1 == 0 {
			c.Period %= 64
			c.Skew %= 16
		}
		c.Digits, c.Algo = int(p.byte()), int(p.byte())
		c.Unix, c.Nsec = int64(p.u64()), int64(p.u64())
		c.Width = int(p.u64() % (1<<20 + 1))
		mask := p.intn(32)
		c.Cfg = ref.OCRACfg{Raw: string(c.S[3]), Hash: int(p.byte()), Digits: int(int8(p.byte())), C: mask&1 != 0, Q: mask&2 != 0, P: mask&4 != 0, S: mask&8 != 0, T: mask&16 != 0,
			QFormat: int(int8(p.byte())), PHash: int(int8(p.byte())), TimeStep: int(int8(p.byte())), SessionNN: -1}
		c.SuiteBy, c.NilP, c.URLKind, c.Hostile = p.intn(4), p.byte()&7 == 0, p.intn(5), true
		if p.byte()&1 == 1 {
			// usable configuration and admissible inputs with ONE hostile ingredient (as in the rapid generator)
			c.Cfg.Hash, c.Cfg.Digits, c.Cfg.QFormat, c.Cfg.PHash, c.Cfg.TimeStep = c.Algo%3, 4+c.Digits%7, 1+c.Digits%6, 1+c.Algo%3, 1
			c.BNil = [5]bool{}
			c.B[0], c.B[4] = make([]byte, 8), make([]byte, 8)
			c.B[1] = make([]byte, ref.QMin(c.Cfg.QFormat)+p.intn(100))
			c.B[2] = make([]byte, ref.PLen(c.Cfg.PHash))
			c.B[3] = make([]byte, p.intn(129))
			switch p.intn(5) {
			case 0:
				c.Cfg.PHash = int(int8(p.byte()))
				c.B[2] = make([]byte, int(p.byte())*4)
			case 1:
				c.Cfg.QFormat = int(int8(p.byte()))
				c.B[1] = make([]byte, int(p.byte()))
			case 2:
				c.B[p.intn(5)] = make([]byte, int(p.byte())*3)
			case 3:
				c.BNil[p.intn(5)] = true
			default:
				c.Cfg.TimeStep = int(int8(p.byte()))
			}
		}
		fuzzFail(t, c10Main, c)
	})
}

func FuzzC15(f *testing.F) {
	for _, n := range registeredNames {
		f.Add(n)
	}
	for _, s := range []string{"OCRA-1:HOTP-SHA512-10:C-QN10-PSHA256-S064-T48H", "OCRA-10:HOTP-SHA1-6:QN08", "OCRA-1:HOTP-SHA1-6:QN08-SFOO", "ocra-1:hotp-sha1-6:qn08-t1m", "OCRA-1:HOTP-SHA1-6:QN08-QN8", "::", "OCRA-1:HOTP-SHA1-6:QN08-ſ"} {
		f.Add(s)
	}
	reg := map[string]bool{}
	for _, n := range registeredNames {
		reg[n] = true
	}
	f.Fuzz(func(t *testing.T, name string) {
		if len(name) > 200 {
			return
		}
		fuzzFail(t, c15Mut, c15Case{Name: name, Registered: reg[name], Expect: "any"})
	})
}

func FuzzC16(f *testing.F) {
	f.Add("My Company", "alice@example.com", "JBSWY3DPEHPK3PXP", uint8(6), uint32(30), uint8(0), true)
	f.Add("100% / ?#", "a:b c", "se cret+%41", uint8(0), uint32(0), uint8(2), false)
	f.Add("%2F..", "/x", "=", uint8(255), uint32(1<<31), uint8(1), true)
	f.Fuzz(func(t *testing.T, issuer, account, secret string, digits uint8, period uint32, algo uint8, totp bool) {
		if issuer == "" || account == "" || secret == "" || !utf8.ValidString(issuer) || !utf8.ValidString(account) || !utf8.ValidString(secret) {
			return
		}
		for i := 0; i < len(issuer); i++ {
			if issuer[i] == ':' {
				return
			}
		}
		if len(issuer)+len(account)+len(secret) > 600 || period > 1<<31 {
			return
		}
		c := c16Case{Kind: "hotp", Issuer: issuer, Account: account, Secret: secret, Digits: int(digits), Period: uint64(period), Algo: int(algo % 3)}
		if totp {
			c.Kind = "totp"
		}
		fuzzFail(t, c16Main, c)
	})
}

func FuzzC17(f *testing.F) {
	f.Add(uint8(1), []byte("12345678"), uint16(8), uint64(1<<40))
	f.Add(uint8(5), []byte("000000000000000001"), uint16(0), uint64(0))
	f.Add(uint8(7), []byte("340282366920938463463374607431768211456"), uint16(0), uint64(0))
	f.Fuzz(func(t *testing.T, fn uint8, s []byte, n uint16, u uint64) {
		if len(s) > 400 {
			return
		}
		names := []string{"To8ByteBigEndian", "ParseDecimalToBigEndian8", "ParseDecimal64BigEndian", "LeftPadHex", "MustHexPadLeft", "ParseHexTimestamp", "HexInputToOCRA", "ParseDecimalChallengeRFC6287"}
		c := c17Case{Fn: names[int(fn)%len(names)], U: u, S: s, N: int(n) % 600}
		if c.Fn == "HexInputToOCRA" {
			k := len(s) / 5
			for i := range c.F {
				c.F[i] = string(s[i*k : (i+1)*k])
			}
		}
		fuzzFail(t, c17Main, c)
	})
}

func FuzzC03(f *testing.F) {
	f.Add([]byte("12345678901234567890"), uint64(0), uint8(2), uint8(6), uint8(0), []byte("755224"), false)
	f.Add([]byte("k"), uint64(1<<63), uint8(10), uint8(10), uint8(2), []byte("0000000000"), false)
	f.Add([]byte{}, uint64(1<<64-1), uint8(0), uint8(1), uint8(1), []byte("7"), true)
	f.Fuzz(func(t *testing.T, key []byte, counter uint64, skew, digits, algo uint8, code []byte, nilp bool) {
		if len(key) > 200 || len(code) > 40 {
			return
		}
		c := c03Case{Key: key, Sp: gen.Spelling{Pad: 1}, Counter: counter, Skew: uint64(skew % 14), Digits: int(digits % 12), Algo: int(algo % 4), NilParam: nilp, Code: code, Origin: "fuzz"}
		// half of the time submit a real code near the centre, derived from the fuzzer's bytes
		if len(code) > 0 && code[0]&1 == 1 && c.Digits >= 1 && c.Digits <= 10 && c.Algo <= 2 && !nilp {
			d := int(code[0]>>1)%(2*int(c.Skew)+7) - int(c.Skew) - 3
			c.Code = []byte(ref.MustHOTP(key, counter+uint64(int64(d)), c.Digits, c.Algo))
		}
		fuzzFail(t, c03Main, c)
	})
}

func FuzzC04(f *testing.F) {
	f.Add([]byte("12345678901234567890"), uint64(59), uint32(30), uint8(1), uint8(8), uint8(0), []byte("94287082"))
	f.Add([]byte("k"), uint64(1<<40), uint32(0), uint8(10), uint8(6), uint8(1), []byte("\x03"))
	f.Fuzz(func(t *testing.T, key []byte, unix uint64, period uint32, skew, digits, algo uint8, code []byte) {
		if len(key) > 200 || len(code) > 40 || unix >= 1<<62 {
			return
		}
		c := c04Case{Key: key, Sp: gen.Spelling{Pad: 1}, Unix: int64(unix), Period: uint64(period), Skew: uint64(skew % 14), Digits: int(digits % 12), Algo: int(algo % 4), Code: code, Origin: "fuzz"}
		p := c.Period
		if p == 0 {
			p = 30
		}
		if len(code) > 0 && code[0]&1 == 1 && c.Digits >= 1 && c.Digits <= 10 && c.Algo <= 2 {
			d := int(code[0]>>1)%(2*int(c.Skew)+7) - int(c.Skew) - 3
			c.Code = []byte(ref.MustHOTP(key, uint64(c.Unix)/p+uint64(int64(d)), c.Digits, c.Algo))
		}
		fuzzFail(t, c04Main, c)
	})
}

// fuzzSuite decodes a suite specification (registered name or hand-built configuration, usable or not).
func (p *provider) fuzzSuite() suiteSpec {
	if p.intn(4) == 0 {
		return suiteSpec{Via: "registered", Name: registeredNames[p.intn(len(registeredNames))]}
	}
	cfg := ref.OCRACfg{SessionNN: -1, Hash: p.intn(4), Digits: 3 + p.intn(9)}
	mask := p.intn(32)
	cfg.C, cfg.Q, cfg.P, cfg.S, cfg.T = mask&1 != 0, mask&2 != 0, mask&4 != 0, mask&8 != 0, mask&16 != 0
	cfg.QFormat, cfg.PHash, cfg.TimeStep = p.intn(7), p.intn(4), p.intn(4)-1
	raw := p.bytes(60)
	if !utf8.Valid(raw) {
		raw = []byte(fmt.Sprintf("%x", raw))
	}
	cfg.Raw = string(raw)
	return suiteSpec{Via: []string{"config", "rawsuite", "newsuite"}[p.intn(3)], Cfg: cfg}
}

var fuzzLens = []int{0, 1, 7, 8, 9, 10, 11, 19, 20, 21, 31, 32, 33, 63, 64, 65, 127, 128, 129, 130, 200, 256}

func (p *provider) field() []byte {
	switch p.intn(8) {
	case 0:
		return nil
	case 1:
		return p.bytes(300)
	}
	n := fuzzLens[p.intn(len(fuzzLens))]
	out := make([]byte, n)
	f := p.byte()
	for k := range out {
		out[k] = f + byte(k)*p.b[0]
	}
	return out
}

// FuzzC06: equivalence of validation and generation over suites, secrets, inputs (admissible or not) and submitted
// strings derived from the generated code by fuzzer-chosen edits.
func FuzzC06(f *testing.F) {
	f.Add([]byte{0, 3, 1, 2, 3, 4, 5, 6, 7, 8, 9, 10, 11, 12, 13, 14, 15, 16, 17, 18, 19, 20, 21, 22, 23, 24, 25, 26, 27, 28, 29, 30})
	f.Add([]byte{1, 2, 7, 31, 1, 1, 1, 0, 9, 9, 9, 9, 9, 9, 9, 9, 9, 9, 9, 9, 9, 9, 9, 9, 9, 9, 9, 9, 9, 9, 9, 9, 9, 9, 9, 9})
	f.Fuzz(func(t *testing.T, data []byte) {
		if len(data) == 0 {
			return
		}
		p := &provider{b: data}
		c := c06Case{Suite: p.fuzzSuite(), Origin: "fuzz"}
		key := p.bytes(100)
		c.Secret = gen.Spell(key, gen.Spelling{Pad: 1})
		if p.intn(16) == 0 {
			c.Secret += "!"
		}
		c.In = ref.OCRAIn{C: p.field(), Q: p.field(), P: p.field(), S: p.field(), T: p.field()}
		suite, _, _ := c.Suite.resolve()
		if suite == nil {
			return
		}
		g, gerr := safeGenerateOCRA(c.Secret, suite, c.In)
		code := []byte(g)
		if gerr != nil {
			code = []byte("000000")
		}
		switch p.intn(6) {
		case 0: // as generated
		case 1: // one byte replaced
			if len(code) > 0 {
				code[p.intn(len(code))] = p.byte()
			}
		case 2: // truncated / extended
			if p.byte()&1 == 0 && len(code) > 0 {
				code = code[:p.intn(len(code))]
			} else {
				code = append(code, p.byte())
			}
		case 3: // numeric alias
			code = []byte(fmt.Sprintf("%0*d", len(code), (atoiLoose(code)+uint64(1)<<(8*uint(1+p.intn(4))))%pow10u(len(code))))
		default:
			code = p.bytes(14)
		}
		c.Code = code
		fuzzFail(t, c06Main, c)
	})
}

func atoiLoose(b []byte) uint64 {
	var v uint64
	for _, ch := range b {
		if ch >= '0' && ch <= '9' {
			v = v*10 + uint64(ch-'0')
		}
	}
	return v
}

func pow10u(n int) uint64 {
	v := uint64(1)
	for i := 0; i < n && i < 19; i++ {
		v *= 10
	}
	return v
}

// FuzzC14: admission and usability against the independent predicates, configurations and lengths from the fuzzer.
func FuzzC14(f *testing.F) {
	f.Add([]byte{31, 1, 1, 6, 0, 1, 8, 8, 20, 0, 8, 3})
	f.Add([]byte{2, 4, 0, 10, 2, 0, 0, 129, 0, 0, 0, 11})
	f.Fuzz(func(t *testing.T, data []byte) {
		p := &provider{b: data}
		mask := p.intn(32)
		cfg := ref.OCRACfg{Raw: "fz", SessionNN: -1, C: mask&1 != 0, Q: mask&2 != 0, P: mask&4 != 0, S: mask&8 != 0, T: mask&16 != 0,
			QFormat: p.intn(7), PHash: p.intn(4), Digits: p.intn(14) - 1, Hash: p.intn(5), TimeStep: p.intn(4) - 1}
		fuzzFail(t, c14Cfg, c14CfgCase{Cfg: cfg})
		if !ref.SuiteUsable(cfg) {
			return
		}
		var lens [5]int
		for i := range lens {
			switch p.intn(4) {
			case 0:
				lens[i] = -1
			case 1:
				lens[i] = int(p.byte())<<8 | int(p.byte())
			default:
				lens[i] = fuzzLens[p.intn(len(fuzzLens))]
			}
		}
		fuzzFail(t, c14In, c14InCase{Cfg: cfg, Lens: lens, Full: p.byte()&1 == 0, Fill: p.byte(), Sweep: "fuzz"})
	})
}

// FuzzC02: TOTP against HOTP at floor(unix/period) over fuzzer-chosen instants, periods and parameters.
func FuzzC02(f *testing.F) {
	f.Add([]byte("12345678901234567890"), uint64(59), uint32(0), uint32(30), uint8(8), uint8(0), uint8(0))
	f.Add([]byte("k"), uint64(1<<40), uint32(999_999_999), uint32(7), uint8(10), uint8(2), uint8(5))
	f.Fuzz(func(t *testing.T, key []byte, unix uint64, nsec, period uint32, digits, algo, misc uint8) {
		if len(key) > 200 || unix >= 1<<62 {
			return
		}
		c := c02Case{Key: key, Sp: gen.Spelling{Pad: 1}, Unix: int64(unix), Nsec: int(nsec % 1_000_000_000), Zone: int(misc) % len(zones), Mono: misc&64 != 0,
			Period: uint64(period), Digits: int(digits % 12), Algo: int(algo % 4), NilParam: misc&128 != 0, Skew: uint64(misc>>3) % 11, Via: int(algo>>2) % 5}
		fuzzFail(t, c02Main, c)
	})
}

// FuzzC13: otpauth URL text from the fuzzer around a secret parameter; whatever error comes back must not carry the secret.
func FuzzC13(f *testing.F) {
	f.Add("otpauth://totp/ACME:bob?issuer=ACME&digits=6&period=30&algorithm=SHA1&", "&x=1", []byte("12345678901234567890"))
	f.Add("otpauth://hotp/ACME%3Abob?issuer=acme&counter=x&", "", []byte("0123456789abcdef"))
	f.Add("OTPAUTH://totp/:?", "&secret=A", []byte("kkkkkkkkkkkk"))
	f.Fuzz(func(t *testing.T, before, after string, key []byte) {
		if len(key) < 10 || len(key) > 64 || len(before)+len(after) > 400 {
			return
		}
		fuzzFail(t, c13URL, c13URLCase{Before: before, After: after, Key: key})
	})
}

// safeGenerateOCRA calls GenerateOCRA and turns a panic into an error (the harness only needs a base code here;
// panics are C10's subject and are reported by the part's own safe wrapper when they recur inside the check).
func safeGenerateOCRA(secret string, suite otp.Suite, in ref.OCRAIn) (g string, err error) {
	defer func() {
		if r := recover(); r != nil {
			err = fmt.Errorf("panic: %v", r)
		}
	}()
	return otp.GenerateOCRA(secret, suite, toLibIn(in))
}
