// Package ev records what a run covered (evidence fragments), writes replay
// files for failing cases and reads the harness environment.
package ev

import (
	"encoding/binary"
	"encoding/json"
	"fmt"
	"hash/fnv"
	"os"
	"path/filepath"
	"sort"
	"strconv"
	"strings"
	"sync"
)

// Env is the harness environment, set by the driver.
type Env struct {
	Tier    string // quick | thorough
	Seed    int64
	Shard   int
	NShards int
	Out     string // directory for fragments / replay files
	Replay  string // path of a replay file (replay mode)
}

var env = func() Env {
	e := Env{Tier: os.Getenv("VERIF_TIER"), Out: os.Getenv("VERIF_OUT"), Replay: os.Getenv("VERIF_REPLAY")}
	if e.Tier != "thorough" {
		e.Tier = "quick"
	}
	e.Seed, _ = strconv.ParseInt(os.Getenv("VERIF_SEED"), 10, 64)
	e.Shard, _ = strconv.Atoi(os.Getenv("VERIF_SHARD"))
	e.NShards, _ = strconv.Atoi(os.Getenv("VERIF_NSHARDS"))
	if e.NShards < 1 {
		e.NShards = 1
	}
	return e
}()

// Get returns the environment.
func Get() Env { return env }

// Thorough reports whether the thorough tier is running.
func Thorough() bool { return env.Tier == "thorough" }

// Pick returns q in the quick tier and t in the thorough tier.
func Pick(q, t int) int {
	if Thorough() {
		return t
	}
	return q
}

// Mine reports whether item i of an enumeration belongs to this shard.
func Mine(i int) bool { return i%env.NShards == env.Shard }

const maxHashes = 400_000 // per fragment; beyond it the distinct count is a lower bound

// Recorder accumulates evidence for one check (one Go test function).
type Recorder struct {
	ID   string // property id
	Part string // sub-check name
	Rule string
	mu   sync.Mutex

	evals      int64
	nontrivial int64
	hashes     map[uint64]struct{}
	capped     bool
	labels     map[string]int64
	samples    []json.RawMessage
	sampleKeys map[string]int
	exhaustive bool
	enumerated int64
	extra      map[string]any
}

// New creates a recorder.
func New(id, part, rule string) *Recorder {
	return &Recorder{ID: id, Part: part, Rule: rule, hashes: map[uint64]struct{}{}, labels: map[string]int64{}, sampleKeys: map[string]int{}, extra: map[string]any{}}
}

// Hash64 of a canonical encoding.
func Hash64(b []byte) uint64 {
	h := fnv.New64a()
	h.Write(b)
	return h.Sum64()
}

// Case records one evaluated case. c must be JSON-serialisable; nontrivial is
// the property's stated rule; labels classify the case for the histogram.
func (r *Recorder) Case(c any, nontrivial bool, labels ...string) {
	r.mu.Lock()
	defer r.mu.Unlock()
	r.evals++
	for _, l := range labels {
		r.labels[l]++
	}
	if !nontrivial {
		return
	}
	r.nontrivial++
	needSample := false
	key := ""
	if len(r.samples) < 12 {
		for _, l := range labels {
			key += l + ","
		}
		if r.sampleKeys[key] < 1 {
			needSample = true
		}
	}
	if r.capped && !needSample {
		return
	}
	b, err := json.Marshal(c)
	if err != nil {
		panic(fmt.Sprintf("ev: case not serialisable: %v", err))
	}
	if !r.capped {
		r.hashes[Hash64(b)] = struct{}{}
		if len(r.hashes) >= maxHashes {
			r.capped = true
		}
	}
	if needSample {
		r.sampleKeys[key]++
		if len(b) > 1500 {
			b, _ = json.Marshal(map[string]any{"truncated_case": string(b[:1400])})
		}
		r.samples = append(r.samples, json.RawMessage(b))
	}
}

// CountOnly records n evaluations that are all distinct and non-trivial by
// construction (complete enumerations of a value space too large to hash),
// with one representative sample.
func (r *Recorder) CountOnly(n int64, label string, sample any) {
	r.mu.Lock()
	defer r.mu.Unlock()
	r.evals += n
	r.nontrivial += n
	r.labels[label] += n
	r.enumerated += n
	if sample != nil && len(r.samples) < 12 {
		b, _ := json.Marshal(sample)
		r.samples = append(r.samples, b)
	}
}

// Label bumps a histogram label without recording a case.
func (r *Recorder) Label(l string, n int64) {
	r.mu.Lock()
	r.labels[l] += n
	r.mu.Unlock()
}

// Exhaustive marks the recorder's enumeration as complete.
func (r *Recorder) Exhaustive() { r.mu.Lock(); r.exhaustive = true; r.mu.Unlock() }

// Set stores an extra coverage key.
func (r *Recorder) Set(k string, v any) { r.mu.Lock(); r.extra[k] = v; r.mu.Unlock() }

// LabelCount reads a label.
func (r *Recorder) LabelCount(l string) int64 { r.mu.Lock(); defer r.mu.Unlock(); return r.labels[l] }

type fragment struct {
	ID         string            `json:"id"`
	Part       string            `json:"part"`
	Rule       string            `json:"rule"`
	Shard      int               `json:"shard"`
	Evals      int64             `json:"evaluations"`
	Nontrivial int64             `json:"nontrivial_evaluations"`
	Capped     bool              `json:"distinct_capped"`
	HashFile   string            `json:"hash_file"`
	Enumerated int64             `json:"enumerated_distinct"`
	Labels     map[string]int64  `json:"labels"`
	Samples    []json.RawMessage `json:"samples"`
	Exhaustive bool              `json:"exhaustive"`
	Extra      map[string]any    `json:"extra"`
}

// Flush writes the fragment into VERIF_OUT (no-op without it).
func (r *Recorder) Flush() {
	r.mu.Lock()
	defer r.mu.Unlock()
	if env.Out == "" {
		return
	}
	base := fmt.Sprintf("frag-%s-%s-%d", r.ID, r.Part, env.Shard)
	hs := make([]uint64, 0, len(r.hashes))
	for h := range r.hashes {
		hs = append(hs, h)
	}
	sort.Slice(hs, func(i, j int) bool { return hs[i] < hs[j] })
	buf := make([]byte, 8*len(hs))
	for i, h := range hs {
		binary.LittleEndian.PutUint64(buf[8*i:], h)
	}
	hf := filepath.Join(env.Out, base+".hashes")
	must(os.WriteFile(hf, buf, 0o644))
	enum := r.enumerated
	f := fragment{ID: r.ID, Part: r.Part, Rule: r.Rule, Shard: env.Shard, Evals: r.evals, Nontrivial: r.nontrivial,
		Capped: r.capped, HashFile: hf, Enumerated: enum, Labels: r.labels, Samples: r.samples, Exhaustive: r.exhaustive, Extra: r.extra}
	b, err := json.MarshalIndent(f, "", " ")
	must(err)
	must(os.WriteFile(filepath.Join(env.Out, base+".json"), b, 0o644))
}

func must(err error) {
	if err != nil {
		panic(err)
	}
}

// ---------------------------------------------------------------------------
// replay files

// Replay is the on-disk form of a failing case.
type Replay struct {
	Property string          `json:"property"`
	Part     string          `json:"part"`
	Error    string          `json:"error"`
	Case     json.RawMessage `json:"case"`
	// Env lists environment variables (NAME=value) that were set for the run in which the case failed
	// because the code under test consults them; the driver sets them again for a replay.
	Env []string `json:"env,omitempty"`
}

func extraEnv() []string {
	if v := os.Getenv("VERIF_EXTRA_ENV"); v != "" {
		return strings.Split(v, "\x1f")
	}
	return nil
}

var replayMu sync.Mutex

// WriteReplay stores a failing case as VERIF_OUT/violation-<ID>.json, always
// overwriting: rapid re-runs the shrunk case last, so the file left behind is
// the minimal one.
func WriteReplay(id, part string, c any, cause error) string {
	replayMu.Lock()
	defer replayMu.Unlock()
	b, err := json.Marshal(c)
	must(err)
	rp := Replay{Property: id, Part: part, Error: cause.Error(), Case: b, Env: extraEnv()}
	out, _ := json.MarshalIndent(rp, "", " ")
	dir := env.Out
	if dir == "" {
		dir = os.TempDir()
	}
	p := filepath.Join(dir, fmt.Sprintf("violation-%s-%s-%d.json", id, part, env.Shard))
	must(os.WriteFile(p, out, 0o644))
	return p
}

// LoadReplay reads the replay file named by VERIF_REPLAY.
func LoadReplay() (Replay, bool) {
	if env.Replay == "" {
		return Replay{}, false
	}
	b, err := os.ReadFile(env.Replay)
	must(err)
	var rp Replay
	must(json.Unmarshal(b, &rp))
	return rp, true
}

// Inflight stores the case that is about to run as VERIF_OUT/inflight-<ID>-<part>-<shard>.json and
// returns the function that removes the file again. If the test process dies while the case runs
// (an unrecoverable runtime fatal error such as "concurrent map writes" in the code under test), the
// driver finds the file and reports the case as the violation's replay.
func Inflight(id, part string, c any) func() {
	if env.Out == "" {
		return func() {}
	}
	b, err := json.Marshal(c)
	if err != nil {
		return func() {}
	}
	rp := Replay{Property: id, Part: part, Error: "the test process died while this case was running (see the worker output for the runtime's fatal error)", Case: b}
	out, _ := json.MarshalIndent(rp, "", " ")
	p := filepath.Join(env.Out, fmt.Sprintf("inflight-%s-%s-%d.json", id, part, env.Shard))
	if os.WriteFile(p, out, 0o644) != nil {
		return func() {}
	}
	return func() { os.Remove(p) }
}
