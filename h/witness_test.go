package verifh

import (
	"bufio"
	"bytes"
	"encoding/binary"
	"encoding/json"
	"fmt"
	"os"
	"path/filepath"
	"strings"
	"sync"
	"testing"
	"time"

	otp "github.com/ja7ad/otp"

	"verifh/ev"
	"verifh/ref"
)

// ---------------------------------------------------------------------------
// Rare-value witnesses. Some values of the 31-bit truncated number are met by generated end-to-end cases with
// probability ~2^-31 per case: 0..99 (eight or nine leading zeros in a 10-digit code), exactly 10^k (a reduction
// written with > instead of >= leaves the modulus itself), 10^k ± 1, 2^31-1. /verif/tools/witness searched 2^32..2^33
// HMAC inputs per hash for them once; the inputs found are data (/verif/witness/*.jsonl: key "12345678901234567890",
// a counter) and are re-verified by the independent reference before they are used.

type witness struct {
	Kind    string `json:"kind"` // hotp: message = counter; ocra: message = "OCRA-1:HOTP-<hash>-10:C" 0x00 counter
	Algo    int    `json:"algo"`
	Counter uint64 `json:"counter"`
	Value   uint32 `json:"value"`
}

var witnessKey = []byte("12345678901234567890")

func loadWitnesses(kind string) []witness {
	root := os.Getenv("VERIF_ROOT")
	if root == "" {
		root = ".."
	}
	f, err := os.Open(filepath.Join(root, "witness", kind+".jsonl"))
	if err != nil {
		fmt.Println("INFRA: witness table:", err)
		os.Exit(3)
	}
	defer f.Close()
	var out []witness
	sc := bufio.NewScanner(f)
	for sc.Scan() {
		var w witness
		if json.Unmarshal(sc.Bytes(), &w) == nil && w.Kind == kind {
			out = append(out, w)
		}
	}
	return out
}

func witnessClass(v uint32) string {
	p := uint32(10)
	for k := 1; k <= 9; k++ {
		switch {
		case v == p:
			return "v=10^k"
		case v+2 >= p && v <= p+2:
			return "v=10^k+-2"
		case v == 2*p || v == 2*p-1:
			return "v~2*10^k"
		}
		p *= 10
	}
	switch {
	case v < 10:
		return "v<10"
	case v < 100:
		return "v<100"
	}
	return "v-high"
}

func ocraWitnessName(algo int) string {
	return "OCRA-1:HOTP-" + []string{"SHA1", "SHA256", "SHA512"}[algo] + "-10:C"
}

// verifyWitness recomputes the truncated value with the reference.
func (w witness) verify() bool {
	var ctr [8]byte
	binary.BigEndian.PutUint64(ctr[:], w.Counter)
	msg := ctr[:]
	if w.Kind == "ocra" {
		msg = append(append([]byte(ocraWitnessName(w.Algo)), 0), ctr[:]...)
	}
	return ref.DT(ref.HMAC(w.Algo, witnessKey, msg)) == w.Value
}

type c01WitCase struct {
	W      witness `json:"w"`
	Digits int     `json:"digits"`
	Nil    bool    `json:"nil_param"`
}

var c01Wit = newPart("C01", "witnesses",
	"complete: every stored HOTP witness (inputs whose truncated 31-bit value is 0..99, 10^k, 10^k+-2, 2*10^k, 2^31-1...; found by an offline search of 2^32..2^33 inputs per hash and re-verified by the reference at start-up) x code lengths 1..10 (and the nil-parameter path for SHA-1); oracle: GenerateHOTP equals the reference rendering; every case distinct and non-trivial",
	func(c c01WitCase) verdict {
		labels := []string{witnessClass(c.W.Value), fmt.Sprintf("digits=%d", c.Digits)}
		want := ref.Render(c.W.Value, c.Digits)
		var p *otp.Param
		if !c.Nil {
			p = &otp.Param{Digits: otp.Digits(c.Digits), Algorithm: otp.Algorithm(c.W.Algo)}
		}
		got, err := otp.GenerateHOTP(ref.B32(witnessKey), c.W.Counter, p)
		if err != nil || got != want {
			return bad(true, labels, "GenerateHOTP(counter %d, digits %d, hash %d, nil=%v) = %q, %v; the truncated value is %d, so the RFC 4226 code is %q", c.W.Counter, c.Digits, c.W.Algo, c.Nil, got, err, c.W.Value, want)
		}
		if okk, verr := otp.ValidateHOTP(ref.B32(witnessKey), want, c.W.Counter, &otp.Param{Digits: otp.Digits(c.Digits), Algorithm: otp.Algorithm(c.W.Algo)}); !c.Nil && (!okk || verr != nil) {
			return bad(true, labels, "ValidateHOTP refuses the RFC code %q of counter %d (digits %d, hash %d): (%v, %v)", want, c.W.Counter, c.Digits, c.W.Algo, okk, verr)
		}
		return ok(true, labels...)
	})

func TestC01_Witnesses(t *testing.T) {
	defer c01Wit.rec().Flush()
	ws := loadWitnesses("hotp")
	if len(ws) < 100 {
		fmt.Println("INFRA: only", len(ws), "HOTP witnesses")
		os.Exit(3)
	}
	for i, w := range ws {
		if !w.verify() {
			fmt.Printf("INFRA: witness %+v does not have the recorded value\n", w)
			os.Exit(3)
		}
		if !ev.Mine(i) {
			continue
		}
		for d := 1; d <= 10; d++ {
			c01Wit.each(t, c01WitCase{W: w, Digits: d})
		}
		if w.Algo == 0 {
			c01Wit.each(t, c01WitCase{W: w, Digits: 6, Nil: true})
		}
	}
	c01Wit.rec().Exhaustive()
}

type c05WitCase struct {
	W      witness `json:"w"`
	Digits int     `json:"digits"`
}

var c05Wit = newPart("C05", "witnesses",
	"complete: every stored OCRA witness (a hand-built counter-only configuration with the suite text OCRA-1:HOTP-<hash>-10:C whose truncated value is rare, see C01 witnesses) x digits 4..10; oracle: GenerateOCRA equals the reference rendering and ValidateOCRA accepts it; every case distinct and non-trivial",
	func(c c05WitCase) verdict {
		labels := []string{witnessClass(c.W.Value), fmt.Sprintf("digits=%d", c.Digits)}
		cfg := ref.OCRACfg{Raw: ocraWitnessName(c.W.Algo), Hash: c.W.Algo, Digits: c.Digits, C: true, SessionNN: -1}
		var ctr [8]byte
		binary.BigEndian.PutUint64(ctr[:], c.W.Counter)
		want := ref.Render(c.W.Value, c.Digits)
		got, err := otp.GenerateOCRA(ref.B32(witnessKey), toLib(cfg), otp.OCRAInput{Counter: ctr[:]})
		if err != nil || got != want {
			return bad(true, labels, "GenerateOCRA(%s with digits %d, counter %d) = %q, %v; the truncated value is %d, so the RFC 6287 code is %q", cfg.Raw, c.Digits, c.W.Counter, got, err, c.W.Value, want)
		}
		if okk, verr := otp.ValidateOCRA(ref.B32(witnessKey), want, toLib(cfg), otp.OCRAInput{Counter: ctr[:]}); !okk || verr != nil {
			return bad(true, labels, "ValidateOCRA refuses the RFC code %q (%s, digits %d, counter %d): (%v, %v)", want, cfg.Raw, c.Digits, c.W.Counter, okk, verr)
		}
		return ok(true, labels...)
	})

func TestC05_Witnesses(t *testing.T) {
	defer c05Wit.rec().Flush()
	ws := loadWitnesses("ocra")
	if len(ws) < 50 {
		fmt.Println("INFRA: only", len(ws), "OCRA witnesses")
		os.Exit(3)
	}
	for i, w := range ws {
		if !w.verify() {
			fmt.Printf("INFRA: witness %+v does not have the recorded value\n", w)
			os.Exit(3)
		}
		if !ev.Mine(i) {
			continue
		}
		for d := 4; d <= 10; d++ {
			c05Wit.each(t, c05WitCase{W: w, Digits: d})
		}
	}
	c05Wit.rec().Exhaustive()
}

// The REST service and the wasm binding render codes too (the binding with a derivation of its own).

type c18WitCase struct {
	W   witness `json:"w"`
	Dig string  `json:"digits"`
}

var c18Wit = newPart("C18", "witnesses",
	"complete: every stored HOTP witness x digits \"6\", \"8\", \"9\", \"10\" through POST /hotp/generate of the real server; oracle: the code is the reference rendering of the rare truncated value; every case distinct and non-trivial",
	func(c c18WitCase) verdict {
		sv := server()
		d := digitsFromSpelling(c.Dig)
		want := ref.Render(c.W.Value, d)
		body, _ := json.Marshal(map[string]any{"secret": ref.B32(witnessKey), "counter": c.W.Counter, "digits": c.Dig, "algorithm": []string{"SHA1", "SHA256", "SHA512"}[c.W.Algo]})
		r := sv.do("POST", "/hotp/generate", body, false, 15*time.Second)
		labels := []string{witnessClass(c.W.Value), "digits=" + c.Dig}
		if r.Err != nil || r.Status != 200 || r.str("code") != want {
			return bad(true, labels, "POST /hotp/generate %s -> %s; the truncated value is %d, so the RFC 4226 code is %q", body, r.brief(), c.W.Value, want)
		}
		return ok(true, labels...)
	})

func TestC18_Witnesses(t *testing.T) {
	defer c18Wit.rec().Flush()
	for i, w := range loadWitnesses("hotp") {
		if !w.verify() {
			fmt.Printf("INFRA: witness %+v does not have the recorded value\n", w)
			os.Exit(3)
		}
		if !ev.Mine(i) {
			continue
		}
		for _, d := range []string{"6", "8", "9", "10"} {
			c18Wit.each(t, c18WitCase{W: w, Dig: d})
		}
	}
	c18Wit.rec().Exhaustive()
}

type c20WitCase struct {
	W   witness `json:"w"`
	Dig string  `json:"digits"`
}

var c20Wit = newPart("C20", "witnesses",
	"complete: every stored HOTP witness x digits \"6\", \"8\", \"9\", \"10\" through generateHOTP and validateHOTP of the wasm module (global and package export); oracle: the code is the reference rendering of the rare truncated value and it validates at its counter; every case distinct and non-trivial",
	func(c c20WitCase) verdict {
		d := digitsFromSpelling(c.Dig)
		want := ref.Render(c.W.Value, d)
		alg := []string{"SHA1", "SHA256", "SHA512"}[c.W.Algo]
		sec := ref.B32(witnessKey)
		res, err := jsNode().call([]jsWireCall{
			{Via: "global", Fn: "generateHOTP", Args: []any{sec, c.W.Counter, c.Dig, alg}},
			{Via: "pkg", Fn: "generateHOTP", Args: []any{sec, c.W.Counter, c.Dig, alg}},
			{Via: "global", Fn: "validateHOTP", Args: []any{sec, want, c.W.Counter, c.Dig, alg, 0}},
		})
		if err != nil {
			fmt.Println("INFRA: node:", err)
			os.Exit(3)
		}
		labels := []string{witnessClass(c.W.Value), "digits=" + c.Dig}
		for k := 0; k < 2; k++ {
			if res[k].Type != "string" || res[k].Value != want {
				return bad(true, labels, "wasm generateHOTP(counter %d, digits %s, %s) = %v; the truncated value is %d, so the RFC 4226 code is %q", c.W.Counter, c.Dig, alg, res[k], c.W.Value, want)
			}
		}
		if res[2].Type != "boolean" || res[2].Value != true {
			return bad(true, labels, "wasm validateHOTP refuses the RFC code %q of counter %d (digits %s, %s): %v", want, c.W.Counter, c.Dig, alg, res[2])
		}
		return ok(true, labels...)
	})

func TestC20_Witnesses(t *testing.T) {
	defer c20Wit.rec().Flush()
	for i, w := range loadWitnesses("hotp") {
		if !w.verify() {
			fmt.Printf("INFRA: witness %+v does not have the recorded value\n", w)
			os.Exit(3)
		}
		if !ev.Mine(i) {
			continue
		}
		for _, d := range []string{"6", "8", "9", "10"} {
			c20Wit.each(t, c20WitCase{W: w, Dig: d})
		}
	}
	c20Wit.rec().Exhaustive()
}

// ---------------------------------------------------------------------------
// Colliding secret pairs (witness/collisions.jsonl, from tools/witness/collide): two different valid secrets of equal
// length whose TEXTS collide under a cheap 32-bit hash (FNV, CRC-32, Adler, djb2, sdbm, Java's 31-hash, Murmur3, byte
// sums, equal first / last 8 characters). Anything keyed by such a hash of the secret instead of the secret — a cache of
// decoded keys, of prepared MACs, a validation memo — confuses the two. Protocol: use A through every entry point, then B
// must still be B everywhere.

type collision struct {
	Hash   string `json:"hash"`
	KeyLen int    `json:"keylen"`
	A      string `json:"a"`
	B      string `json:"b"`
}

func loadCollisions() []collision {
	root := os.Getenv("VERIF_ROOT")
	if root == "" {
		root = ".."
	}
	f, err := os.Open(filepath.Join(root, "witness", "collisions.jsonl"))
	if err != nil {
		fmt.Println("INFRA: collision table:", err)
		os.Exit(3)
	}
	defer f.Close()
	var out []collision
	sc := bufio.NewScanner(f)
	for sc.Scan() {
		var c collision
		if json.Unmarshal(sc.Bytes(), &c) == nil && c.A != "" {
			out = append(out, c)
		}
	}
	return out
}

type c07PairCase struct {
	C     collision `json:"pair"`
	Swap  bool      `json:"swap"`  // use B first, then A
	Lower bool      `json:"lower"` // both texts in lower case
	Algo  int       `json:"algo"`
}

var c07Pair = newPart("C07", "collision-pairs",
	"complete: every stored pair of different valid secrets whose texts collide under a cheap 32-bit hash (17 functions x key lengths 10, 20, 32, 64) x both orders x upper / lower case x three hashes; protocol: the first secret is used through DecodeSecret and all six generation / validation entry points, then the second one must decode to its own bytes, generate its own RFC codes, have them accepted and the first secret's codes rejected (HOTP, TOTP, OCRA); oracle: the independent references; every case distinct and non-trivial",
	func(c c07PairCase) verdict {
		a, b := c.C.A, c.C.B
		if c.Swap {
			a, b = b, a
		}
		ka, ok1 := ref.B32DecodeLoose(a)
		kb, ok2 := ref.B32DecodeLoose(b)
		if !ok1 || !ok2 || a == b || len(a) != len(b) {
			fmt.Println("INFRA: bad collision pair", c.C)
			os.Exit(3)
		}
		if c.Lower {
			a, b = strings.ToLower(a), strings.ToLower(b)
		}
		labels := []string{"hash=" + c.C.Hash}
		p := &otp.Param{Digits: 8, Algorithm: otp.Algorithm(c.Algo), Period: 30, Skew: 1}
		tm := time.Unix(1_700_000_000, 0)
		cfg := ref.OCRACfg{Raw: "OCRA-1:HOTP-SHA1-6:QN08", Hash: 0, Digits: 6, Q: true, QFormat: 1, SessionNN: -1}
		su, _ := otp.NewRawSuite(cfg.Raw)
		q := []byte("12345678")
		codeHA, codeHB := ref.MustHOTP(ka, 7, 8, c.Algo), ref.MustHOTP(kb, 7, 8, c.Algo)
		codeTA, codeTB := ref.MustHOTP(ka, 1_700_000_000/30, 8, c.Algo), ref.MustHOTP(kb, 1_700_000_000/30, 8, c.Algo)
		codeOA, _ := ref.OCRA(ka, cfg, ref.OCRAIn{Q: q})
		codeOB, _ := ref.OCRA(kb, cfg, ref.OCRAIn{Q: q})
		// first secret through everything
		otp.DecodeSecret(a)
		otp.GenerateHOTP(a, 7, p)
		otp.ValidateHOTP(a, codeHA, 7, p)
		otp.GenerateTOTP(a, tm, p)
		otp.ValidateTOTP(a, codeTA, tm, p)
		otp.GenerateOCRA(a, su, otp.OCRAInput{Challenge: q})
		otp.ValidateOCRA(a, codeOA, su, otp.OCRAInput{Challenge: q})
		// the second secret must be itself
		if got, err := otp.DecodeSecret(b); err != nil || !bytes.Equal(got, kb) {
			return bad(true, labels, "after %q was used, DecodeSecret(%q) = %x, %v; want %x (the two texts collide under %s)", a, b, got, err, kb, c.C.Hash)
		}
		if got, err := otp.GenerateHOTP(b, 7, p); err != nil || got != codeHB {
			return bad(true, labels, "after %q was used, GenerateHOTP(%q) = %q, %v; want %q", a, b, got, err, codeHB)
		}
		if okk, err := otp.ValidateHOTP(b, codeHB, 7, p); !okk || err != nil {
			return bad(true, labels, "after %q was used, ValidateHOTP(%q) refuses its own code %s: (%v, %v)", a, b, codeHB, okk, err)
		}
		if okk, _ := otp.ValidateHOTP(b, codeHA, 7, p); okk && codeHA != codeHB {
			return bad(true, labels, "after %q was used, ValidateHOTP(%q) accepts the OTHER secret's code %s", a, b, codeHA)
		}
		if got, err := otp.GenerateTOTP(b, tm, p); err != nil || got != codeTB {
			return bad(true, labels, "after %q was used, GenerateTOTP(%q) = %q, %v; want %q", a, b, got, err, codeTB)
		}
		if okk, err := otp.ValidateTOTP(b, codeTB, tm, p); !okk || err != nil {
			return bad(true, labels, "after %q was used, ValidateTOTP(%q) refuses its own code %s: (%v, %v)", a, b, codeTB, okk, err)
		}
		if okk, _ := otp.ValidateTOTP(b, codeTA, tm, &otp.Param{Digits: 8, Algorithm: otp.Algorithm(c.Algo), Period: 30}); okk && codeTA != codeTB {
			return bad(true, labels, "after %q was used, ValidateTOTP(%q) accepts the OTHER secret's code %s", a, b, codeTA)
		}
		if got, err := otp.GenerateOCRA(b, su, otp.OCRAInput{Challenge: q}); err != nil || got != codeOB {
			return bad(true, labels, "after %q was used, GenerateOCRA(%q) = %q, %v; want %q", a, b, got, err, codeOB)
		}
		if okk, err := otp.ValidateOCRA(b, codeOB, su, otp.OCRAInput{Challenge: q}); !okk || err != nil {
			return bad(true, labels, "after %q was used, ValidateOCRA(%q) refuses its own code %s: (%v, %v)", a, b, codeOB, okk, err)
		}
		if okk, _ := otp.ValidateOCRA(b, codeOA, su, otp.OCRAInput{Challenge: q}); okk && codeOA != codeOB {
			return bad(true, labels, "after %q was used, ValidateOCRA(%q) accepts the OTHER secret's code %s", a, b, codeOA)
		}
		return ok(true, labels...)
	})

func TestC07_CollisionPairs(t *testing.T) {
	defer c07Pair.rec().Flush()
	cs := loadCollisions()
	if len(cs) < 40 {
		fmt.Println("INFRA: only", len(cs), "collision pairs")
		os.Exit(3)
	}
	i := 0
	for _, c := range cs {
		for _, swap := range []bool{false, true} {
			for _, lower := range []bool{false, true} {
				for algo := 0; algo < 3; algo++ {
					i++
					if ev.Mine(i) {
						c07Pair.each(t, c07PairCase{C: c, Swap: swap, Lower: lower, Algo: algo})
					}
				}
			}
		}
	}
	c07Pair.rec().Exhaustive()
}

// Spelling preimages: unknown option words whose hash under a cheap 32-bit hash function equals that of a known one
// (witness/spelling-preimages.jsonl, found by tools/witness/preimage). A lookup that keeps only the hash of each known
// spelling takes them for the known word.
type spellingPreimage struct {
	Hash     string `json:"hash"`
	Known    string `json:"known"`
	Spelling string `json:"spelling"`
}

var (
	spellOnce sync.Once
	spellAll  []spellingPreimage
)

// spellingsLike returns the stored unknown spellings that collide with one of the given known words (sorted by file order).
func spellingsLike(known ...string) []string {
	spellOnce.Do(func() {
		root := os.Getenv("VERIF_ROOT")
		if root == "" {
			root = ".."
		}
		f, err := os.Open(filepath.Join(root, "witness", "spelling-preimages.jsonl"))
		if err != nil {
			fmt.Println("INFRA: spelling preimage table:", err)
			os.Exit(3)
		}
		defer f.Close()
		sc := bufio.NewScanner(f)
		for sc.Scan() {
			var p spellingPreimage
			if json.Unmarshal(sc.Bytes(), &p) == nil && p.Spelling != "" {
				spellAll = append(spellAll, p)
			}
		}
	})
	var out []string
	for _, p := range spellAll {
		for _, k := range known {
			if p.Known == k {
				out = append(out, p.Spelling)
			}
		}
	}
	if len(out) == 0 {
		out = []string{"zz-no-preimage"}
	}
	return out
}
