package verifh

import (
	"fmt"
	"strings"
	"testing"
	"time"
	"unsafe"

	otp "github.com/ja7ad/otp"
	"pgregory.net/rapid"

	"verifh/ev"
	"verifh/gen"
	"verifh/ref"
)

// Sessions: several calls that SHARE their secret (and mostly their parameters), evaluated one after
// the other. An implementation that remembers something about the previous call — the window it
// derived, the code it produced, the key it decoded — is only exposed when consecutive calls are
// related; independently drawn cases never are.

// ---------------------------------------------------------------------------
// C03 / C04: nested and sliding windows under one secret

type winStep struct {
	Centre uint64 `json:"centre"` // HOTP counter / TOTP step number
	Off    uint64 `json:"off"`    // TOTP: seconds into the step
	Skew   uint64 `json:"skew"`
	Dist   int    `json:"dist"` // the submitted code is the code of Centre0 + Dist (relative to the FIRST step's centre)
	Mut    int    `json:"mut"`
	NilP   bool   `json:"nil_param"`
}

type winSession struct {
	Kind   string       `json:"kind"` // hotp | totp
	Key    []byte       `json:"key"`
	Sp     gen.Spelling `json:"spelling"`
	Digits int          `json:"digits"`
	Algo   int          `json:"algo"`
	Period uint64       `json:"period"`
	Steps  []winStep    `json:"steps"`
}

func checkWinSession(c winSession) verdict {
	secret := gen.Spell(c.Key, c.Sp)
	labels := []string{"kind=" + c.Kind, fmt.Sprintf("steps=%d", len(c.Steps))}
	base := c.Steps[0].Centre
	for i, st := range c.Steps {
		d, a, s := c.Digits, c.Algo, st.Skew
		var p *otp.Param
		if st.NilP {
			d, a = 6, 0
			if c.Kind == "hotp" {
				s = 2
			} else {
				s = 0
			}
		} else {
			p = &otp.Param{Digits: otp.Digits(c.Digits), Algorithm: otp.Algorithm(c.Algo), Skew: uint(st.Skew), Period: uint(c.Period)}
		}
		code := mutate(ref.MustHOTP(c.Key, base+uint64(int64(st.Dist)), d, a), st.Mut)
		_, want := windowSet(c.Key, st.Centre, s, d, a)[code]
		var got bool
		var err error
		if c.Kind == "hotp" {
			got, err = otp.ValidateHOTP(secret, code, st.Centre, p)
		} else {
			per := c.Period
			if st.NilP {
				per = 30
			}
			got, err = otp.ValidateTOTP(secret, code, time.Unix(int64(st.Centre*per+st.Off%per), 0), p)
		}
		if got != want || (got && err != nil) || (!got && err == nil) {
			return bad(true, labels, "step %d of a session under one secret: Validate%s(code %q = code of %d%+d, centre %d, window %d, digits %d, hash %d, nil=%v) = (%v, %v); reference window membership is %v (earlier steps: %+v)",
				i, map[string]string{"hotp": "HOTP", "totp": "TOTP"}[c.Kind], code, base, st.Dist, st.Centre, s, d, a, st.NilP, got, err, want, c.Steps[:i])
		}
	}
	return ok(len(c.Steps) >= 2, labels...)
}

var c03Sess = newPart("C03", "sessions",
	"rapid: sessions of 2..6 ValidateHOTP calls under ONE secret, code length and hash: centres within +-6 of the first, windows 0..10 (nested, sliding, shrinking, growing; nil parameter struct interleaved when it means the same), submitted codes taken from counters within +-14 of the first centre or edited; oracle per step: exact membership in the reference window of THAT step; non-trivial = sessions of >= 2 steps",
	checkWinSession)

var c04Sess = newPart("C04", "sessions",
	"rapid: sessions of 2..6 ValidateTOTP calls under ONE secret, code length, hash and period: instants in steps within +-6 of the first, skews 0..10, nil parameter struct interleaved when it means the same, submitted codes from steps within +-14 of the first or edited; oracle per step: exact membership in the reference step window of THAT call; non-trivial = sessions of >= 2 steps",
	checkWinSession)

func genWinSession(kind string) func(t *rapid.T) winSession {
	return func(t *rapid.T) winSession {
		c := winSession{Kind: kind, Key: gen.Key().Draw(t, "key"), Sp: gen.DrawSpelling(t)}
		c.Digits = rapid.SampledFrom([]int{6, 6, 6, 8, 10, 4, 9}).Draw(t, "digits")
		c.Algo = rapid.SampledFrom([]int{0, 0, 1, 2}).Draw(t, "algo")
		c.Period = rapid.SampledFrom([]uint64{30, 30, 1, 60, 1 << 32}).Draw(t, "period")
		var base uint64
		if kind == "hotp" {
			base = gen.Counter().Draw(t, "base")
			if base > 1<<64-40 {
				base = 1<<64 - 40
			}
		} else {
			base = rapid.Uint64Range(20, (uint64(1)<<62)/c.Period-40).Draw(t, "baseStep")
			if rapid.Bool().Draw(t, "baseSmall") {
				base = rapid.Uint64Range(20, 1<<20).Draw(t, "baseStepSmall")
			}
		}
		n := rapid.IntRange(2, 6).Draw(t, "nSteps")
		for i := 0; i < n; i++ {
			st := winStep{Skew: uint64(rapid.IntRange(0, 10).Draw(t, "skew")), Dist: rapid.IntRange(-14, 14).Draw(t, "dist"), Off: rapid.Uint64Range(0, 1<<33).Draw(t, "off")}
			st.Centre = base
			if i > 0 {
				dl := int64(rapid.IntRange(-6, 6).Draw(t, "centreDelta"))
				if kind == "hotp" && dl < 0 && base < uint64(-dl) {
					dl = -dl
				}
				st.Centre = base + uint64(dl)
			}
			if kind == "hotp" && st.Dist < 0 && base < uint64(-st.Dist) {
				st.Dist = -st.Dist
			}
			if kind == "totp" && st.Centre < st.Skew {
				st.Skew = 0
			}
			st.Mut = rapid.SampledFrom([]int{0, 0, 0, 0, 1, 3}).Draw(t, "mut")
			if c.Digits == 6 && c.Algo == 0 && (kind == "hotp" || c.Period == 30) {
				st.NilP = rapid.IntRange(0, 3).Draw(t, "nilP") == 0
			}
			c.Steps = append(c.Steps, st)
		}
		return c
	}
}

func TestC03_Sessions(t *testing.T) {
	c03Sess.rapid(t, ev.Pick(8_000, 150_000), genWinSession("hotp"))
}

func TestC04_Sessions(t *testing.T) {
	c04Sess.rapid(t, ev.Pick(8_000, 150_000), genWinSession("totp"))
}

// ---------------------------------------------------------------------------
// C06: one suite and input, two secrets (and one secret, two inputs)

type ocraStep struct {
	KeyIdx  int  `json:"key_idx"`  // which of the two secrets is used
	CodeIdx int  `json:"code_idx"` // the submitted code is the generated code of that secret
	InIdx   int  `json:"in_idx"`   // which of the two inputs
	CodeIn  int  `json:"code_in"`  // input the submitted code was generated for
	Mut     int  `json:"mut"`
	Gen     bool `json:"gen"` // call GenerateOCRA instead and compare with the reference
}

type ocraSession struct {
	Suite suiteSpec     `json:"suite"`
	Keys  [2][]byte     `json:"keys"`
	Ins   [2]ref.OCRAIn `json:"ins"`
	Steps []ocraStep    `json:"steps"`
}

func checkOcraSession(c ocraSession) verdict {
	suite, cfg, lerr := c.Suite.resolve()
	if lerr != nil {
		return ok(false, "parser-rejects")
	}
	labels := []string{c.Suite.label(), fmt.Sprintf("steps=%d", len(c.Steps))}
	var codes [2][2]string
	for k := 0; k < 2; k++ {
		for j := 0; j < 2; j++ {
			w, err := ref.OCRA(c.Keys[k], cfg, c.Ins[j])
			if err != nil {
				return bad(true, labels, "HARNESS: inadmissible session input")
			}
			codes[k][j] = w
		}
	}
	for i, st := range c.Steps {
		secret := ref.B32(c.Keys[st.KeyIdx])
		in := toLibIn(c.Ins[st.InIdx])
		if st.Gen {
			g, err := otp.GenerateOCRA(secret, suite, in)
			if err != nil || g != codes[st.KeyIdx][st.InIdx] {
				return bad(true, labels, "step %d: GenerateOCRA (secret %d, input %d) = %q, %v; RFC value %q (earlier steps %+v)", i, st.KeyIdx, st.InIdx, g, err, codes[st.KeyIdx][st.InIdx], c.Steps[:i])
			}
			continue
		}
		code := mutate(codes[st.CodeIdx][st.CodeIn], st.Mut)
		want := code == codes[st.KeyIdx][st.InIdx]
		got, err := otp.ValidateOCRA(secret, code, suite, in)
		if got != want || (got && err != nil) || (!got && err == nil) {
			return bad(true, labels, "step %d of a session over one suite: ValidateOCRA(secret %d, input %d, code %q = code of secret %d / input %d) = (%v, %v); generation for these arguments gives %q (earlier steps %+v)",
				i, st.KeyIdx, st.InIdx, code, st.CodeIdx, st.CodeIn, got, err, codes[st.KeyIdx][st.InIdx], c.Steps[:i])
		}
	}
	return ok(len(c.Steps) >= 2, labels...)
}

var c06Sess = newPart("C06", "sessions",
	"rapid: sessions of 2..8 OCRA calls over ONE suite with two secrets and two admissible inputs: each step validates (or generates) with one secret and one input while the submitted code belongs to either secret / either input, possibly edited; oracle per step: accepted iff the string equals the reference code for exactly that step's secret and input; non-trivial = sessions of >= 2 steps",
	checkOcraSession)

func TestC06_Sessions(t *testing.T) {
	c06Sess.rapid(t, ev.Pick(8_000, 150_000), func(t *rapid.T) ocraSession {
		c := ocraSession{Suite: drawSuite(t)}
		_, cfg, _ := c.Suite.resolve()
		c.Keys[0] = rapid.SliceOfN(rapid.Byte(), 1, 40).Draw(t, "key0")
		c.Keys[1] = rapid.SliceOfN(rapid.Byte(), 1, 40).Draw(t, "key1")
		c.Ins[0] = drawAdmissible(t, cfg)
		c.Ins[1] = c.Ins[0]
		if rapid.Bool().Draw(t, "secondInputDiffers") {
			c.Ins[1] = drawAdmissible(t, cfg)
		}
		n := rapid.IntRange(2, 8).Draw(t, "nSteps")
		for i := 0; i < n; i++ {
			c.Steps = append(c.Steps, ocraStep{KeyIdx: rapid.IntRange(0, 1).Draw(t, "k"), CodeIdx: rapid.IntRange(0, 1).Draw(t, "ck"), InIdx: rapid.IntRange(0, 1).Draw(t, "in"),
				CodeIn: rapid.IntRange(0, 1).Draw(t, "cin"), Mut: rapid.SampledFrom([]int{0, 0, 0, 1, 3}).Draw(t, "mut"), Gen: rapid.IntRange(0, 4).Draw(t, "gen") == 0})
		}
		return c
	})
}

// ---------------------------------------------------------------------------
// C02: consecutive generations under one secret, instants with ARBITRARY monotonic readings

type timeRepr struct {
	wall uint64
	ext  int64
	loc  *time.Location
}

// forgeMono builds a time.Time for the wall instant (unix, nsec) that carries the monotonic clock
// reading mono (nanoseconds), whatever its relation to the wall clock — as after a clock step between
// two time.Now() calls. ok=false (plain wall time returned) outside the years such values can encode.
func forgeMono(unix int64, nsec int, mono int64, loc *time.Location) (time.Time, bool) {
	const wallToInternal = (1884*365 + 1884/4 - 1884/100 + 1884/400) * 86400
	const unixToInternal = (1969*365 + 1969/4 - 1969/100 + 1969/400) * 86400
	sec := unix + unixToInternal - wallToInternal
	plain := time.Unix(unix, int64(nsec))
	if sec < 0 || sec >= 1<<33 || unsafe.Sizeof(time.Time{}) != unsafe.Sizeof(timeRepr{}) {
		return plain, false
	}
	var t time.Time
	r := (*timeRepr)(unsafe.Pointer(&t))
	r.wall = 1<<63 | uint64(sec)<<30 | uint64(nsec)
	r.ext = mono
	r.loc = loc // set directly: Time.In / UTC / Local would strip the monotonic reading
	if loc == time.UTC {
		r.loc = nil
	}
	if t.Unix() != unix || t.Nanosecond() != nsec || t.Round(0).Equal(plain) == false {
		return plain, false
	}
	return t, true
}

type genStep struct {
	Unix int64 `json:"unix"`
	Nsec int   `json:"nsec"`
	Mono int64 `json:"mono"` // forged monotonic reading; 0 = none
	Zone int   `json:"zone"`
	NilP bool  `json:"nil_param"`
	Val  bool  `json:"validate"` // also validate the reference code at this instant
}

type genSession struct {
	Key    []byte    `json:"key"`
	Digits int       `json:"digits"`
	Algo   int       `json:"algo"`
	Period uint64    `json:"period"`
	Steps  []genStep `json:"steps"`
}

func checkGenSession(c genSession) verdict {
	secret := ref.B32(c.Key)
	labels := []string{fmt.Sprintf("steps=%d", len(c.Steps))}
	forged := false
	for i, st := range c.Steps {
		d, a, per := c.Digits, c.Algo, c.Period
		var p *otp.Param
		if st.NilP {
			d, a, per = 6, 0, 30
		} else {
			p = &otp.Param{Digits: otp.Digits(d), Algorithm: otp.Algorithm(a), Period: uint(per)}
		}
		if per == 0 {
			per = 30
		}
		t := time.Unix(st.Unix, int64(st.Nsec)).In(zones[st.Zone%len(zones)])
		if st.Mono != 0 {
			if ft, okk := forgeMono(st.Unix, st.Nsec, st.Mono, zones[st.Zone%len(zones)]); okk {
				t, forged = ft, true
			}
		}
		want := ref.MustHOTP(c.Key, uint64(st.Unix)/per, d, a)
		got, err := otp.GenerateTOTP(secret, t, p)
		if err != nil || got != want {
			return bad(true, labels, "step %d of a session under one secret: GenerateTOTP(unix %d.%09d, monotonic reading %d, period %d, nil=%v) = %q, %v; HOTP at step %d is %q (earlier steps %+v)",
				i, st.Unix, st.Nsec, st.Mono, per, st.NilP, got, err, uint64(st.Unix)/per, want, c.Steps[:i])
		}
		if st.Val {
			if okk, verr := otp.ValidateTOTP(secret, want, t, p); !okk || verr != nil {
				return bad(true, labels, "step %d: ValidateTOTP rejects the code of its own instant (unix %d, monotonic %d): %v", i, st.Unix, st.Mono, verr)
			}
		}
	}
	if forged {
		labels = append(labels, "forged-monotonic")
	}
	return ok(len(c.Steps) >= 2, labels...)
}

var c02Sess = newPart("C02", "sessions",
	"rapid: sessions of 2..6 GenerateTOTP calls under ONE secret and parameter set (nil parameter struct interleaved when equivalent): instants in the same, the next or far-away steps, with monotonic clock readings that are ARBITRARY relative to the wall clock (time.Time values forged through the struct layout: equal, slightly larger, smaller, huge), in several time zones; oracle per step: reference HOTP at floor(unix/period) of THAT instant, and ValidateTOTP accepts it; non-trivial = sessions of >= 2 steps",
	checkGenSession)

func TestC02_Sessions(t *testing.T) {
	c02Sess.rapid(t, ev.Pick(8_000, 150_000), func(t *rapid.T) genSession {
		c := genSession{Key: rapid.SliceOfN(rapid.Byte(), 1, 40).Draw(t, "key"), Digits: rapid.SampledFrom([]int{6, 6, 8, 10}).Draw(t, "digits"), Algo: rapid.SampledFrom([]int{0, 0, 1, 2}).Draw(t, "algo"),
			Period: rapid.SampledFrom([]uint64{30, 30, 0, 60, 1}).Draw(t, "period")}
		per := c.Period
		if per == 0 {
			per = 30
		}
		base := rapid.Uint64Range(1, 4_000_000_000/per).Draw(t, "baseStep")
		mono := rapid.Int64Range(1, 1<<50).Draw(t, "mono0")
		n := rapid.IntRange(2, 6).Draw(t, "nSteps")
		for i := 0; i < n; i++ {
			step := base + uint64(rapid.SampledFrom([]int{0, 0, 1, 1, 2, 7, 1000}).Draw(t, "stepDelta"))
			off := rapid.SampledFrom([]uint64{0, 0, 1, per / 2, per - 1}).Draw(t, "off") % per
			st := genStep{Unix: int64(step*per + off), Zone: rapid.IntRange(0, len(zones)-1).Draw(t, "zone"), Val: rapid.Bool().Draw(t, "val")}
			if rapid.Bool().Draw(t, "hasNsec") {
				st.Nsec = rapid.SampledFrom([]int{1, 500_000_000, 999_999_999}).Draw(t, "nsec")
			}
			switch rapid.IntRange(0, 4).Draw(t, "monoKind") {
			case 0: // no monotonic reading
			case 1: // the same reading as before: no time passed on the monotonic clock
				st.Mono = mono
			case 2: // a little later on the monotonic clock, whatever the wall clock says
				mono += rapid.Int64Range(1, 2_000_000_000).Draw(t, "monoStep")
				st.Mono = mono
			case 3: // earlier
				st.Mono = mono - rapid.Int64Range(1, mono).Draw(t, "monoBack")
				if st.Mono == 0 {
					st.Mono = 1
				}
			default:
				st.Mono = rapid.Int64Range(1, 1<<62).Draw(t, "monoAny")
			}
			if c.Digits == 6 && c.Algo == 0 && (c.Period == 30 || c.Period == 0) {
				st.NilP = rapid.IntRange(0, 3).Draw(t, "nilP") == 0
			}
			c.Steps = append(c.Steps, st)
		}
		return c
	})
}

// ---------------------------------------------------------------------------
// Concatenation aliases. Two different (secret, counter) pairs whose TEXTS, written one after the other, are the same
// string: base32 uses the digits 2..7, so the secret "ABCDEFG" + "22" with counter 7 and the secret "ABCDEFG" with counter
// 227 both spell "ABCDEFG227". A memo, a coalescing key or a log-derived index that joins its arguments without a separator
// or a length takes one pair for the other. Independent draws never produce such a pair.
type c01AliasCase struct {
	Long   string `json:"long_secret"` // canonical base32, a multiple of 8 characters, ending in K digits 2..7
	K      int    `json:"k"`           // the short secret is Long without its last K characters
	Rest   uint64 `json:"rest"`        // counter used with the long secret; the short secret's counter is <last K digits><Rest>
	Digits int    `json:"digits"`
	Algo   int    `json:"algo"`
	Order  int    `json:"order"` // 0: short first, 1: long first
}

func checkC01Alias(c c01AliasCase) verdict {
	short := c.Long[:len(c.Long)-c.K]
	kl, ok1 := ref.B32DecodeLoose(c.Long)
	ks, ok2 := ref.B32DecodeLoose(short)
	if !ok1 || !ok2 || ref.B32(kl) != c.Long || ref.B32(ks) != short {
		return ok(false, "harness-case-not-canonical")
	}
	var cs uint64
	if _, err := fmt.Sscan(c.Long[len(c.Long)-c.K:]+fmt.Sprint(c.Rest), &cs); err != nil {
		return ok(false, "counter-too-long")
	}
	type call struct {
		text string
		key  []byte
		ctr  uint64
	}
	calls := []call{{short, ks, cs}, {c.Long, kl, c.Rest}}
	if c.Order == 1 {
		calls[0], calls[1] = calls[1], calls[0]
	}
	p := &otp.Param{Digits: otp.Digits(c.Digits), Algorithm: otp.Algorithm(c.Algo), Period: 30}
	labels := []string{fmt.Sprintf("k=%d", c.K), fmt.Sprintf("order=%d", c.Order)}
	for round := 0; round < 2; round++ {
		for _, cl := range calls {
			want := ref.MustHOTP(cl.key, cl.ctr, c.Digits, c.Algo)
			if got, err := otp.GenerateHOTP(cl.text, cl.ctr, p); err != nil || got != want {
				return bad(true, labels, "GenerateHOTP(%q, %d) = %q, %v; RFC value %q — after the pair (%q, %d), whose texts concatenate to the same string", cl.text, cl.ctr, got, err, want, calls[0].text, calls[0].ctr)
			}
			if okk, err := otp.ValidateHOTP(cl.text, want, cl.ctr, p); !okk || err != nil {
				return bad(true, labels, "ValidateHOTP(%q, its own code %q, %d) = %v, %v — after the pair (%q, %d), whose texts concatenate to the same string", cl.text, want, cl.ctr, okk, err, calls[0].text, calls[0].ctr)
			}
			if cl.ctr < 1<<40 {
				tm := time.Unix(int64(cl.ctr)*30+7, 0)
				if got, err := otp.GenerateTOTP(cl.text, tm, p); err != nil || got != want {
					return bad(true, labels, "GenerateTOTP(%q, step %d) = %q, %v; RFC value %q — after a pair whose texts concatenate to the same string", cl.text, cl.ctr, got, err, want)
				}
				if okk, err := otp.ValidateTOTP(cl.text, want, tm, p); !okk || err != nil {
					return bad(true, labels, "ValidateTOTP(%q, its own code, step %d) = %v, %v — after a pair whose texts concatenate to the same string", cl.text, cl.ctr, okk, err)
				}
			}
		}
	}
	return ok(true, labels...)
}

var c01Alias = newPart("C01", "concatenation-aliases",
	"rapid: pairs (short secret, counter d1..dk r) and (short secret + d1..dk, counter r) — the digits 2..7 are base32 symbols, so both pairs spell the same text when secret and decimal counter are written one after the other; both secrets canonical base32 (8..64 characters), k in {1,3,4,6}; each pair goes through GenerateHOTP, ValidateHOTP, GenerateTOTP, ValidateTOTP twice, in both orders, and every answer is the reference's for THAT pair; every case non-trivial",
	checkC01Alias)

func TestC01_ConcatenationAliases(t *testing.T) {
	c01Alias.rapid(t, ev.Pick(3_000, 60_000), func(t *rapid.T) c01AliasCase {
		k := rapid.SampledFrom([]int{1, 3, 4, 6}).Draw(t, "k")
		n := 8 * rapid.IntRange(1, 8).Draw(t, "quanta")
		const alphabet = "ABCDEFGHIJKLMNOPQRSTUVWXYZ234567"
		b := make([]byte, n)
		for i := range b {
			b[i] = alphabet[rapid.IntRange(0, 31).Draw(t, "sym")]
		}
		for i := n - k; i < n; i++ {
			b[i] = "234567"[rapid.IntRange(0, 5).Draw(t, "dig")]
		}
		// the short secret (n-k characters) is canonical when the unused low bits of its last symbol are zero
		spare := map[int]uint{7: 3, 5: 1, 4: 4, 2: 2}[(n-k)%8]
		if n-k > 0 {
			v := strings.IndexByte(alphabet, b[n-k-1])
			b[n-k-1] = alphabet[(v>>spare)<<spare]
		}
		rest := rapid.Uint64Range(0, 99999).Draw(t, "rest")
		if rapid.Bool().Draw(t, "restSmall") {
			rest = rapid.Uint64Range(0, 9).Draw(t, "restDigit")
		}
		return c01AliasCase{Long: string(b), K: k, Rest: rest, Digits: rapid.SampledFrom([]int{6, 6, 8, 10}).Draw(t, "digits"), Algo: rapid.IntRange(0, 2).Draw(t, "algo"), Order: rapid.IntRange(0, 1).Draw(t, "order")}
	})
}

// ---------------------------------------------------------------------------
// Shifted field boundaries (OCRA). Two inputs whose fields, written one after the other, are the same bytes — the last byte
// of one field moved to the front of the next — are different inputs: one of them is usually inadmissible (a 7-byte counter),
// the other admissible with a code of its own. A memo or coalescing key that joins the fields without their lengths (also
// with a tag letter between them, when the moved byte IS that letter) takes one for the other.
type c06ShiftCase struct {
	Cfg   ref.OCRACfg `json:"cfg"`
	Key   []byte      `json:"key"`
	In    ref.OCRAIn  `json:"in"`    // admissible
	Pair  int         `json:"pair"`  // which adjacent pair of selected fields
	Tag   bool        `json:"tag"`   // the moved byte is the next field's tag letter (C Q P S T)
	Order int         `json:"order"` // 0: the shifted (other) input first, 1: the admissible input first
}

func checkC06Shift(c c06ShiftCase) verdict {
	fields := []*[]byte{&c.In.C, &c.In.Q, &c.In.P, &c.In.S, &c.In.T}
	sel := []bool{c.Cfg.C, c.Cfg.Q, c.Cfg.P, c.Cfg.S, c.Cfg.T}
	var idx []int
	for i, s := range sel {
		if s {
			idx = append(idx, i)
		}
	}
	if len(idx) < 2 {
		return ok(false, "fewer-than-two-fields")
	}
	f, g := idx[c.Pair%(len(idx)-1)], idx[c.Pair%(len(idx)-1)+1]
	a := ref.OCRAIn{C: append([]byte(nil), c.In.C...), Q: append([]byte(nil), c.In.Q...), P: append([]byte(nil), c.In.P...), S: append([]byte(nil), c.In.S...), T: append([]byte(nil), c.In.T...)}
	af := []*[]byte{&a.C, &a.Q, &a.P, &a.S, &a.T}
	if len(*af[f]) == 0 {
		return ok(false, "empty-field")
	}
	if c.Tag {
		(*af[f])[len(*af[f])-1] = "CQPST"[g]
	}
	if !ref.Admissible(c.Cfg, a) {
		return ok(false, "harness-input-not-admissible")
	}
	b := ref.OCRAIn{C: append([]byte(nil), a.C...), Q: append([]byte(nil), a.Q...), P: append([]byte(nil), a.P...), S: append([]byte(nil), a.S...), T: append([]byte(nil), a.T...)}
	bf := []*[]byte{&b.C, &b.Q, &b.P, &b.S, &b.T}
	last := (*bf[f])[len(*bf[f])-1]
	*bf[f] = (*bf[f])[:len(*bf[f])-1]
	*bf[g] = append([]byte{last}, *bf[g]...)
	_ = fields
	secret := ref.B32(c.Key)
	lc := toLib(c.Cfg)
	labels := []string{fmt.Sprintf("pair=%c%c", "CQPST"[f], "CQPST"[g]), fmt.Sprintf("tag=%v", c.Tag), fmt.Sprintf("order=%d", c.Order)}
	one := func(in ref.OCRAIn, name string) error {
		want, werr := ref.OCRA(c.Key, c.Cfg, in)
		got, gerr := otp.GenerateOCRA(secret, lc, toLibIn(in))
		if werr != nil {
			if gerr == nil {
				return fmt.Errorf("GenerateOCRA of the %s input %+v returned %q; the input is inadmissible", name, in, got)
			}
			okk, verr := otp.ValidateOCRA(secret, "000000"[:minI(6, c.Cfg.Digits)]+"0000"[:maxI(0, c.Cfg.Digits-6)], lc, toLibIn(in))
			if okk || verr == nil {
				return fmt.Errorf("ValidateOCRA of the %s (inadmissible) input answered (%v, %v)", name, okk, verr)
			}
			return nil
		}
		if gerr != nil || got != want {
			return fmt.Errorf("GenerateOCRA of the %s input = %q, %v; RFC value %q", name, got, gerr, want)
		}
		if okk, verr := otp.ValidateOCRA(secret, want, lc, toLibIn(in)); !okk || verr != nil {
			return fmt.Errorf("ValidateOCRA of the %s input rejects its own code %q: (%v, %v)", name, want, okk, verr)
		}
		return nil
	}
	seq := []struct {
		in   ref.OCRAIn
		name string
	}{{b, "shifted"}, {a, "admissible"}}
	if c.Order == 1 {
		seq[0], seq[1] = seq[1], seq[0]
	}
	for round := 0; round < 2; round++ {
		for _, s := range seq {
			if err := one(s.in, s.name); err != nil {
				return bad(true, labels, "%v — the other input of the pair has the same bytes with the boundary between %c and %c one position further (admissible %+v)", err, "CQPST"[f], "CQPST"[g], a)
			}
		}
	}
	return ok(true, labels...)
}

func minI(a, b int) int {
	if a < b {
		return a
	}
	return b
}

var c06Shift = newPart("C06", "shifted-boundaries",
	"rapid: a usable hand-built suite with at least two fields and an admissible input; the partner input moves the last byte of one selected field to the front of the next (optionally that byte is the next field's tag letter C Q P S T): the same bytes in a row, another input — inadmissible (then refused by generation and validation) or admissible with its own RFC value; both inputs go through GenerateOCRA / ValidateOCRA twice, in both orders, under one secret; every case non-trivial",
	checkC06Shift)

func TestC06_ShiftedBoundaries(t *testing.T) {
	c06Shift.rapid(t, ev.Pick(4_000, 80_000), func(t *rapid.T) c06ShiftCase {
		cfg := drawUsableCfg(t)
		if n := fieldCount(cfg); n < 2 {
			cfg.C, cfg.Q = true, true
			if cfg.QFormat == 0 {
				cfg.QFormat = 1
			}
		}
		if len(cfg.Raw) > 200 {
			cfg.Raw = cfg.Raw[:40]
		}
		return c06ShiftCase{Cfg: cfg, Key: rapid.SliceOfN(rapid.Byte(), 10, 32).Draw(t, "key"), In: drawAdmissible(t, cfg), Pair: rapid.IntRange(0, 3).Draw(t, "pair"),
			Tag: rapid.Bool().Draw(t, "tag"), Order: rapid.IntRange(0, 1).Draw(t, "order")}
	})
}
