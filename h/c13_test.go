package verifh

import (
	"encoding/hex"
	"fmt"
	"net/url"
	"regexp"
	"strings"
	"testing"
	"time"

	otp "github.com/ja7ad/otp"
	"pgregory.net/rapid"

	"verifh/ev"
	"verifh/gen"
	"verifh/ref"
)

// ---------------------------------------------------------------------------
// C13 — validation verdicts are unambiguous; errors never leak secret or expected code.

type c13Case struct {
	Kind    string  `json:"kind"` // hotp | totp | ocra
	H       c03Case `json:"h"`
	T       c04Case `json:"t"`
	O       c06Case `json:"o"`
	OKey    []byte  `json:"o_key"`   // raw key behind O.Secret when it is decodable
	Corrupt int     `json:"corrupt"` // -1: secret as is; otherwise position (mod length) replaced by '!'
}

// corrupt makes a secret text undecodable in one of several ways (pos < 0: leave it alone):
// a foreign character, an impossible length (alphabet characters only), padding in the
// middle, a trailing stray character — each takes a different error path in the decoder.
func corrupt(s string, pos int) string {
	if pos < 0 || len(s) == 0 {
		return s
	}
	bare := strings.TrimRight(strings.TrimSpace(s), "=")
	switch pos % 4 {
	case 1: // impossible length: cut alphabet-only text down to 1, 3 or 6 characters modulo 8
		for len(bare) > 0 {
			if r := len(bare) % 8; r == 1 || r == 3 || r == 6 {
				return bare
			}
			bare = bare[:len(bare)-1]
		}
		return "A"
	case 2: // padding in the middle
		if len(bare) >= 4 {
			k := 1 + (pos/4)%(len(bare)-2)
			return bare[:k] + "=" + bare[k:]
		}
	case 3: // one character too many, then padded as if it were complete
		t := bare + "A"
		for len(t)%8 != 0 {
			t += "="
		}
		if r := len(bare+"A") % 8; r == 1 || r == 3 || r == 6 {
			return t
		}
	}
	b := []byte(s)
	b[(pos/4)%len(b)] = '!'
	return string(b)
}

// secretNeedles lists the renderings of a secret that no error may contain.
func secretNeedles(texts []string, key []byte) []string {
	var n []string
	for _, t := range texts {
		tr := strings.TrimSpace(t)
		n = append(n, t, tr, strings.ToUpper(tr), strings.ToLower(tr), strings.TrimRight(tr, "="), strings.TrimRight(strings.ToUpper(tr), "="))
	}
	if len(key) >= 10 {
		n = append(n, string(key), hex.EncodeToString(key), strings.ToUpper(hex.EncodeToString(key)), ref.B32(key), ref.B32Pad(key))
	}
	var out []string
	for _, x := range n {
		if len(x) >= 16 { // >= 10 key bytes in base32; shorter fragments could collide with fixed error text
			out = append(out, x)
		}
	}
	return out
}

var hexLiteral = regexp.MustCompile(`0x[0-9a-fA-F]+`)

// renderErr: the error as a caller can print it - %v, %+v and the Go-syntax %#v without its hexadecimal literals.
func renderErr(err error) string {
	return fmt.Sprintf("%v | %+v | ", err, err) + hexLiteral.ReplaceAllString(fmt.Sprintf("%#v", err), "0x")
}

func leak(err error, secrets []string, codes []string) string {
	if err == nil {
		return ""
	}
	// the Go-syntax rendering prints pointers and unsigned fields as hexadecimal literals (0xc000520330): six decimal digits in
	// a row inside an address are a coincidence, not the code (F31) — hexadecimal literals are cut out of that rendering
	msg := renderErr(err)
	for _, s := range secrets {
		if strings.Contains(msg, s) {
			return fmt.Sprintf("error text %q contains the secret (%q)", err.Error(), s)
		}
	}
	for _, c := range codes {
		if len(c) >= 6 && strings.Contains(msg, c) {
			return fmt.Sprintf("error text %q contains the code that would have been accepted (%s)", err.Error(), c)
		}
	}
	return ""
}

func checkC13(c c13Case) verdict {
	var got bool
	var err error
	var secrets, codes []string
	var cause string
	var shortTexts []string
	var recall func(secret string) error
	switch c.Kind {
	case "hotp":
		h := c.H
		text := gen.Spell(h.Key, h.Sp)
		sub := corrupt(text, c.Corrupt)
		d, a, s := h.Digits, h.Algo, h.Skew
		var p *otp.Param
		if h.NilParam {
			d, a, s = 6, 0, 2
		} else {
			p = &otp.Param{Digits: otp.Digits(h.Digits), Algorithm: otp.Algorithm(h.Algo), Skew: uint(h.Skew)}
		}
		got, err = otp.ValidateHOTP(sub, string(h.Code), h.Counter, p)
		shortTexts = []string{text, sub}
		recall = func(sec string) error { _, e := otp.ValidateHOTP(sec, string(h.Code), h.Counter, p); return e }
		secrets = secretNeedles([]string{text, sub}, h.Key)
		sup := d >= 1 && d <= 10 && a <= 2
		if sup && s <= 10 && h.Counter <= ^uint64(0)-s {
			for code := range windowSet(h.Key, h.Counter, s, d, a) {
				codes = append(codes, code)
			}
		}
		cause = causeOf(c.Corrupt >= 0, s > 10, d, a, len(h.Code), got)
	case "totp":
		tc := c.T
		text := gen.Spell(tc.Key, tc.Sp)
		sub := corrupt(text, c.Corrupt)
		d, a, s, per := tc.Digits, tc.Algo, tc.Skew, tc.Period
		var p *otp.Param
		if tc.NilParam {
			d, a, s, per = 6, 0, 0, 30
		} else {
			p = &otp.Param{Digits: otp.Digits(tc.Digits), Algorithm: otp.Algorithm(tc.Algo), Skew: uint(tc.Skew), Period: uint(tc.Period)}
		}
		if per == 0 {
			per = 30
		}
		got, err = otp.ValidateTOTP(sub, string(tc.Code), time.Unix(tc.Unix, int64(tc.Nsec)), p)
		shortTexts = []string{text, sub}
		recall = func(sec string) error {
			_, e := otp.ValidateTOTP(sec, string(tc.Code), time.Unix(tc.Unix, int64(tc.Nsec)), p)
			return e
		}
		secrets = secretNeedles([]string{text, sub}, tc.Key)
		n := uint64(tc.Unix) / per
		if d >= 1 && d <= 10 && a <= 2 && s <= 10 && n >= s {
			for code := range windowSet(tc.Key, n, s, d, a) {
				codes = append(codes, code)
			}
		}
		cause = causeOf(c.Corrupt >= 0, s > 10, d, a, len(tc.Code), got)
	case "ocra":
		o := c.O
		suite, cfg, _ := o.Suite.resolve()
		if suite == nil {
			return ok(false, "suite-constructor-nil")
		}
		sub := corrupt(o.Secret, c.Corrupt)
		in := toLibIn(o.In)
		got, err = otp.ValidateOCRA(sub, string(o.Code), suite, in)
		shortTexts = []string{o.Secret, sub}
		recall = func(sec string) error { _, e := otp.ValidateOCRA(sec, string(o.Code), suite, in); return e }
		secrets = secretNeedles([]string{o.Secret, sub}, c.OKey)
		// the code that would have been accepted, by the reference (the library's own generation may be what fails)
		if c.OKey != nil {
			if rc, rerr := ref.OCRA(c.OKey, cfg, o.In); rerr == nil && len(rc) >= 6 {
				codes = append(codes, rc)
			}
		}
		if g, gerr := otp.GenerateOCRA(o.Secret, suite, in); gerr == nil {
			codes = append(codes, g)
		} else if e := leak(gerr, secrets, codes); e != "" {
			return bad(true, []string{"kind=ocra"}, "GenerateOCRA: %s", e)
		}
		switch {
		case got:
			cause = "accepted"
		case c.Corrupt >= 0 || o.Failing == "secret":
			cause = "bad-secret"
		case o.Failing == "suite":
			cause = "invalid-suite"
		case o.Failing == "input":
			cause = "inadmissible-input"
		case len(o.Code) != cfg.Digits:
			cause = "wrong-length"
		default:
			cause = "wrong-code"
		}
	}
	labels := []string{"kind=" + c.Kind, "cause=" + cause}
	if got && err != nil {
		return bad(true, labels, "%s validation returned (true, %v): accepted together with an error", c.Kind, err)
	}
	if !got && err == nil {
		return bad(true, labels, "%s validation returned (false, nil): rejected without an error", c.Kind)
	}
	if e := leak(err, secrets, codes); e != "" {
		// six digits can stand in an error text for another reason than the code (a counter, an instant, a size that the message
		// echoes): the code depends on the secret, so the same call is made with another secret of the same shape; digits that
		// are still there did not come from the code
		if strings.Contains(e, "the code that would have been accepted") && digitsIndependentOfSecret(err, codes, shortTexts, recall) {
			labels = append(labels, "digits-equal-to-the-code-independent-of-the-secret")
		} else {
			return bad(true, labels, "%s validation: %s", c.Kind, e)
		}
	}
	if e := leakShort(err, shortTexts, recall); e != "" {
		return bad(true, append(labels, "short-secret"), "%s validation: %s", c.Kind, e)
	}
	return ok(!got, labels...)
}

// shiftSecret moves every base32 letter of a secret text seven places on: another secret of the same shape (length, case,
// padding, foreign characters where they were).
func shiftSecret(t string) (string, bool) {
	const alpha = "ABCDEFGHIJKLMNOPQRSTUVWXYZ234567"
	alt := []byte(t)
	changed := false
	for i, ch := range alt {
		up := ch
		lower := ch >= 'a' && ch <= 'z'
		if lower {
			up = ch - 32
		}
		if k := strings.IndexByte(alpha, up); k >= 0 {
			n := alpha[(k+7)%32]
			if lower && n >= 'A' && n <= 'Z' {
				n += 32
			}
			alt[i] = n
			changed = true
		}
	}
	return string(alt), changed
}

// digitsIndependentOfSecret: the accepted code occurs in the error text, and it still occurs, digit for digit, when the same
// call is made with another secret of the same shape - so the text did not get those digits from the code.
func digitsIndependentOfSecret(err error, codes, texts []string, recall func(string) error) bool {
	if err == nil || recall == nil || len(texts) == 0 {
		return false
	}
	alt, changed := shiftSecret(texts[len(texts)-1])
	if !changed {
		return false
	}
	err2 := recall(alt)
	if err2 == nil {
		return false
	}
	msg, msg2 := renderErr(err), renderErr(err2)
	found := false
	for _, c := range codes {
		if len(c) >= 6 && strings.Contains(msg, c) {
			found = true
			if !strings.Contains(msg2, c) {
				return false
			}
		}
	}
	return found
}

// leakShort covers secrets shorter than 16 characters. A short text can occur in an error message by coincidence ("ME" in
// a sentence), so an occurrence is confirmed: the same call is made with another secret of the same shape (every base32
// letter moved seven places on); the secret is being echoed if that error now contains the OTHER text and no longer
// the first one.
func leakShort(err error, texts []string, recall func(string) error) string {
	if err == nil || recall == nil {
		return ""
	}
	msg := renderErr(err)
	const alpha = "ABCDEFGHIJKLMNOPQRSTUVWXYZ234567"
	for _, t := range texts {
		tr := strings.TrimSpace(t)
		core := strings.TrimRight(tr, "=")
		if len(core) < 2 || len(tr) >= 16 || !strings.Contains(msg, core) {
			continue
		}
		alt := []byte(t)
		changed := false
		for i, ch := range alt {
			up := ch
			lower := ch >= 'a' && ch <= 'z'
			if lower {
				up = ch - 32
			}
			if k := strings.IndexByte(alpha, up); k >= 0 {
				n := alpha[(k+7)%32]
				if lower && n >= 'A' && n <= 'Z' {
					n += 32
				}
				alt[i] = n
				changed = true
			}
		}
		if !changed {
			continue
		}
		altCore := strings.TrimRight(strings.TrimSpace(string(alt)), "=")
		err2 := recall(string(alt))
		if err2 == nil {
			continue
		}
		msg2 := renderErr(err2)
		if strings.Contains(msg2, altCore) && !strings.Contains(msg2, core) {
			return fmt.Sprintf("error text %q contains the secret %q; with the secret %q the same call says %q", err.Error(), core, altCore, err2.Error())
		}
	}
	return ""
}

func causeOf(badSecret, badSkew bool, d, a, codeLen int, accepted bool) string {
	switch {
	case accepted:
		return "accepted"
	case badSkew:
		return "bad-skew"
	case badSecret:
		return "bad-secret"
	case a > 2:
		return "bad-hash"
	case d < 1 || d > 10:
		return "bad-digits"
	case codeLen != d:
		return "wrong-length"
	default:
		return "wrong-code"
	}
}

var c13Main = newPart("C13", "validators",
	"rapid: the C03 / C04 / C06 case streams (accepting cases and every rejection cause: wrong code, wrong length, bad secret — additionally produced by replacing one character of the secret text by '!' —, bad hash, bad digits, bad skew, invalid suite, inadmissible input); oracle: (ok, err) is (true, nil) or (false, non-nil); err rendered with %v, %+v and %#v contains neither the secret (text as passed, trimmed, upper/lower-cased, unpadded, canonical base32, raw bytes, hex; only renderings of >= 16 characters, i.e. keys of >= 10 bytes) nor any code of 6+ digits the call would have accepted (every member of the reference window / the generated OCRA code); non-trivial = rejecting case; the run is inconclusive unless all rejection causes were produced",
	checkC13)

func genC13(t *rapid.T) c13Case {
	c := c13Case{Kind: rapid.SampledFrom([]string{"hotp", "totp", "ocra"}).Draw(t, "kind"), Corrupt: -1}
	if rapid.IntRange(0, 7).Draw(t, "corruptK") == 0 {
		c.Corrupt = rapid.IntRange(0, 400).Draw(t, "corrupt")
	}
	switch c.Kind {
	case "hotp":
		c.H = genC03(t)
	case "totp":
		c.T = genC04(t)
	default:
		c.O = genC06(t)
		if k, err := otp.DecodeSecret(c.O.Secret); err == nil { // harness convenience: raw key for the needle list
			c.OKey = k
		}
	}
	return c
}

var c13Causes = []string{"accepted", "wrong-code", "wrong-length", "bad-secret", "bad-hash", "bad-digits", "bad-skew", "invalid-suite", "inadmissible-input"}

func TestC13_Validators(t *testing.T) {
	c13Main.rapid(t, ev.Pick(40_000, 500_000), genC13)
	for _, cause := range c13Causes {
		if c13Main.rec().LabelCount("cause="+cause) == 0 {
			t.Fatalf("INFRA: rejection cause %q was never generated", cause)
		}
	}
}

// Errors of every other failing operation must not carry the secret either.
type c13OtherCase struct {
	Op      string `json:"op"`
	Key     []byte `json:"key"`
	Corrupt int    `json:"corrupt"`
	Digits  int    `json:"digits"`
	Algo    int    `json:"algo"`
	Break   string `json:"break"` // what is made to fail
}

func checkC13Other(c c13OtherCase) verdict {
	text := ref.B32(c.Key)
	sub := corrupt(text, c.Corrupt)
	needles := secretNeedles([]string{text, sub}, c.Key)
	labels := []string{"op=" + c.Op, "break=" + c.Break}
	var err error
	var code string
	switch c.Op {
	case "GenerateHOTP":
		code, err = otp.GenerateHOTP(sub, 7, &otp.Param{Digits: otp.Digits(c.Digits), Algorithm: otp.Algorithm(c.Algo)})
	case "GenerateTOTP":
		code, err = otp.GenerateTOTP(sub, time.Unix(1e9, 0), &otp.Param{Digits: otp.Digits(c.Digits), Algorithm: otp.Algorithm(c.Algo), Period: 30})
	case "GenerateOCRA":
		cfg := ref.OCRACfg{Raw: "x", Hash: c.Algo, Digits: c.Digits, Q: true, QFormat: 1}
		q := make([]byte, 8)
		if c.Break == "input" {
			q = q[:3]
		}
		code, err = otp.GenerateOCRA(sub, toLib(cfg), otp.OCRAInput{Challenge: q})
	case "DecodeSecret":
		_, err = otp.DecodeSecret(sub)
	case "GenerateTOTPURL":
		up := otp.URLParam{Issuer: "I", AccountName: "a", Secret: sub, Digits: otp.Digits(c.Digits), Algorithm: otp.Algorithm(c.Algo % 3)}
		if c.Break == "issuer" {
			up.Issuer = ""
		}
		if c.Break == "account" {
			up.AccountName = ""
		}
		_, err = otp.GenerateTOTPURL(up)
	case "ParseOTPAuthURL":
		raw := "otpauth://totp/I:a?secret=" + url.QueryEscape(sub) + "&digits=" + map[string]string{"digits": "x6", "period": "6"}[c.Break] + "&period=" + map[string]string{"digits": "30", "period": "-3"}[c.Break] + "&algorithm=" + map[string]string{"algorithm": "MD5"}[c.Break]
		if c.Break == "scheme" {
			raw = "http://totp/I:a?secret=" + url.QueryEscape(sub)
		}
		if c.Break == "label" {
			raw = "otpauth://totp/nolabel?secret=" + url.QueryEscape(sub)
		}
		u, perr := url.Parse(raw)
		if perr != nil {
			return ok(false, "unparsable")
		}
		_, err = otp.ParseOTPAuthURL(u)
	}
	if err == nil {
		return ok(false, append(labels, "no-failure")...)
	}
	if code != "" {
		return bad(true, labels, "%s failed (%v) but also returned %q", c.Op, err, code)
	}
	if e := leak(err, needles, nil); e != "" {
		return bad(true, labels, "%s: %s", c.Op, e)
	}
	return ok(true, labels...)
}

var c13Other = newPart("C13", "other-operations",
	"rapid: failing calls of GenerateHOTP / GenerateTOTP / GenerateOCRA / DecodeSecret / GenerateTOTPURL / ParseOTPAuthURL with a 10..64-byte secret (intact or with one character replaced by '!') and one broken ingredient (digits, hash, input, issuer, account, scheme, label, digits/period/algorithm parameter text); oracle: the error text contains no rendering of the secret and no code is returned along with an error; non-trivial = the call failed",
	checkC13Other)

func TestC13_Other(t *testing.T) {
	c13Other.rapid(t, ev.Pick(20_000, 300_000), func(t *rapid.T) c13OtherCase {
		c := c13OtherCase{Op: rapid.SampledFrom([]string{"GenerateHOTP", "GenerateTOTP", "GenerateOCRA", "DecodeSecret", "GenerateTOTPURL", "ParseOTPAuthURL"}).Draw(t, "op"),
			Key: rapid.SliceOfN(rapid.Byte(), 10, 64).Draw(t, "key"), Corrupt: -1, Digits: 6, Algo: 0}
		switch c.Op {
		case "ParseOTPAuthURL":
			c.Break = rapid.SampledFrom([]string{"digits", "period", "algorithm", "scheme", "label"}).Draw(t, "break")
		case "GenerateTOTPURL":
			c.Break = rapid.SampledFrom([]string{"issuer", "account"}).Draw(t, "break")
		case "DecodeSecret":
			c.Break = "secret"
		default:
			c.Break = rapid.SampledFrom([]string{"secret", "digits", "hash", "input"}).Draw(t, "break")
			if c.Break == "input" && c.Op != "GenerateOCRA" {
				c.Break = "secret"
			}
		}
		switch c.Break {
		case "secret":
			c.Corrupt = rapid.IntRange(0, 200).Draw(t, "corrupt")
		case "digits":
			if c.Op != "ParseOTPAuthURL" {
				c.Digits = rapid.SampledFrom([]int{0, 3, 11, 255}).Draw(t, "badDigits")
			}
		case "hash":
			c.Algo = rapid.SampledFrom([]int{3, 9, 255}).Draw(t, "badAlgo")
		}
		return c
	})
}
