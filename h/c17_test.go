package verifh

import (
	"bytes"
	"fmt"
	"math/big"
	"strings"
	"testing"

	otp "github.com/ja7ad/otp"
	"pgregory.net/rapid"

	"verifh/ev"
	"verifh/ref"
)

// ---------------------------------------------------------------------------
// C17 — OCRA input helpers encode as documented; numeric questions follow RFC 6287.

// independent encoders ------------------------------------------------------

func be8(v uint64) []byte {
	b := new(big.Int).SetUint64(v).Bytes()
	out := make([]byte, 8)
	copy(out[8-len(b):], b)
	return out
}

// strictHex decodes an even-length string of hex digits; ok=false otherwise.
// undecorate removes what conventional hex notations put around and between the digits — ASCII white space, ':' and '_'
// separators, one leading 0x / 0X — and reports whether anything was removed. The statement says that malformed text is
// rejected; whether " 00", "0x00" or "00:01" is malformed or a notation of the bytes 00 / 00 01 it leaves open. Such text
// is unclassified: it may be refused, and if it is accepted it must mean exactly the digits it contains.
func undecorate(s string) (digits string, decorated bool) {
	var sb strings.Builder
	for i := 0; i < len(s); i++ {
		switch s[i] {
		case ' ', '\t', '\n', '\r', ':', '_':
			decorated = true
		default:
			sb.WriteByte(s[i])
		}
	}
	d := sb.String()
	if strings.HasPrefix(d, "0x") || strings.HasPrefix(d, "0X") {
		d, decorated = d[2:], true
	}
	return d, decorated
}

func strictHex(s string) ([]byte, bool) {
	if len(s)%2 != 0 {
		return nil, false
	}
	out := make([]byte, len(s)/2)
	for i := 0; i < len(s); i++ {
		c := s[i]
		var v byte
		switch {
		case c >= '0' && c <= '9':
			v = c - '0'
		case c >= 'a' && c <= 'f':
			v = c - 'a' + 10
		case c >= 'A' && c <= 'F':
			v = c - 'A' + 10
		default:
			return nil, false
		}
		if i%2 == 0 {
			out[i/2] = v << 4
		} else {
			out[i/2] |= v
		}
	}
	return out, true
}

func allIn(s, set string) bool {
	for i := 0; i < len(s); i++ {
		if strings.IndexByte(set, s[i]) < 0 {
			return false
		}
	}
	return s != ""
}

// decToHex converts a string of decimal digits to upper-case hex text by
// schoolbook long division on digit arrays (no big-number library).
func decToHex(dec string) string {
	digits := make([]int, len(dec))
	for i := range dec {
		digits[i] = int(dec[i] - '0')
	}
	var hexRev []byte
	for {
		allZero := true
		rem := 0
		for i := range digits {
			cur := rem*10 + digits[i]
			digits[i] = cur / 16
			rem = cur % 16
			if digits[i] != 0 {
				allZero = false
			}
		}
		hexRev = append(hexRev, "0123456789ABCDEF"[rem])
		if allZero {
			break
		}
	}
	for i, j := 0, len(hexRev)-1; i < j; i, j = i+1, j-1 {
		hexRev[i], hexRev[j] = hexRev[j], hexRev[i]
	}
	return string(hexRev)
}

// rfcQuestion is the RFC 6287 conversion of a decimal question: hex text,
// right-padded with '0' to 256 hex digits, decoded to 128 bytes.
func rfcQuestion(dec string) ([]byte, bool) {
	hx := decToHex(dec)
	if len(hx) > 256 {
		return nil, false
	}
	hx += strings.Repeat("0", 256-len(hx))
	return strictHex(hx)
}

// ---------------------------------------------------------------------------

type c17Case struct {
	Fn     string    `json:"fn"`
	U      uint64    `json:"u"`
	S      []byte    `json:"s"` // text argument (bytes: may be invalid UTF-8)
	N      int       `json:"n"` // width / size
	F      [5]string `json:"f"` // HexInputToOCRA fields
	Hash   int       `json:"hash"`
	Digits int       `json:"digits"`
	QFmt   int       `json:"qfmt"` // 1 N08, 2 N10
	Key    []byte    `json:"key"`
}

const decDigits, hexDigits = "0123456789", "0123456789abcdefABCDEF"

func checkC17(c c17Case) verdict {
	s := string(c.S)
	labels := []string{"fn=" + c.Fn}
	switch c.Fn {
	case "To8ByteBigEndian":
		got := otp.To8ByteBigEndian(c.U)
		if !bytes.Equal(got, be8(c.U)) {
			return bad(true, labels, "To8ByteBigEndian(%d) = %x, want %x", c.U, got, be8(c.U))
		}
		if e := retainBytes(got, "To8ByteBigEndian"); e != nil {
			return bad(true, labels, "%v", e)
		}
		return ok(c.U >= 1<<32, labels...)
	case "ParseDecimalToBigEndian8", "ParseDecimal64BigEndian":
		var got []byte
		var err error
		if c.Fn == "ParseDecimalToBigEndian8" {
			got, err = otp.ParseDecimalToBigEndian8(s)
		} else {
			got, err = otp.ParseDecimal64BigEndian(s)
		}
		body := s
		signed := false
		if len(body) > 0 && (body[0] == '+' || body[0] == '-') {
			body, signed = body[1:], true
		}
		if !allIn(body, decDigits) {
			labels = append(labels, "malformed")
			if err == nil {
				return bad(true, labels, "%s(%q) accepted malformed text as %x", c.Fn, s, got)
			}
			return ok(true, labels...)
		}
		v, _ := new(big.Int).SetString(s, 10)
		fits := v.Sign() >= 0 && v.BitLen() <= 64
		if signed { // unclassified: if accepted the result must still be the right number
			labels = append(labels, "signed")
			if err == nil && (!fits || !bytes.Equal(got, be8(v.Uint64()))) {
				return bad(true, labels, "%s(%q) = %x, not the number written", c.Fn, s, got)
			}
			return ok(false, labels...)
		}
		if !fits {
			labels = append(labels, "overlong")
			if err == nil {
				return bad(true, labels, "%s(%q) accepted a value above 2^64-1 as %x", c.Fn, s, got)
			}
			return ok(true, labels...)
		}
		if err != nil || !bytes.Equal(got, be8(v.Uint64())) {
			return bad(true, labels, "%s(%q) = %x, %v; want %x", c.Fn, s, got, err, be8(v.Uint64()))
		}
		if e := retainBytes(got, c.Fn); e != nil {
			return bad(true, labels, "%v", e)
		}
		return ok(v.Uint64() >= 1<<32 || len(s) != len(v.String()), labels...)
	case "LeftPadHex":
		got := otp.LeftPadHex(s, c.N)
		var want string
		if len(s) >= c.N {
			want = s[len(s)-c.N:]
		} else {
			want = strings.Repeat("0", c.N-len(s)) + s
		}
		if got != want {
			return bad(true, labels, "LeftPadHex(%q, %d) = %q, want %q", s, c.N, got, want)
		}
		return ok(len(s)%2 == 1 || len(s) > c.N, labels...)
	case "MustHexPadLeft":
		// documented to panic on bad hex: only called with hex digits
		if !allIn(s, hexDigits) && s != "" {
			return ok(false, "skipped-nonhex")
		}
		padded := s
		if len(padded) >= 2*c.N {
			padded = padded[len(padded)-2*c.N:]
		} else {
			padded = strings.Repeat("0", 2*c.N-len(padded)) + padded
		}
		want, _ := strictHex(padded)
		got := otp.MustHexPadLeft(s, c.N)
		if !bytes.Equal(got, want) || len(got) != c.N {
			return bad(true, labels, "MustHexPadLeft(%q, %d) = %x, want %x", s, c.N, got, want)
		}
		return ok(len(s)%2 == 1, labels...)
	case "ParseHexTimestamp":
		got, err := otp.ParseHexTimestamp(s)
		if s == "" { // unclassified: nothing written
			if err == nil && !bytes.Equal(got, make([]byte, 8)) {
				return bad(true, labels, "ParseHexTimestamp(\"\") = %x", got)
			}
			return ok(false, append(labels, "empty")...)
		}
		if !allIn(s, hexDigits) {
			if d, dec := undecorate(s); dec && allIn(d, hexDigits) && len(d) <= 16 {
				// a conventional notation around hex digits: unclassified; if accepted it must mean the digits it contains
				labels = append(labels, "decorated-hex")
				if err == nil {
					v := new(big.Int)
					if d != "" {
						v.SetString(d, 16)
					}
					if !bytes.Equal(got, be8(v.Uint64())) {
						return bad(true, labels, "ParseHexTimestamp(%q) = %x; the digits it contains spell %x", s, got, be8(v.Uint64()))
					}
				}
				return ok(false, labels...)
			}
			labels = append(labels, "malformed")
			if err == nil {
				return bad(true, labels, "ParseHexTimestamp(%q) accepted malformed text as %x (%d bytes)", s, got, len(got))
			}
			return ok(true, labels...)
		}
		if len(s) > 16 {
			// more digits than 8 bytes hold: a value that does not fit cannot "become 8 bytes" and must be refused; surplus
			// leading zeros (the value still fits) are not mentioned by the helper's documentation: refusing them or
			// returning the 8 bytes of the value are both fine — anything else (more than 8 bytes, another value) is not
			v, _ := new(big.Int).SetString(s, 16)
			labels = append(labels, "overlong")
			if err != nil {
				return ok(true, labels...)
			}
			if !v.IsUint64() || !bytes.Equal(got, be8(v.Uint64())) {
				return bad(true, labels, "ParseHexTimestamp(%q) accepted overlong text as %x (%d bytes)", s, got, len(got))
			}
			return ok(true, append(labels, "overlong-leading-zeros-accepted")...)
		}
		v, _ := new(big.Int).SetString(s, 16)
		if err != nil || !bytes.Equal(got, be8(v.Uint64())) {
			return bad(true, labels, "ParseHexTimestamp(%q) = %x, %v; want the 8 bytes %x", s, got, err, be8(v.Uint64()))
		}
		if e := retainBytes(got, "ParseHexTimestamp"); e != nil {
			return bad(true, labels, "%v", e)
		}
		return ok(len(s)%2 == 1 || v.Uint64() >= 1<<32, labels...)
	case "HexInputToOCRA":
		in, err := otp.HexInputToOCRA(c.F[0], c.F[1], c.F[2], c.F[3], c.F[4])
		var want [5][]byte
		valid, decorated := true, false
		for i, f := range c.F {
			if f == "" {
				continue
			}
			b, okk := strictHex(f)
			if !okk {
				if d, dec := undecorate(f); dec {
					if b2, ok2 := strictHex(d); ok2 {
						// a conventional notation around well-formed digits (or around nothing): unclassified
						decorated = true
						want[i] = b2
						continue
					}
				}
				valid = false
			}
			want[i] = b
		}
		if valid && decorated {
			labels = append(labels, "decorated-hex")
			if err != nil {
				return ok(false, append(labels, "refused")...)
			}
			got := [5][]byte{in.Counter, in.Challenge, in.Password, in.SessionInfo, in.Timestamp}
			for i := range got {
				if !bytes.Equal(got[i], want[i]) {
					return bad(true, labels, "HexInputToOCRA(%q) accepts the decorated field %d as %x; the digits it contains spell %x", c.F, i, got[i], want[i])
				}
			}
			return ok(false, append(labels, "accepted-as-its-digits")...)
		}
		if !valid {
			labels = append(labels, "malformed")
			if err == nil {
				return bad(true, labels, "HexInputToOCRA(%q) accepted malformed hex", c.F)
			}
			if in.Counter != nil || in.Challenge != nil || in.Password != nil || in.SessionInfo != nil || in.Timestamp != nil {
				labels = append(labels, "partial-data-with-error") // not forbidden by the statement: the error is the rejection
			}
			return ok(true, labels...)
		}
		got := [5][]byte{in.Counter, in.Challenge, in.Password, in.SessionInfo, in.Timestamp}
		if e := retainBytes(in.Challenge, "HexInputToOCRA challenge"); e != nil {
			return bad(true, labels, "%v", e)
		}
		for i := range got {
			if err != nil || !bytes.Equal(got[i], want[i]) || (c.F[i] == "") != (got[i] == nil) {
				return bad(true, labels, "HexInputToOCRA(%q): field %d = %x (nil=%v), %v; want %x", c.F, i, got[i], got[i] == nil, err, want[i])
			}
		}
		return ok(true, labels...)
	case "ParseDecimalChallengeRFC6287":
		got, err := otp.ParseDecimalChallengeRFC6287(s)
		body := s
		signed := false
		if len(body) > 0 && (body[0] == '+' || body[0] == '-') {
			body, signed = body[1:], true
		}
		if !allIn(body, decDigits) {
			labels = append(labels, "malformed")
			if err == nil {
				return bad(true, labels, "ParseDecimalChallengeRFC6287(%q) accepted malformed text as %x", s, got)
			}
			return ok(true, labels...)
		}
		want, fits := rfcQuestion(body)
		if signed || !fits {
			labels = append(labels, "unclassified")
			// an accepted signed text must still mean the number written: "+5" is 5, "-0" is 0; a negative number is no
			// question at all, so whatever bytes come back for "-5" are not "the RFC value for that question"
			if err == nil && signed && fits {
				zero := strings.Trim(body, "0") == ""
				if (s[0] == '-' && !zero) || !bytes.Equal(got, want) {
					return bad(true, labels, "ParseDecimalChallengeRFC6287(%q) = %x, not the number written", s, got)
				}
			}
			return ok(err == nil && signed, labels...)
		}
		if err != nil || !bytes.Equal(got, want) {
			return bad(true, labels, "ParseDecimalChallengeRFC6287(%q) = %x, %v; RFC 6287 conversion (hex %s right-padded to 128 bytes) is %x", s, got, err, decToHex(body), want)
		}
		if e := retainBytes(got, "ParseDecimalChallengeRFC6287"); e != nil {
			return bad(true, labels, "%v", e)
		}
		if len(decToHex(body))%2 == 1 {
			labels = append(labels, "odd-hex")
		}
		return ok(len(decToHex(body))%2 == 1 || len(s) != 8, labels...)
	case "question-end-to-end":
		// a decimal question through the helper into GenerateOCRA == RFC value for that question
		if !allIn(s, decDigits) {
			return ok(false, "skipped")
		}
		q, err := otp.ParseDecimalChallengeRFC6287(s)
		if err != nil {
			return bad(true, labels, "ParseDecimalChallengeRFC6287(%q): %v", s, err)
		}
		cfg := ref.OCRACfg{Raw: fmt.Sprintf("OCRA-1:HOTP-SHA%s-%d:QN%s", []string{"1", "256", "512"}[c.Hash], c.Digits, []string{"", "08", "10"}[c.QFmt]), Hash: c.Hash, Digits: c.Digits, Q: true, QFormat: c.QFmt}
		wq, _ := rfcQuestion(s)
		want, rerr := ref.OCRA(c.Key, cfg, ref.OCRAIn{Q: wq})
		if rerr != nil {
			return bad(true, labels, "HARNESS: reference refused %+v", cfg)
		}
		var suite otp.Suite = toLib(cfg)
		if otp.IsKnownSuite(cfg.Raw) {
			suite, _ = otp.NewRawSuite(cfg.Raw)
			labels = append(labels, "registered")
		}
		got, gerr := otp.GenerateOCRA(ref.B32(c.Key), suite, otp.OCRAInput{Challenge: q})
		if gerr != nil || got != want {
			return bad(true, labels, "OCRA code for decimal question %q under %s = %q, %v; RFC value %q", s, cfg.Raw, got, gerr, want)
		}
		return ok(len(s) != 8 || len(decToHex(s))%2 == 1, labels...)
	}
	panic("HARNESS: unknown fn " + c.Fn)
}

var c17Main = newPart("C17", "helpers",
	"rapid: To8ByteBigEndian over uint64 boundaries and random values; ParseDecimalToBigEndian8 / ParseDecimal64BigEndian / ParseDecimalChallengeRFC6287 over decimal strings of length 0..300 incl. leading zeros, signs, values around 2^32 / 2^64, overlong, non-digits; LeftPadHex / MustHexPadLeft (valid hex only, up to 300 digits) over odd/even lengths and widths below/at/above the length, the field widths 8 / 20 / 32 / 64 / 128 with overlong values; ParseHexTimestamp over 0..20 hex digits and malformed text; HexInputToOCRA over five fields each valid / odd-length / non-hex / empty; decimal questions of 1..64 digits end-to-end through GenerateOCRA with numeric-challenge suites of every hash and digit count 4..10; oracles: independent encoders (big-endian by big.Int bytes, strict hex reader, decimal-to-hex by long division on digit arrays, right-padded with '0' to 256 hex digits) and the RFC 6287 reference; non-trivial = odd number of hex digits or value >= 2^32 or malformed text or question length != 8",
	checkC17)

var c17Fns = []string{"To8ByteBigEndian", "ParseDecimalToBigEndian8", "ParseDecimal64BigEndian", "LeftPadHex", "MustHexPadLeft", "ParseHexTimestamp", "HexInputToOCRA", "ParseDecimalChallengeRFC6287", "ParseDecimalChallengeRFC6287", "question-end-to-end", "question-end-to-end"}

func drawDigits(t *rapid.T, set string, lo, hi int, label string) string {
	n := rapid.IntRange(lo, hi).Draw(t, label+"N")
	b := make([]byte, n)
	for i := range b {
		b[i] = set[rapid.IntRange(0, len(set)-1).Draw(t, label)]
	}
	return string(b)
}

func genC17(t *rapid.T) c17Case {
	c := c17Case{Fn: rapid.SampledFrom(c17Fns).Draw(t, "fn")}
	u64 := func() uint64 {
		if rapid.Bool().Draw(t, "uK") {
			return rapid.SampledFrom([]uint64{0, 1, 255, 256, 1<<32 - 1, 1 << 32, 1<<32 + 1, 1<<63 - 1, 1 << 63, 1<<64 - 1, 0x0102030405060708}).Draw(t, "uB")
		}
		return rapid.Uint64().Draw(t, "u")
	}
	malform := func(s string) string {
		switch rapid.IntRange(0, 7).Draw(t, "malK") {
		case 0:
			return s + rapid.SampledFrom([]string{"x", " ", "g", "-", ".", "\x00", "é"}).Draw(t, "malC")
		case 1:
			return rapid.SampledFrom([]string{"+", "-", " ", "0x"}).Draw(t, "malP") + s
		case 2:
			return ""
		case 3:
			if len(s) > 1 {
				k := rapid.IntRange(0, len(s)-1).Draw(t, "malAt")
				return s[:k] + rapid.SampledFrom([]string{"_", "z", " ", ","}).Draw(t, "malR") + s[k+1:]
			}
		case 4, 5:
			// one character replaced by a byte that is NOT a digit but looks like one to a nibble / range test: the
			// neighbours of '0'..'9' (/ : ; < = > ?), digits with another high nibble (0x10.., 0x40.., 0xB0..), full-width
			if len(s) > 0 {
				k := rapid.IntRange(0, len(s)-1).Draw(t, "nbAt")
				d := byte(rapid.IntRange(0, 9).Draw(t, "nbD"))
				r := rapid.SampledFrom([]string{"/", ":", ";", "<", "=", ">", "?", string([]byte{0x10 + d}), string([]byte{0x20 + d}), string([]byte{0x40 + d}), string([]byte{0x70 + d}), string([]byte{0xB0 + d}), string([]byte{0xF0 + d}), "\uff10", "\u0660"}).Draw(t, "nbR")
				return s[:k] + r + s[k+1:]
			}
		}
		return s
	}
	// hex digits in a conventional layout: grouped by blanks or separators, wrapped over lines, ending in a line break, with
	// a 0x in front — any number of decorations, so that what is left after a reader removed them has any length and parity
	decorate := func(s string) string {
		switch rapid.IntRange(0, 3).Draw(t, "decoK") {
		case 0: // grouped every 2 / 4 / 8 digits
			g := rapid.SampledFrom([]int{2, 4, 8}).Draw(t, "decoG")
			sep := rapid.SampledFrom([]string{" ", ":", "_", "\n", "\r\n", "\t", "  "}).Draw(t, "decoS")
			var sb strings.Builder
			for i := 0; i < len(s); i++ {
				if i > 0 && i%g == 0 {
					sb.WriteString(sep)
				}
				sb.WriteByte(s[i])
			}
			return sb.String()
		case 1: // a line end (or several blanks) after the digits
			return s + rapid.SampledFrom([]string{"\n", "\r\n", "  ", " \n", "\t\t", "\r\n\r\n"}).Draw(t, "decoT")
		case 2: // blanks in front and behind
			return rapid.SampledFrom([]string{" ", "  ", "\t", "\n"}).Draw(t, "decoL") + s + rapid.SampledFrom([]string{" ", "  ", "\n", "\r\n"}).Draw(t, "decoR")
		default: // 1..4 decorations at arbitrary places
			n := rapid.IntRange(1, 4).Draw(t, "decoN")
			for i := 0; i < n; i++ {
				k := rapid.IntRange(0, len(s)).Draw(t, "decoAt")
				s = s[:k] + rapid.SampledFrom([]string{" ", "\n", "\r", "\t", ":", "_"}).Draw(t, "decoC") + s[k:]
			}
			return s
		}
	}
	switch c.Fn {
	case "To8ByteBigEndian":
		c.U = u64()
	case "ParseDecimalToBigEndian8", "ParseDecimal64BigEndian":
		switch rapid.IntRange(0, 4).Draw(t, "decK") {
		case 0:
			c.S = []byte(fmt.Sprint(u64()))
		case 1:
			c.S = []byte(strings.Repeat("0", rapid.IntRange(1, 30).Draw(t, "lz")) + fmt.Sprint(u64()))
		case 2:
			c.S = []byte(rapid.SampledFrom([]string{"18446744073709551616", "18446744073709551615", "99999999999999999999", "184467440737095516150", "4294967296", "4294967295"}).Draw(t, "decB"))
		case 3:
			c.S = []byte(malform(fmt.Sprint(u64())))
		default:
			c.S = []byte(drawDigits(t, decDigits, 0, 300, "dec"))
		}
	case "LeftPadHex":
		c.S = []byte(drawDigits(t, hexDigits, 0, 40, "hx"))
		c.N = rapid.SampledFrom([]int{0, 1, 2, 7, 8, 15, 16, 17, 32, 256, len(c.S), len(c.S) + 1, maxI(len(c.S)-1, 0)}).Draw(t, "w")
	case "MustHexPadLeft":
		c.S = []byte(drawDigits(t, hexDigits, 0, 40, "hx"))
		if rapid.IntRange(0, 2).Draw(t, "hxLong") == 0 {
			// longer than the widest field: overlong values for every width in use (the digest widths 20 / 32 / 64 included)
			c.S = []byte(drawDigits(t, hexDigits, 41, 300, "hxL"))
		}
		c.N = rapid.SampledFrom([]int{0, 1, 4, 8, 16, 20, 32, 64, 128, len(c.S) / 2, len(c.S)/2 + 1, maxI(len(c.S)/2-1, 0), maxI(len(c.S)/2-3, 0)}).Draw(t, "size")
	case "ParseHexTimestamp":
		switch rapid.IntRange(0, 4).Draw(t, "tsK") {
		case 4:
			c.S = []byte(decorate(drawDigits(t, hexDigits, 1, 16, "tsDeco")))
		case 0:
			c.S = []byte(fmt.Sprintf("%x", u64()))
		case 1:
			c.S = []byte(drawDigits(t, hexDigits, 0, 20, "ts"))
		case 2:
			c.S = []byte(malform(fmt.Sprintf("%X", u64())))
		default:
			c.S = []byte(rapid.SampledFrom([]string{"000000000000000001", "00000000000000001", "0000000000000001", "ffffffffffffffff", "fffffffffffffffff", "0", "00", "1"}).Draw(t, "tsB"))
		}
	case "HexInputToOCRA":
		for i := range c.F {
			switch rapid.IntRange(0, 6).Draw(t, "fK") {
			case 6:
				c.F[i] = decorate(drawDigits(t, hexDigits, 1, 40, "fDeco"))
			case 0:
				c.F[i] = ""
			case 1:
				c.F[i] = drawDigits(t, hexDigits, 1, 41, "fOddEven")
			case 2:
				c.F[i] = malform(drawDigits(t, hexDigits, 2, 16, "fMal"))
			default:
				n := rapid.IntRange(1, 130).Draw(t, "fLen")
				c.F[i] = drawDigits(t, hexDigits, 2*n, 2*n, "fHex")
			}
		}
	case "ParseDecimalChallengeRFC6287":
		switch rapid.IntRange(0, 4).Draw(t, "qK") {
		case 0:
			c.S = []byte(drawDigits(t, decDigits, 1, 64, "q"))
		case 1:
			c.S = []byte(drawDigits(t, decDigits, 0, 320, "qLong"))
		case 2:
			c.S = []byte(malform(drawDigits(t, decDigits, 1, 20, "qMal")))
		case 3:
			c.S = []byte(rapid.SampledFrom([]string{"0", "00000000", "1", "15", "16", "255", "256", "11111111", "12345678", "99999999", "4294967295", "4294967296", "18446744073709551616"}).Draw(t, "qB"))
		default:
			c.S = []byte(strings.Repeat("0", rapid.IntRange(1, 10).Draw(t, "qlz")) + drawDigits(t, decDigits, 1, 20, "qz"))
		}
	case "question-end-to-end":
		c.S = []byte(drawDigits(t, decDigits, 1, 64, "q"))
		c.Hash = rapid.IntRange(0, 2).Draw(t, "hash")
		c.Digits = rapid.IntRange(4, 10).Draw(t, "digits")
		c.QFmt = rapid.IntRange(1, 2).Draw(t, "qfmt")
		c.Key = rapid.SliceOfN(rapid.Byte(), 1, 64).Draw(t, "key")
	}
	return c
}

func TestC17_Helpers(t *testing.T) {
	c17Main.rapid(t, ev.Pick(60_000, 800_000), genC17)
}

// ---------------------------------------------------------------------------
// Decimal questions at the boundaries of the conversion, enumerated. A decimal-to-hexadecimal routine written without
// big integers sizes its work area from the number of decimal digits; it goes wrong where the number of hex digits
// steps up — at the powers of 16 — and at the largest values of a length. Random questions meet such a value rarely
// (for one length in 64, one leading-digit range in 20).
var c17Bound = newPart("C17", "question-boundaries",
	"complete: the decimal questions 16^h - 1, 16^h, 16^h + 1 (h = 0..53, every step in the number of hex digits up to 64 decimal digits), 10^(L-1), 10^L - 1 and 95 followed by nines (L = 1..64), and each with leading zeros up to the next length, through ParseDecimalChallengeRFC6287 and end-to-end through GenerateOCRA (SHA-1 / 6 digits, QN08); oracle: the independent decimal-to-hex conversion right-padded to 128 bytes and the RFC 6287 reference; every case distinct and non-trivial",
	checkC17)

func TestC17_QuestionBoundaries(t *testing.T) {
	defer c17Bound.rec().Flush()
	seen := map[string]bool{}
	var qs []string
	add := func(v *big.Int) {
		if v.Sign() < 0 {
			return
		}
		s := v.String()
		if len(s) > 64 || seen[s] {
			return
		}
		seen[s] = true
		qs = append(qs, s)
		if len(s) < 64 {
			qs = append(qs, "0"+s)
		}
	}
	one := big.NewInt(1)
	p := big.NewInt(1)
	for h := 0; h <= 53; h++ {
		add(new(big.Int).Sub(p, one))
		add(p)
		add(new(big.Int).Add(p, one))
		p = new(big.Int).Lsh(p, 4)
	}
	ten := big.NewInt(10)
	p = big.NewInt(1)
	for l := 1; l <= 64; l++ {
		add(p) // 10^(l-1)
		next := new(big.Int).Mul(p, ten)
		add(new(big.Int).Sub(next, one)) // 10^l - 1
		if l >= 3 {
			v, _ := new(big.Int).SetString("95"+strings.Repeat("9", l-2), 10)
			add(v)
			v2, _ := new(big.Int).SetString("96"+strings.Repeat("0", l-2), 10)
			add(v2)
		}
		p = next
	}
	key := []byte("12345678901234567890")
	for i, q := range qs {
		if !ev.Mine(i) {
			continue
		}
		c17Bound.each(t, c17Case{Fn: "ParseDecimalChallengeRFC6287", S: []byte(q)})
		c17Bound.each(t, c17Case{Fn: "question-end-to-end", S: []byte(q), Hash: 0, Digits: 6, QFmt: 1, Key: key})
	}
	c17Bound.rec().Exhaustive()
}
