// Package early installs a switchable stand-in for crypto/rand.Reader before any package of the code under test is
// initialised. Go initialises the packages of a program in import-path order among those whose imports are done
// (Go 1.21+); this package imports nothing but crypto/rand, io and sync/atomic and its path sorts before
// "github.com/...", so its init runs before the library's. A library that copies rand.Reader into a variable of its own
// at start-up (an injectable random source, a bufio.Reader around it) therefore captures the stand-in, and the C08
// harness can still hand it a recorded stream. By default the stand-in delegates to the real source.
package early

import (
	"crypto/rand"
	"io"
	"sync/atomic"
)

type proxy struct {
	orig io.Reader
	cur  atomic.Pointer[io.Reader]
}

func (p *proxy) Read(b []byte) (int, error) {
	if r := p.cur.Load(); r != nil {
		return (*r).Read(b)
	}
	return p.orig.Read(b)
}

// Proxy is what crypto/rand.Reader is for the whole life of the process.
var Proxy = &proxy{}

func init() {
	Proxy.orig = rand.Reader
	rand.Reader = Proxy
}

// Use makes the stand-in read from r until the returned function is called.
func Use(r io.Reader) (restore func()) {
	old := Proxy.cur.Swap(&r)
	return func() { Proxy.cur.Store(old) }
}

// Installed reports whether crypto/rand.Reader still is the stand-in.
func Installed() bool { return rand.Reader == io.Reader(Proxy) }
