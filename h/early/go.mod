module early.verif

go 1.24
