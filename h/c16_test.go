package verifh

import (
	"fmt"
	"math/big"
	"net/url"
	"regexp"
	"runtime"
	"strings"
	"testing"
	"unicode/utf8"

	otp "github.com/ja7ad/otp"
	"pgregory.net/rapid"

	"verifh/ev"
	"verifh/gen"
)

// ---------------------------------------------------------------------------
// C16 — provisioning URLs round-trip.

type c16Case struct {
	Kind    string `json:"kind"` // totp | hotp
	Issuer  string `json:"issuer"`
	Account string `json:"account"`
	Secret  string `json:"secret"`
	Digits  int    `json:"digits"` // 0..255
	Period  uint64 `json:"period"` // 0..2^31
	Algo    int    `json:"algo"`   // 0..2
}

func needsEscape(s string) bool {
	for _, r := range s {
		if !(r >= 'a' && r <= 'z' || r >= 'A' && r <= 'Z' || r >= '0' && r <= '9' || r == '-' || r == '_' || r == '.' || r == '~' || r == '@') {
			return true
		}
	}
	return false
}

func checkC16(c c16Case) verdict {
	p := otp.URLParam{Issuer: c.Issuer, AccountName: c.Account, Secret: c.Secret, Digits: otp.Digits(c.Digits), Period: uint(c.Period), Algorithm: otp.Algorithm(c.Algo)}
	labels := []string{"kind=" + c.Kind}
	nt := needsEscape(c.Issuer) || needsEscape(c.Account) || needsEscape(c.Secret)
	if nt {
		labels = append(labels, "needs-escaping")
	}
	var u *url.URL
	var err error
	if c.Kind == "totp" {
		u, err = otp.GenerateTOTPURL(p)
	} else {
		u, err = otp.GenerateHOTPURL(p)
	}
	// The round trip is stated for SUPPORTED code lengths (1..10, 0 meaning 6). A builder or a parser that refuses a
	// code length no generator supports holds the property; if both accept it, the numbers must still come back exactly.
	unsupported := c.Digits > 10
	if unsupported {
		labels = append(labels, "unsupported-digits")
	}
	if err != nil || u == nil {
		if unsupported {
			return ok(false, append(labels, "builder-refuses")...)
		}
		return bad(nt, labels, "Generate%sURL(%+v) failed: %v", strings.ToUpper(c.Kind), p, err)
	}
	if u.Scheme != "otpauth" || u.Host != c.Kind {
		return bad(nt, labels, "generated URL has scheme %q and type %q, want otpauth and %s", u.Scheme, u.Host, c.Kind)
	}
	text := u.String()
	u2, err := url.Parse(text)
	if err != nil {
		return bad(nt, labels, "the generated URL text %q does not parse: %v", text, err)
	}
	got, err := otp.ParseOTPAuthURL(u2)
	if err != nil || got == nil {
		if unsupported {
			return ok(false, append(labels, "parser-refuses")...)
		}
		return bad(nt, labels, "ParseOTPAuthURL(%q) failed: %v (input %+v)", text, err, p)
	}
	// what earlier parses returned stays what it was: the last 40 results are kept by pointer next to a copy of their
	// value (a parser handing out slots of a table of its own overwrites them after a while)
	for _, k := range c16Kept {
		if *k.ptr != k.val {
			was, is := k.val, *k.ptr
			c16Kept = nil
			return bad(true, labels, "a result ParseOTPAuthURL returned earlier changed after later parses: %+v -> %+v", was, is)
		}
	}
	c16Kept = append(c16Kept, c16KeptResult{got, *got})
	if len(c16Kept) > 40 {
		c16Kept = c16Kept[1:]
	}
	wantDigits := c.Digits
	if wantDigits == 0 {
		wantDigits = 6
	}
	if got.Issuer != c.Issuer || got.AccountName != c.Account || got.Secret != c.Secret {
		return bad(nt, labels, "round trip through %q changed the strings: issuer %q -> %q, account %q -> %q, secret %q -> %q", text, c.Issuer, got.Issuer, c.Account, got.AccountName, c.Secret, got.Secret)
	}
	if int(got.Digits) != wantDigits || int(got.Algorithm) != c.Algo {
		return bad(nt, labels, "round trip through %q changed digits %d -> %d or hash %d -> %d", text, wantDigits, got.Digits, c.Algo, got.Algorithm)
	}
	if c.Kind == "totp" {
		wantPeriod := c.Period
		if wantPeriod == 0 {
			wantPeriod = 30
		}
		if uint64(got.Period) != wantPeriod {
			return bad(nt, labels, "round trip through %q changed the period %d -> %d", text, wantPeriod, got.Period)
		}
	}
	if qi := u2.Query().Get("issuer"); qi != c.Issuer || qi != got.Issuer {
		return bad(nt, labels, "issuer parameter %q differs from the label issuer %q / input %q in %q", qi, got.Issuer, c.Issuer, text)
	}
	// a parse result is the caller's: it edits it (and keeps it) and parses the same text again — the second result is read
	// from the URL, not from what the caller made of the first
	want := *got
	edited := &otp.URLParam{}
	*edited = *got
	got.Issuer, got.AccountName, got.Secret, got.Digits, got.Period, got.Algorithm = "edited", "edited", "EDITED", 1, 1, otp.Algorithm((c.Algo+1)%3)
	u3, _ := url.Parse(text)
	again, err := otp.ParseOTPAuthURL(u3)
	if err != nil || again == nil || *again != want {
		c16Kept = nil
		return bad(nt, labels, "after the caller edited the first result, parsing %q again returns %+v, %v; the URL says %+v", text, again, err, want)
	}
	if again == got {
		c16Kept = nil
		return bad(nt, labels, "parsing %q twice returned the same *URLParam (%p): a result the caller may have edited", text, got)
	}
	*got = *edited // the kept-results observation above goes on with the value as parsed
	runtime.KeepAlive(got)
	return ok(nt, labels...)
}

var c16Main = newPart("C16", "roundtrip",
	"rapid: issuer (no ':'), account, secret = non-empty valid UTF-8 strings over an alphabet biased to space % / ? # & = + @ ; , \" < > \\ control and non-ASCII characters, percent-escape look-alikes (%20 %zz %), leading '/', '.' and '..'; digits 0..255, period 0..2^31, three hashes, totp/hotp; oracle (for code lengths 0..10; above 10 the builder or the parser may refuse, and if neither does the same equalities are demanded): ParseOTPAuthURL(url.Parse(Generate*URL(p).String())) returns p's issuer, account, secret, hash, digits (0 -> 6) and, for TOTP, period (0 -> 30); scheme otpauth, host = type, issuer parameter == label issuer; non-trivial = some string contains a character net/url must escape",
	checkC16)

var urlAtoms = []string{" ", "%", "/", "?", "#", "&", "=", "+", "@", ";", ",", "\"", "<", ">", "\\", "%20", "%zz", "%2F", "%3A", "..", ".", "//", "\t", "\n", "\x00", "\x7f", "é", "日本", "😀", "a", "b", "Z", "0", "~", "-", "_", "!", "*", "'", "(", ")", "[", "]", "{", "}", "|", "^", "`", "$",
	// characters with another normalised, folded or trimmed form: decomposed and compatibility characters (e + combining acute,
	// the Angstrom sign, conjoining jamo, a ligature, a full-width letter), letters whose case mapping is special, invisible ones
	"e\u0301", "\u212b", "\u1100\u1161", "\ufb01", "\uff21", "\u00c5", "I\u0307", "\u017f", "\u00df", "\u0130", "\u0131", "\u03c2", "\u200b", "\ufeff", "\u00a0", "\u2028", "\u0085"}

func drawURLString(t *rapid.T, label string, allowColon bool) string {
	var s string
	switch rapid.IntRange(0, 17).Draw(t, label+"K") {
	case 16, 17: // a token the library's own templates, format strings or splitters are written with, alone or inside other text
		tok := rapid.SampledFrom(sourceFragments()).Draw(t, label+"TF")
		if lits := sourceLiterals(); len(lits) > 0 && rapid.IntRange(0, 2).Draw(t, label+"TL") == 0 {
			tok = rapid.SampledFrom(lits).Draw(t, label+"TLit")
		}
		s = rapid.SampledFrom([]string{"", "", "x", "a ", "{"}).Draw(t, label+"TP") + tok + rapid.SampledFrom([]string{"", "", "y", " b", "}"}).Draw(t, label+"TS")
	case 15: // long
		n := rapid.IntRange(20, 120).Draw(t, label+"LN")
		var sb strings.Builder
		for i := 0; i < n; i++ {
			sb.WriteString(rapid.SampledFrom(urlAtoms).Draw(t, label+"LA"))
		}
		s = sb.String()
	case 0:
		s = rapid.SampledFrom([]string{"My Company", "Example", "alice@example.com", "100% Co", "a/b", "/lead", "..", ".", "x?y", "q#frag", "a&b=c", "Jürgen", "%41", "%", "+1", " ", "a b "}).Draw(t, label+"F")
	case 1:
		s = rapid.StringN(1, 12, 40).Draw(t, label+"U")
	default:
		n := rapid.IntRange(1, 8).Draw(t, label+"N")
		var sb strings.Builder
		for i := 0; i < n; i++ {
			sb.WriteString(rapid.SampledFrom(urlAtoms).Draw(t, label+"A"))
		}
		s = sb.String()
	}
	if allowColon && rapid.IntRange(0, 5).Draw(t, label+"Colon") == 0 {
		s += ":x"
	}
	if !allowColon {
		s = strings.ReplaceAll(s, ":", ";")
	}
	if !utf8.ValidString(s) || s == "" {
		s = "x"
	}
	return s
}

type c16KeptResult struct {
	ptr *otp.URLParam
	val otp.URLParam
}

var c16Kept []c16KeptResult

func genC16(t *rapid.T) c16Case {
	c := c16Case{Kind: rapid.SampledFrom([]string{"totp", "hotp"}).Draw(t, "kind"),
		Issuer: drawURLString(t, "iss", false), Account: drawURLString(t, "acc", true), Algo: rapid.IntRange(0, 2).Draw(t, "algo")}
	if rapid.IntRange(0, 5).Draw(t, "keySecret") == 0 {
		// a real secret: the base32 text of a key of any of gen.Key's lengths (around the hash block sizes 64 / 128 and far
		// beyond) in any spelling — the URL carries the text as given, whatever key it spells
		c.Secret = gen.Spell(gen.Key().Draw(t, "secretKey"), gen.DrawSpelling(t))
		if strings.TrimSpace(c.Secret) == "" {
			c.Secret = "AA======"
		}
	} else if rapid.Bool().Draw(t, "plainSecret") {
		c.Secret = rapid.SampledFrom([]string{"JBSWY3DPEHPK3PXP", "MFRGGZDFMZTWQ2LK====", "jbswy3dpehpk3pxp"}).Draw(t, "secretF")
	} else {
		c.Secret = drawURLString(t, "sec", true)
	}
	// relations BETWEEN the strings (independent draws essentially never produce them)
	switch rapid.IntRange(0, 11).Draw(t, "relation") {
	case 0:
		c.Account = c.Issuer + ":" + c.Account // account qualified with its own issuer
	case 1:
		c.Account = c.Issuer + ":"
	case 2:
		c.Account = c.Issuer
	case 3:
		c.Secret = c.Issuer
	case 4:
		c.Account = c.Account + ":" + c.Issuer
	case 5:
		c.Secret = c.Account
	case 6:
		c.Account = "issuer=" + c.Issuer + "&secret=" + c.Secret // looks like the query part
	case 7:
		c.Issuer = "totp/" + c.Issuer // looks like type + label
	}
	if rapid.Bool().Draw(t, "digitsK") {
		c.Digits = rapid.SampledFrom([]int{0, 6, 8, 10, 255, 1}).Draw(t, "digitsB")
	} else {
		c.Digits = rapid.IntRange(0, 255).Draw(t, "digits")
	}
	if rapid.Bool().Draw(t, "periodK") {
		c.Period = rapid.SampledFrom([]uint64{0, 1, 30, 60, 1 << 31}).Draw(t, "periodB")
	} else {
		c.Period = rapid.Uint64Range(0, 1<<31).Draw(t, "period")
	}
	return c
}

func TestC16_RoundTrip(t *testing.T) {
	c16Main.rapid(t, ev.Pick(40_000, 600_000), genC16)
}

// parse-only clause: numbers are returned as written or the URL is refused.
type c16ParseCase struct {
	Type   string `json:"type"`   // host spelling
	Digits string `json:"digits"` // text of the digits parameter ("" = absent)
	Period string `json:"period"`
}

var intRe = regexp.MustCompile(`^[+-]?[0-9]+$`)

func checkC16Parse(c c16ParseCase) verdict {
	q := url.Values{}
	q.Set("secret", "JBSWY3DPEHPK3PXP")
	if c.Digits != "" {
		q.Set("digits", c.Digits)
	}
	if c.Period != "" {
		q.Set("period", c.Period)
	}
	text := "otpauth://" + c.Type + "/Iss:acc?" + q.Encode()
	u, err := url.Parse(text)
	if err != nil {
		return ok(false, "unparsable")
	}
	got, err := otp.ParseOTPAuthURL(u)
	labels := []string{fmt.Sprintf("accepted=%v", err == nil)}
	if err != nil {
		return ok(true, labels...)
	}
	check := func(name, text string, val uint64, dflt uint64, max *big.Int) string {
		if text == "" {
			if val != dflt {
				return fmt.Sprintf("%s absent but parsed as %d (default %d)", name, val, dflt)
			}
			return ""
		}
		// blanks around the digits (a '+' in a query decodes to a blank) do not change which number is written: such a
		// URL may be refused or read as that number
		text = strings.Trim(text, " \t")
		if !intRe.MatchString(text) {
			return fmt.Sprintf("%s=%q is not a number but the URL was accepted (value %d)", name, text, val)
		}
		w, _ := new(big.Int).SetString(text, 10)
		if w.Sign() < 0 || w.Cmp(max) > 0 || w.Uint64() != val {
			return fmt.Sprintf("%s=%s was parsed as %d", name, text, val)
		}
		return ""
	}
	if e := check("digits", c.Digits, uint64(got.Digits), 6, big.NewInt(255)); e != "" {
		return bad(true, labels, "ParseOTPAuthURL(%q): %s", text, e)
	}
	if e := check("period", c.Period, uint64(got.Period), 30, new(big.Int).SetUint64(^uint64(0))); e != "" {
		return bad(true, labels, "ParseOTPAuthURL(%q): %s", text, e)
	}
	return ok(true, labels...)
}

var c16Parse = newPart("C16", "parse-numbers",
	"rapid: hand-written otpauth URLs with type in any letter case and digits / period parameter text from {absent, boundary integers around 0, 255, 256, 2^31, 2^32, 2^63, 2^64 with either sign, leading zeros, '+' sign, random integers in -2^63..2^63, non-numeric text (6x, 0x10, 1e3, six, ' 6', '6 ', 6.0, empty-looking)}; oracle: the call fails, or digits and period equal the written numbers exactly (digits within 0..255, period >= 0; blanks around the digits do not change the number written), absent => 6 / 30; other non-numeric text must be refused; every case non-trivial",
	checkC16Parse)

var numTexts = []string{"", "0", "1", "6", "8", "10", "255", "256", "257", "262", "511", "512", "65536", "-1", "-6", "-250", "-256", "2147483647", "2147483648", "4294967295", "4294967296", "4294967302",
	"9223372036854775807", "9223372036854775808", "-9223372036854775808", "18446744073709551615", "18446744073709551616", "18446744073709551622", "99999999999999999999999", "006", "+6", "+30", "-0",
	"6x", "x6", "0x10", "1e3", "six", " 6", "6 ", "6.0", "٦", "６"}

func TestC16_ParseNumbers(t *testing.T) {
	c16Parse.rapid(t, ev.Pick(20_000, 300_000), func(t *rapid.T) c16ParseCase {
		num := func(label string) string {
			if rapid.IntRange(0, 3).Draw(t, label+"K") == 0 {
				return fmt.Sprint(rapid.Int64().Draw(t, label+"R"))
			}
			return rapid.SampledFrom(numTexts).Draw(t, label)
		}
		return c16ParseCase{Type: rapid.SampledFrom([]string{"totp", "hotp", "TOTP", "HOTP", "Totp", "hOtP"}).Draw(t, "type"), Digits: num("digits"), Period: num("period")}
	})
}
