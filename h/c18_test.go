package verifh

import (
	"bufio"
	"bytes"
	"encoding/base32"
	"encoding/hex"
	"encoding/json"
	"fmt"
	"io"
	"net"
	"net/http"
	"net/url"
	"os"
	"sort"
	"strings"
	"sync"
	"testing"
	"time"

	otp "github.com/ja7ad/otp"
	"pgregory.net/rapid"

	"verifh/ev"
	"verifh/gen"
	"verifh/ref"
)

// ---------------------------------------------------------------------------
// C18 — the REST service returns exactly the library's result for the request's fields.

type restStep struct {
	Ep      string       `json:"ep"` // totp-gen totp-val hotp-gen hotp-val ocra-gen ocra-val suites suite url secret chain-totp chain-hotp chain-ocra totp-val-now
	Key     []byte       `json:"key,omitempty"`
	Sp      gen.Spelling `json:"spelling"`
	HasTS   bool         `json:"has_ts,omitempty"`
	TS      int64        `json:"ts,omitempty"`
	HasCtr  bool         `json:"has_ctr,omitempty"`
	Ctr     uint64       `json:"ctr,omitempty"`
	HasDig  bool         `json:"has_dig,omitempty"`
	Dig     string       `json:"dig,omitempty"`
	HasAlg  bool         `json:"has_alg,omitempty"`
	Alg     string       `json:"alg,omitempty"`
	HasPer  bool         `json:"has_per,omitempty"`
	Per     uint64       `json:"per,omitempty"`
	HasSkew bool         `json:"has_skew,omitempty"`
	Skew    uint64       `json:"skew,omitempty"`
	Dist    int          `json:"dist,omitempty"`
	Mut     int          `json:"mut,omitempty"`        // 0 none, 1 digit edit, 2 truncate, 3 extend, 4.. look-alikes (see mutate)
	SibDig  int          `json:"sib_digits,omitempty"` // != 0: submit the genuine code of the counter under THIS code length instead
	RawName string       `json:"raw_name,omitempty"`
	Cfg     ref.OCRACfg  `json:"cfg"`
	HashStr string       `json:"hash_str,omitempty"` // spelling of suite.hash_function
	In      ref.OCRAIn   `json:"in"`
	Type    string       `json:"type,omitempty"`
	Issuer  string       `json:"issuer,omitempty"`
	Account string       `json:"account,omitempty"`
	Fresh   bool         `json:"fresh,omitempty"`
	HV      int          `json:"http_variant,omitempty"` // index into httpVariants: how the POST travels
}

type c18Case struct {
	Steps []restStep `json:"steps"`
	Conc  int        `json:"conc"` // number of concurrent clients the steps are dealt to
}

func (s restStep) body(extra map[string]any) []byte {
	m := map[string]any{}
	if s.Key != nil {
		m["secret"] = gen.Spell(s.Key, s.Sp)
	}
	if s.HasTS {
		m["timestamp"] = s.TS
	}
	if s.HasCtr {
		m["counter"] = s.Ctr
	}
	if s.HasDig {
		m["digits"] = s.Dig
	}
	if s.HasAlg {
		m["algorithm"] = s.Alg
	}
	if s.HasPer {
		m["period"] = s.Per
	}
	if s.HasSkew {
		m["skew"] = s.Skew
	}
	for k, v := range extra {
		m[k] = v
	}
	b, _ := json.Marshal(m)
	return b
}

func (s restStep) eff() (digits, algo int, period, skew uint64) {
	digits, algo = 6, 0
	if s.HasDig {
		digits = digitsFromSpelling(s.Dig)
	}
	if s.HasAlg {
		algo = algoFromSpelling(s.Alg)
	}
	period = 30
	if s.HasPer && s.Per != 0 {
		period = s.Per
	}
	if s.HasSkew {
		skew = s.Skew
	}
	return
}

func mutate(code string, mut int) string {
	b := []byte(code)
	switch mut {
	case 1:
		b[len(b)-1] = '0' + (b[len(b)-1]-'0'+3)%10
		return string(b)
	case 2:
		return code[:len(code)-1]
	case 3:
		return code + "0"
	case 4: // same length, numerically equal for a lenient number parser: a sign or blank in place of the first digit if it is 0, else of nothing
		if b[0] == '0' {
			b[0] = '+'
			return string(b)
		}
		return "+" + code[1:]
	case 5:
		if b[0] == '0' {
			b[0] = ' '
			return string(b)
		}
		return code[:len(code)-1] + " "
	case 6: // numeric alias: code + 2^32 at the same width when it fits, else the first digit changed
		var v uint64
		lim := uint64(1)
		for _, c := range b {
			v = v*10 + uint64(c-'0')
			lim *= 10
		}
		if v+1<<32 < lim {
			return fmt.Sprintf("%0*d", len(b), v+1<<32)
		}
		b[0] = '0' + (b[0]-'0'+1)%10
		return string(b)
	case 7: // full-width digits
		var sb strings.Builder
		for _, c := range b {
			sb.WriteRune(rune(0xFF10 + int(c-'0')))
		}
		return sb.String()
	case 10: // same length: the last digit replaced by the letter people mistake it for
		b[len(b)-1] = "OlZEASGTBg"[b[len(b)-1]-'0']
		return string(b)
	case 11: // the code as people type it: two groups separated by a blank
		return code[:len(code)/2] + " " + code[len(code)/2:]
	case 9: // same byte length: the first two bytes are one two-byte character whose code point ends in the first digit
		if len(b) >= 2 {
			return string(rune(0x100+int(b[0]))) + code[2:]
		}
	}
	return code
}

// straddle returns the tail of one code followed by the head of the next (k characters moved): a string of the right
// length that occurs in the two codes written one after the other but is neither.
func straddle(c0, c1 string, n uint64) string {
	if len(c0) < 2 || len(c0) != len(c1) {
		return c0
	}
	k := 1 + int(n%uint64(len(c0)-1))
	return c0[k:] + c1[:k]
}

func (s restStep) ocraBody(code *string) ([]byte, ref.OCRACfg, bool) {
	m := map[string]any{"secret": gen.Spell(s.Key, gen.Spelling{Pad: s.Sp.Pad % 2, Case: s.Sp.Case})}
	var cfg ref.OCRACfg
	usable := true
	if s.RawName != "" {
		m["raw_suite"] = s.RawName
		rd, _ := ref.ReadSuite(s.RawName, true)
		cfg = rd.Cfg
	} else {
		cfg = s.Cfg
		cfg.Raw = ""
		cfg.Hash = algoFromSpelling(s.HashStr)
		m["suite"] = map[string]any{"hash_function": s.HashStr, "code_digits": cfg.Digits, "challenge_format": cfg.QFormat, "include_counter": cfg.C, "include_challenge": cfg.Q,
			"include_password": cfg.P, "include_session": cfg.S, "include_timestamp": cfg.T, "password_hash": cfg.PHash, "timestep": cfg.TimeStep}
		usable = ref.SuiteUsable(cfg)
	}
	in := map[string]any{}
	put := func(k string, b []byte) {
		if len(b) > 0 {
			in[k] = hex.EncodeToString(b)
		}
	}
	put("counter_hex", s.In.C)
	put("challenge_hex", s.In.Q)
	put("password_hex", s.In.P)
	put("session_info_hex", s.In.S)
	put("timestamp_hex", s.In.T)
	m["input"] = in
	if code != nil {
		m["code"] = *code
	}
	b, _ := json.Marshal(m)
	return b, cfg, usable
}

// norm maps empty slices to nil as the hex transport does.
func norm(in ref.OCRAIn) ref.OCRAIn {
	z := func(b []byte) []byte {
		if len(b) == 0 {
			return nil
		}
		return b
	}
	return ref.OCRAIn{C: z(in.C), Q: z(in.Q), P: z(in.P), S: z(in.S), T: z(in.T)}
}

func runRestStep(sv *restServer, s restStep) (labels []string, nt bool, err error) {
	labels = []string{"ep=" + s.Ep}
	// A digits / algorithm spelling outside the canonical ones ("6", "8", "9", "10"; "SHA1", "SHA256", "SHA512") makes it
	// doubtful that the request is "well-formed": a service may resolve it through the library's helpers (what the tree does:
	// the fallback to 6 / SHA-1) or refuse it with a failure status. Both are accepted; a wrong SUCCESS answer is not.
	noncanon := (s.HasDig && !canonicalSpelling(s.Dig, "6", "8", "9", "10")) || (s.HasAlg && !canonicalSpelling(s.Alg, "SHA1", "SHA256", "SHA512")) ||
		(s.HashStr != "" && !canonicalSpelling(s.HashStr, "SHA1", "SHA256", "SHA512"))
	refused := false
	fail := func(f string, a ...any) ([]string, bool, error) {
		if noncanon && refused {
			return append(labels, "noncanonical-spelling-refused"), false, nil
		}
		return labels, true, fmt.Errorf(f, a...)
	}
	nondefault := s.HasDig || s.HasAlg || s.HasPer || s.HasSkew || !s.Sp.Canonical()
	post := func(path string, body []byte) httpResult {
		r := sv.doV(path, body, s.Fresh, 15*time.Second, s.HV)
		if r.Err == nil && r.Status >= 400 {
			refused = true
		}
		return r
	}
	if s.HV != 0 {
		labels = append(labels, "http="+httpVariants[s.HV%len(httpVariants)])
	}
	switch s.Ep {
	case "totp-gen", "chain-totp":
		d, a, p, _ := s.eff()
		before := time.Now().Unix()
		r := post("/totp/generate", s.body(nil))
		if r.Err != nil || r.Status != 200 || r.JSON == nil {
			return fail("POST /totp/generate %s -> %s", s.body(nil), r.brief())
		}
		ts := s.TS
		// The echoed timestamp is not something the statement demands; but if the answer names an instant, it must be the
		// one the code is for (the request's, or the current time when the request has none).
		n, echoed := r.JSON["timestamp"].(json.Number)
		if !s.HasTS || s.TS <= 0 {
			labels = append(labels, "server-time")
			if echoed {
				ts, _ = n.Int64()
				// "the current time" is a second between the moment the request left and the moment the answer arrived (same
				// clock: the server runs on this machine), whatever the load — not the time the connection was opened
				if after := time.Now().Unix(); ts < before-2 || ts > after+2 {
					return fail("POST /totp/generate without timestamp echoed timestamp %d, not the current time: the request was in flight from %d to %d", ts, before, after)
				}
			} else {
				// no instant in the answer: the code must be the RFC value for some second while the request was in flight
				ts = before
				for x := before; x <= time.Now().Unix(); x++ {
					if ref.MustHOTP(s.Key, uint64(x)/p, d, a) == r.str("code") {
						ts = x
					}
				}
			}
		} else if echoed && n.String() != fmt.Sprint(ts) {
			return fail("POST /totp/generate %s echoed timestamp %s", s.body(nil), n)
		}
		want := ref.MustHOTP(s.Key, uint64(ts)/p, d, a)
		if r.str("code") != want {
			return fail("POST /totp/generate %s -> code %q; RFC value for (t=%d, period=%d, digits=%d, hash=%d) is %q", s.body(nil), r.str("code"), ts, p, d, a, want)
		}
		if s.Ep == "chain-totp" {
			v := s
			v.HasTS, v.TS = true, ts
			body := v.body(map[string]any{"code": r.str("code")})
			r2 := post("/totp/validate", body)
			if r2.Status != 200 || r2.JSON["valid"] != true {
				return fail("code generated by /totp/generate is rejected by /totp/validate: %s -> %s", body, r2.brief())
			}
			return labels, true, nil
		}
		return labels, nondefault, nil
	case "hotp-gen", "chain-hotp":
		d, a, _, _ := s.eff()
		r := post("/hotp/generate", s.body(nil))
		if r.Err != nil || r.Status != 200 || r.JSON == nil {
			return fail("POST /hotp/generate %s -> %s", s.body(nil), r.brief())
		}
		var ctr uint64
		if s.HasCtr {
			ctr = s.Ctr
		}
		want := ref.MustHOTP(s.Key, ctr, d, a)
		if r.str("code") != want {
			return fail("POST /hotp/generate %s -> code %q; RFC value for (counter=%d, digits=%d, hash=%d) is %q", s.body(nil), r.str("code"), ctr, d, a, want)
		}
		if n, okk := r.JSON["counter"].(json.Number); okk && n.String() != fmt.Sprint(ctr) { // an echoed counter must be the request's
			return fail("POST /hotp/generate %s echoed counter %v", s.body(nil), r.JSON["counter"])
		}
		if s.Ep == "chain-hotp" {
			body := s.body(map[string]any{"code": r.str("code")})
			r2 := post("/hotp/validate", body)
			if r2.Status != 200 || r2.JSON["valid"] != true {
				return fail("code generated by /hotp/generate is rejected by /hotp/validate: %s -> %s", body, r2.brief())
			}
			return labels, true, nil
		}
		return labels, nondefault, nil
	case "hotp-val", "totp-val":
		d, a, p, skew := s.eff()
		var centre uint64
		path := "/hotp/validate"
		if s.Ep == "hotp-val" {
			if s.HasCtr {
				centre = s.Ctr
			}
		} else {
			centre = uint64(s.TS) / p
			path = "/totp/validate"
		}
		code := mutate(ref.MustHOTP(s.Key, centre+uint64(int64(s.Dist)), d, a), s.Mut)
		if s.Mut == 8 {
			code = straddle(ref.MustHOTP(s.Key, centre+uint64(int64(s.Dist)), d, a), ref.MustHOTP(s.Key, centre+uint64(int64(s.Dist))+1, d, a), centre)
		}
		if s.SibDig != 0 && s.SibDig != d {
			code = ref.MustHOTP(s.Key, centre+uint64(int64(s.Dist)), s.SibDig, a)
			labels = append(labels, "sibling-digits")
		}
		body := s.body(map[string]any{"code": code})
		r := post(path, body)
		want := false
		if skew <= 10 {
			_, want = windowSet(s.Key, centre, skew, d, a)[code]
		}
		// The verdict is what the statement pins down: an accepted code needs 200 with valid=true; a rejection may be
		// 200 with valid=false (what the tree does) or a complete failure answer (status >= 400) — not a lost request.
		if r.Err != nil || (r.Status == 200 && r.JSON == nil) || (r.Status != 200 && (want || r.Status < 400)) {
			return fail("POST %s %s -> %s", path, body, r.brief())
		}
		// the library called directly with the same parameters
		par := &otp.Param{Digits: otp.Digits(d), Algorithm: otp.Algorithm(a), Skew: uint(skew)}
		var lib bool
		if s.Ep == "hotp-val" {
			lib, _ = otp.ValidateHOTP(gen.Spell(s.Key, s.Sp), code, centre, par)
		} else {
			par.Period = uint(p)
			lib, _ = otp.ValidateTOTP(gen.Spell(s.Key, s.Sp), code, time.Unix(s.TS, 0), par)
		}
		got, _ := r.JSON["valid"].(bool)
		// where the window would reach below step / counter 0 or the period is astronomically large, the independent window
		// set is not defined (C03 / C04 leave that corner open); the service must still give the LIBRARY's verdict
		corner := centre < skew || p > 1<<32
		if corner {
			labels = append(labels, "corner-library-only")
			want = lib
		}
		if got != want || got != lib {
			return fail("POST %s %s -> valid=%v; reference window membership is %v, the library called directly says %v (centre %d, distance %d, skew %d, digits %d, hash %d)", path, body, got, want, lib, centre, s.Dist, skew, d, a)
		}
		labels = append(labels, fmt.Sprintf("valid=%v", got))
		return labels, nondefault || s.Dist != 0 || s.Mut != 0, nil
	case "totp-val-now":
		// no timestamp: the server's clock decides; an hour-long period with skew 1 keeps the verdict independent of it
		d, a, _, _ := s.eff()
		now := uint64(time.Now().Unix())
		code := ref.MustHOTP(s.Key, now/3600, d, a)
		v := s
		v.HasTS, v.HasPer, v.Per, v.HasSkew, v.Skew = false, true, 3600, true, 1
		body := v.body(map[string]any{"code": code})
		r := post("/totp/validate", body)
		if r.Status != 200 || r.JSON["valid"] != true {
			return fail("POST /totp/validate without timestamp rejects the code of the current hour: %s -> %s", body, r.brief())
		}
		// ... and the omitted skew means 0: right after a step has begun the code of the step that has just ended is no longer
		// valid (a period is picked in which the current step began at most a second ago; the code of the step before it
		// is a wrong code under skew 0 whichever of the next seconds the server reads)
		for try := 0; try < 3; try++ {
			now = uint64(time.Now().Unix())
			var per uint64
			for p := uint64(3599); p >= 11; p-- {
				if now%p <= 1 && now/p >= 2 {
					per = p
					break
				}
			}
			if per == 0 {
				break
			}
			prev := ref.MustHOTP(s.Key, now/per-1, d, a)
			if prev == ref.MustHOTP(s.Key, now/per, d, a) || prev == ref.MustHOTP(s.Key, now/per+1, d, a) {
				continue
			}
			w := s
			w.HasTS, w.HasPer, w.Per, w.HasSkew = false, true, per, false
			body = w.body(map[string]any{"code": prev})
			t0 := time.Now()
			r = post("/totp/validate", body)
			if time.Since(t0) > 5*time.Second || uint64(time.Now().Unix())/per != now/per {
				continue // the answer took so long that the step may have changed: try another period
			}
			if v, _ := r.JSON["valid"].(bool); r.Status == 200 && v {
				return fail("POST /totp/validate without timestamp and without skew accepts the code of the step that ended %d s ago (period %d): %s -> %s; the library's verdict for skew 0 is false", now%per, per, body, r.brief())
			}
			labels = append(labels, "just-after-a-step-began")
			break
		}
		return labels, true, nil
	case "chain-ocra-both":
		// raw_suite AND a structured suite in one request: which one wins is not specified, but the code
		// /ocra/generate returns must validate at /ocra/validate for the very same request data
		both := func(code *string) []byte {
			var m map[string]any
			b, _, _ := s.ocraBody(code)
			json.Unmarshal(b, &m)
			m["raw_suite"] = s.RawName
			c2 := s.Cfg
			m["suite"] = map[string]any{"hash_function": s.HashStr, "code_digits": c2.Digits, "challenge_format": c2.QFormat, "include_counter": c2.C, "include_challenge": c2.Q,
				"include_password": c2.P, "include_session": c2.S, "include_timestamp": c2.T, "password_hash": c2.PHash, "timestep": c2.TimeStep}
			out, _ := json.Marshal(m)
			return out
		}
		b1 := both(nil)
		r := post("/ocra/generate", b1)
		if r.Err != nil {
			return fail("POST /ocra/generate %s -> %s", b1, r.brief())
		}
		if r.Status != 200 {
			return append(labels, "refused"), true, nil
		}
		code := r.str("code")
		b2 := both(&code)
		r2 := post("/ocra/validate", b2)
		if r2.Status != 200 || r2.JSON["valid"] != true {
			return fail("code %q generated by /ocra/generate for a request with raw_suite and suite is rejected by /ocra/validate for the same data: %s -> %s", code, b2, r2.brief())
		}
		return labels, true, nil
	case "ocra-gen", "ocra-val", "chain-ocra":
		body, cfg, usable := s.ocraBody(nil)
		in := norm(s.In)
		want, rerr := ref.OCRA(s.Key, cfg, in)
		expectOK := usable && rerr == nil
		if s.Ep == "ocra-val" {
			code := "000000"
			if expectOK {
				code = mutate(want, s.Mut)
			}
			body, _, _ = s.ocraBody(&code)
			r := post("/ocra/validate", body)
			if r.Err != nil || (r.Status == 200 && r.JSON == nil) {
				return fail("POST /ocra/validate %s -> %s", body, r.brief())
			}
			got, _ := r.JSON["valid"].(bool)
			got = got && r.Status == 200
			// a rejection is 200 with valid=false or a complete failure answer (status >= 400); acceptance is 200 with valid=true
			rejected := (r.Status == 200 && !got) || r.Status >= 400
			if !usable {
				if !rejected {
					return fail("POST /ocra/validate with an unusable suite %s -> %s", body, r.brief())
				}
				return append(labels, "unusable-suite"), true, nil
			}
			wantValid := expectOK && s.Mut == 0
			if (wantValid && !got) || (!wantValid && !rejected) {
				return fail("POST /ocra/validate %s -> %s; want valid=%v (RFC value %q)", body, r.brief(), wantValid, want)
			}
			return append(labels, fmt.Sprintf("valid=%v", got)), true, nil
		}
		r := post("/ocra/generate", body)
		if r.Err != nil {
			return fail("POST /ocra/generate %s -> %s", body, r.brief())
		}
		if !expectOK {
			if r.Status < 400 {
				return fail("POST /ocra/generate %s -> %s; the library refuses these parameters", body, r.brief())
			}
			return append(labels, "refused"), true, nil
		}
		if r.Status != 200 || r.str("code") != want {
			return fail("POST /ocra/generate %s -> %s; RFC 6287 value is %q", body, r.brief(), want)
		}
		if _, echoed := r.JSON["suite"]; echoed && r.str("suite") != cfg.Raw { // an echoed suite name must be the request's
			return fail("POST /ocra/generate %s reports suite %q, want %q", body, r.str("suite"), cfg.Raw)
		}
		if s.Ep == "chain-ocra" {
			code := r.str("code")
			b2, _, _ := s.ocraBody(&code)
			r2 := post("/ocra/validate", b2)
			if r2.Status != 200 || r2.JSON["valid"] != true {
				return fail("code generated by /ocra/generate is rejected by /ocra/validate: %s -> %s", b2, r2.brief())
			}
		}
		return labels, true, nil
	case "suites":
		r := sv.do("GET", "/ocra/suites", nil, s.Fresh, 15*time.Second)
		if r.Status != 200 || r.JSON == nil {
			return fail("GET /ocra/suites -> %s", r.brief())
		}
		var got []string
		if arr, okk := r.JSON["suites"].([]any); okk {
			for _, x := range arr {
				got = append(got, fmt.Sprint(x))
			}
		}
		sort.Strings(got)
		want := append([]string(nil), otp.ListSuites()...)
		sort.Strings(want)
		if strings.Join(got, "|") != strings.Join(want, "|") {
			return fail("GET /ocra/suites lists %d names, the library's registry has %d: %v vs %v", len(got), len(want), got, want)
		}
		return labels, false, nil
	case "suite":
		body, _ := json.Marshal(map[string]any{"raw_suite": s.RawName})
		r := post("/ocra/suite", body)
		if r.Status != 200 || r.JSON == nil {
			return fail("POST /ocra/suite %s -> %s", body, r.brief())
		}
		rd, _ := ref.ReadSuite(s.RawName, true)
		cfgj, _ := r.JSON["config"].(map[string]any)
		num := func(k string) int {
			n, _ := cfgj[k].(json.Number)
			v, _ := n.Int64()
			return int(v)
		}
		b := func(k string) bool { v, _ := cfgj[k].(bool); return v }
		got := otp.SuiteConfig{Hash: otp.Algorithm(algoFromSpelling(fmt.Sprint(cfgj["hash_function"]))), Digits: num("code_digits"), Challenge: otp.ChallengeFormat(num("challenge_format")),
			IncludeCounter: b("include_counter"), IncludeChallenge: b("include_challenge"), IncludePassword: b("include_password"), IncludeSession: b("include_session"), IncludeTimestamp: b("include_timestamp"),
			PasswordHash: otp.PasswordHashAlgorithm(num("password_hash")), TimeStep: num("timestep")}
		if fmt.Sprint(cfgj["hash_function"]) != []string{"SHA1", "SHA256", "SHA512"}[rd.Cfg.Hash] {
			return fail("POST /ocra/suite %s: hash_function %v, the name says %d", body, cfgj["hash_function"], rd.Cfg.Hash)
		}
		_, rawEchoed := r.JSON["raw"]
		if d := sameCfg(got, rd); d != "" || (rawEchoed && r.str("raw") != s.RawName) {
			return fail("POST /ocra/suite %s -> %s: configuration has %s", body, r.brief(), d)
		}
		return labels, true, nil
	case "url":
		urlSecret := gen.Spell(s.Key, gen.Spelling{Pad: s.Sp.Pad, PadN: s.Sp.PadN, Case: s.Sp.Case, Mask: s.Sp.Mask}) // as given: padded or not, any letter case
		m := map[string]any{"type": s.Type, "secret": urlSecret, "issuer": s.Issuer, "account_name": s.Account}
		if s.HasPer {
			m["period"] = s.Per
		}
		if s.HasDig {
			m["digits"] = s.Dig
		}
		if s.HasAlg {
			m["algorithm"] = s.Alg
		}
		body, _ := json.Marshal(m)
		r := post("/otp/url", body)
		d, a, _, _ := s.eff()
		if !s.HasDig {
			d = 6
		}
		up := otp.URLParam{Issuer: s.Issuer, AccountName: s.Account, Secret: urlSecret, Digits: otp.Digits(d), Algorithm: otp.Algorithm(a)}
		if s.HasPer {
			up.Period = uint(s.Per)
		}
		var u *url.URL
		var lerr error
		if s.Type == "totp" {
			u, lerr = otp.GenerateTOTPURL(up)
		} else {
			u, lerr = otp.GenerateHOTPURL(up)
		}
		if lerr != nil {
			return fail("HARNESS: library refused %+v: %v", up, lerr)
		}
		if r.Status != 200 || r.str("url") != u.String() {
			return fail("POST /otp/url %s -> %s; the library's URL builder gives %q", body, r.brief(), u.String())
		}
		pu, perr := url.Parse(r.str("url"))
		if perr != nil {
			return fail("POST /otp/url returned an unparsable URL %q", r.str("url"))
		}
		back, perr := otp.ParseOTPAuthURL(pu)
		if perr != nil || back.Issuer != s.Issuer || back.AccountName != s.Account || int(back.Digits) != d || int(back.Algorithm) != a {
			return fail("POST /otp/url %s -> %q does not parse back to the request: %+v, %v", body, r.str("url"), back, perr)
		}
		return labels, true, nil
	case "secret":
		path := "/otp/secret"
		if s.HasAlg {
			path += "?algorithm=" + url.QueryEscape(s.Alg)
		}
		a := 0
		if s.HasAlg {
			a = algoFromSpelling(s.Alg)
		}
		r1 := sv.do("GET", path, nil, s.Fresh, 15*time.Second)
		r2 := sv.do("GET", path, nil, s.Fresh, 15*time.Second)
		refused = r1.Err == nil && r1.Status >= 400 && r2.Err == nil && r2.Status >= 400
		for _, r := range []httpResult{r1, r2} {
			if r.Status != 200 || r.JSON == nil {
				return fail("GET %s -> %s", path, r.brief())
			}
			sec := r.str("secret")
			raw, okk := ref.B32DecodeLoose(sec)
			if !okk || len(raw) != []int{20, 32, 64}[a] || ref.B32(raw) != sec {
				return fail("GET %s -> secret %q is not unpadded upper-case base32 of %d bytes", path, sec, []int{20, 32, 64}[a])
			}
			if _, echoed := r.JSON["algorithm"]; echoed && r.str("algorithm") != []string{"SHA1", "SHA256", "SHA512"}[a] {
				return fail("GET %s echoes algorithm %q, want %s", path, r.str("algorithm"), []string{"SHA1", "SHA256", "SHA512"}[a])
			}
		}
		if r1.str("secret") == r2.str("secret") {
			return fail("GET %s returned the same secret twice: %q", path, r1.str("secret"))
		}
		return labels, s.HasAlg, nil
	}
	return fail("HARNESS: unknown endpoint %s", s.Ep)
}

func canonicalSpelling(s string, ok ...string) bool {
	for _, o := range ok {
		if s == o {
			return true
		}
	}
	return false
}

func checkC18(c c18Case) verdict {
	sv := server()
	var mu sync.Mutex
	var labels []string
	var firstErr error
	nt := false
	conc := c.Conc
	if conc < 1 {
		conc = 1
	}
	var wg sync.WaitGroup
	for w := 0; w < conc; w++ {
		wg.Add(1)
		go func(w int) {
			defer wg.Done()
			for i := w; i < len(c.Steps); i += conc {
				l, n, err := runRestStep(sv, c.Steps[i])
				mu.Lock()
				labels = append(labels, l...)
				nt = nt || n
				if err != nil && firstErr == nil {
					firstErr = fmt.Errorf("step %d: %w", i, err)
				}
				mu.Unlock()
				if err != nil {
					return
				}
			}
		}(w)
	}
	wg.Wait()
	if conc > 1 {
		labels = append(labels, "concurrent")
	}
	if firstErr == nil && !sv.alive() {
		firstErr = fmt.Errorf("the server process died: %s", tailStr(sv.stderr.String(), 600))
	}
	if firstErr == nil && sv.stderr.alarm() {
		firstErr = fmt.Errorf("the server reports an unrecovered panic, a fatal error or a data race: %s", trunc(sv.stderr.String(), 1500))
	}
	if firstErr != nil {
		return verdict{NT: true, Labels: labels, Err: firstErr}
	}
	return ok(nt, labels...)
}

func tailStr(s string, n int) string {
	if len(s) > n {
		return s[len(s)-n:]
	}
	return s
}

var c18Main = newPart("C18", "endpoints",
	"rapid: sequences of 1..12 requests (in half of them all under the same one or two secrets; one sequence in five is a burst of 3..10 rejected validations under one secret followed by accepted ones) over all ten endpoints dealt to 1..8 concurrent clients on reused or fresh connections, a third of the POSTs in one of nine HTTP-level variants of the same request (chunked body, Content-Type with a charset or absent, an extra query string, Expect: 100-continue, lower-case header names on a raw socket, Accept-Encoding: gzip, a pipelined pair of identical requests, HTTP/1.0), against the REAL server binary built from the working tree on loopback; each JSON field independently present/absent, digits/algorithm spellings incl. unknown ones (resolved by the library's helpers — today the fallback to 6 / SHA1 — or refused with a failure status), secrets in any base32 spelling incl. surrounding blanks, raw (registered) or structured suites, OCRA inputs admissible or not, validation codes at window distances -(s+2)..+(s+2) and edited, generate->validate chains, timestamp omitted (server clock); oracle: the independent RFC references for exactly the request's parameters under the documented mapping, the library called directly in the harness process (verdicts, URL builder, registry), and the suite-name reader; non-trivial = a request with a non-default field, a chain, a distance != 0 or an edited code",
	checkC18)

func drawRestStep(t *rapid.T) restStep {
	s := restStep{Ep: rapid.SampledFrom([]string{"totp-gen", "totp-gen", "totp-val", "totp-val", "hotp-gen", "hotp-gen", "hotp-val", "hotp-val", "ocra-gen", "ocra-gen", "ocra-val", "ocra-val",
		"suites", "suite", "url", "secret", "chain-totp", "chain-hotp", "chain-ocra", "totp-val-now", "chain-ocra-both"}).Draw(t, "ep")}
	s.Key = rapid.SliceOfN(rapid.Byte(), 1, 70).Draw(t, "key")
	if rapid.IntRange(0, 3).Draw(t, "keyOfKinds") == 0 {
		// the shared key generator: lengths around the hash block sizes, constant fills, key bytes that are themselves
		// encoded text, keys whose base32 text reads as hex
		if k := gen.Key().Draw(t, "keyK"); len(k) > 0 {
			s.Key = k
		}
	}
	s.Sp = gen.DrawSpelling(t)
	s.Fresh = rapid.IntRange(0, 5).Draw(t, "fresh") == 0
	if rapid.IntRange(0, 2).Draw(t, "httpVariantQ") == 0 {
		s.HV = rapid.IntRange(1, len(httpVariants)-1).Draw(t, "httpVariant")
	}
	s.HasDig = rapid.Bool().Draw(t, "hasDig")
	s.Dig = rapid.SampledFrom(digitSpellings).Draw(t, "dig")
	s.HasAlg = rapid.Bool().Draw(t, "hasAlg")
	s.Alg = rapid.SampledFrom(algoSpellings).Draw(t, "alg")
	// unknown spellings that a table of hashed option words would take for known ones (stored preimages): they mean what any
	// unknown spelling means
	switch rapid.IntRange(0, 15).Draw(t, "preimageQ") {
	case 0:
		s.Dig = rapid.SampledFrom(spellingsLike("8", "9", "10")).Draw(t, "digPre")
	case 1:
		s.Alg = rapid.SampledFrom(spellingsLike("SHA256", "SHA512")).Draw(t, "algPre")
	}
	s.HasPer = rapid.Bool().Draw(t, "hasPer")
	s.Per = rapid.SampledFrom([]uint64{0, 1, 29, 30, 60, 3600, 1 << 32}).Draw(t, "per")
	s.HasSkew = rapid.Bool().Draw(t, "hasSkew")
	s.Skew = rapid.SampledFrom([]uint64{0, 1, 2, 3, 10, 10, 11, 100}).Draw(t, "skew")
	if rapid.IntRange(0, 7).Draw(t, "skewRefused") == 0 {
		s.Skew = gen.RefusedSkew(t)
	}
	_, _, p, skew := s.eff()
	switch s.Ep {
	case "totp-gen", "chain-totp":
		s.HasTS = rapid.IntRange(0, 3).Draw(t, "hasTS") != 0
		s.TS = int64(rapid.Uint64Range(1, 1<<40).Draw(t, "ts"))
		if rapid.Bool().Draw(t, "tsEdge") {
			s.TS = int64(rapid.Uint64Range(1, 1<<30).Draw(t, "n")*p) - int64(rapid.IntRange(0, 1).Draw(t, "m1"))
			if s.TS <= 0 {
				s.TS = 1
			}
		}
		if s.Ep == "chain-totp" && s.HasSkew && s.Skew > 10 {
			s.Skew = 10
		}
	case "totp-val":
		s.HasTS = true
		sk := skew
		if sk > 10 {
			sk = 10
		}
		n := rapid.Uint64Range(sk+3, 1<<28).Draw(t, "step")
		if rapid.IntRange(0, 2).Draw(t, "cornerQ") == 0 {
			// the window reaches below step 0, and / or an astronomically long period (window arithmetic in the time domain overflows)
			n = rapid.Uint64Range(0, sk+2).Draw(t, "stepLow")
			if rapid.Bool().Draw(t, "hugePeriod") {
				s.HasPer, s.Per = true, rapid.SampledFrom([]uint64{1 << 62, 4_000_000_000_000_000_000, 1<<63 - 1, 1 << 40, 1 << 50}).Draw(t, "perHuge")
				p = s.Per
				if n > (1<<63-1)/p-0 {
					n = (1<<63 - 1) / p
				}
				if n > 0 && n*p > 1<<63-1-p {
					n--
				}
			}
		}
		s.TS = int64(n*p + rapid.Uint64Range(0, minU(p-1, 1<<40)).Draw(t, "off"))
		if s.TS == 0 {
			s.TS = 1 // timestamp 0 means "absent" to the service (the server's clock decides)
		}
		s.Dist = rapid.IntRange(-int(sk)-2, int(sk)+2).Draw(t, "dist")
		s.Mut = rapid.SampledFrom([]int{0, 0, 0, 0, 1, 2, 3, 4, 5, 6, 7, 8, 9, 10, 11}).Draw(t, "mut")
		if rapid.IntRange(0, 7).Draw(t, "sibDigQ") == 0 {
			s.SibDig = rapid.SampledFrom([]int{6, 8, 9, 10, 7}).Draw(t, "sibDig")
		}
	case "hotp-gen", "chain-hotp":
		s.HasCtr = rapid.IntRange(0, 3).Draw(t, "hasCtr") != 0
		s.Ctr = gen.Counter().Draw(t, "ctr")
		if s.Ep == "chain-hotp" {
			if s.HasSkew && s.Skew > 10 {
				s.Skew = 10
			}
			if s.Ctr > 1<<64-20 {
				s.Ctr = 1 << 50
			}
		}
	case "hotp-val":
		s.HasCtr = rapid.IntRange(0, 3).Draw(t, "hasCtr") != 0
		s.Ctr = gen.Counter().Draw(t, "ctr")
		if s.Ctr > 1<<64-20 {
			s.Ctr = 1<<64 - 20
		}
		sk := 10
		if skew < 10 {
			sk = int(skew)
		}
		s.Dist = rapid.IntRange(-sk-2, sk+2).Draw(t, "dist")
		var c uint64
		if s.HasCtr {
			c = s.Ctr
		}
		if s.Dist < 0 && c < uint64(-s.Dist) {
			s.Dist = -s.Dist
		}
		s.Mut = rapid.SampledFrom([]int{0, 0, 0, 0, 1, 2, 3, 4, 5, 6, 7, 8, 9, 10, 11}).Draw(t, "mut")
	case "ocra-gen", "ocra-val", "chain-ocra":
		if rapid.Bool().Draw(t, "useRaw") {
			s.RawName = rapid.SampledFrom(registeredNames).Draw(t, "rawName")
			rd, _ := ref.ReadSuite(s.RawName, true)
			s.In = drawAdmissible(t, rd.Cfg)
		} else if rapid.IntRange(0, 3).Draw(t, "twinOfRegistered") == 0 {
			// a structured suite whose fields equal those of a registered suite, sent WITHOUT a name: its suite string is
			// empty, so its codes differ from the registered suite's (the name is part of the HMAC message)
			rd, _ := ref.ReadSuite(rapid.SampledFrom(registeredNames).Draw(t, "twinName"), true)
			s.Cfg = rd.Cfg
			if len(rd.TimeSteps) > 0 {
				s.Cfg.TimeStep = int(otp.SuiteConfigFromRaws(rd.Cfg.Raw).TimeStep) // the step the registry itself uses for the unit-less form
			}
			s.Cfg.Raw = ""
			s.HashStr = []string{"SHA1", "SHA256", "SHA512"}[rd.Cfg.Hash]
			s.In = drawAdmissible(t, s.Cfg)
		} else {
			s.Cfg = drawUsableCfg(t)
			s.HashStr = rapid.SampledFrom([]string{"SHA1", "SHA256", "SHA512", "SHA1", "SHA256", "SHA512", "sha512", ""}).Draw(t, "hashStr")
			if s.Ep != "chain-ocra" && rapid.IntRange(0, 7).Draw(t, "badCfg") == 0 {
				s.Cfg.Digits = rapid.SampledFrom([]int{0, 3, 11}).Draw(t, "badDigits")
			}
			s.In = drawAdmissible(t, s.Cfg)
		}
		if s.Ep != "chain-ocra" && rapid.IntRange(0, 5).Draw(t, "badIn") == 0 {
			s.In.Q = append(s.In.Q, make([]byte, 129)...) // challenge too long (if selected)
		}
		s.Mut = rapid.SampledFrom([]int{0, 0, 0, 1, 2, 3, 4, 5, 6, 7, 9, 10, 11}).Draw(t, "mut")
	case "chain-ocra-both":
		// a registered name plus a structured twin (same or different digits/hash); inputs admissible for both
		s.RawName = rapid.SampledFrom(registeredNames).Draw(t, "rawName")
		rd, _ := ref.ReadSuite(s.RawName, true)
		s.Cfg = rd.Cfg
		s.HashStr = []string{"SHA1", "SHA256", "SHA512"}[rd.Cfg.Hash]
		if rapid.Bool().Draw(t, "twinDiffers") {
			s.Cfg.Digits = 4 + (rd.Cfg.Digits+1)%7
			s.HashStr = rapid.SampledFrom([]string{"SHA1", "SHA256", "SHA512"}).Draw(t, "twinHash")
		}
		s.In = drawAdmissible(t, rd.Cfg)
	case "suite":
		s.RawName = rapid.SampledFrom(registeredNames).Draw(t, "rawName")
	case "url":
		s.Type = rapid.SampledFrom([]string{"totp", "hotp"}).Draw(t, "type")
		s.Issuer = strings.TrimSpace(drawURLString(t, "iss", false))
		s.Account = strings.TrimSpace(drawURLString(t, "acc", true))
		if s.Issuer == "" {
			s.Issuer = "I"
		}
		if s.Account == "" {
			s.Account = "a"
		}
	}
	return s
}

func TestC18_Endpoints(t *testing.T) {
	// structured suites as a grid: every challenge format x challenge lengths at, just above and far above the format's minimum,
	// every password hash - generation and validation of the generated code. The numbers of the two enumerations travel
	// through the service's own mapping; a table in another order gives 8-byte challenges the 10-byte rule (or the reverse)
	// for two of the six formats only, which the random sequences met at three seeds of four (C18-r12b)
	i := 0
	key := []byte("12345678901234567890")
	for qf := 1; qf <= 6; qf++ {
		for _, extra := range []int{0, 1, 118} {
			for ph := 0; ph <= 3; ph++ {
				if i++; !ev.Mine(i) {
					continue
				}
				cfg := ref.OCRACfg{Hash: qf % 3, Digits: 6 + qf%3, Q: true, QFormat: qf, P: ph != 0, PHash: ph}
				in := ref.OCRAIn{Q: bytes.Repeat([]byte{'1' + byte(qf)}, ref.QMin(qf)+extra)}
				if ph != 0 {
					in.P = bytes.Repeat([]byte{0xA0 + byte(ph)}, ref.PLen(ph))
				}
				st := restStep{Ep: "chain-ocra", Key: key, Sp: gen.Spelling{Pad: 1}, Cfg: cfg, HashStr: []string{"SHA1", "SHA256", "SHA512"}[cfg.Hash], In: in}
				c18Main.each(t, c18Case{Steps: []restStep{st}, Conc: 1})
			}
		}
	}
	c18Main.rapid(t, ev.Pick(600, 12_000), func(t *rapid.T) c18Case {
		n := rapid.IntRange(1, 12).Draw(t, "n")
		concs := []int{1, 1, 2, 4, 8}
		if ev.Thorough() {
			concs = append(concs, 16, 32) // the server admits 50 connections per address
			n = rapid.IntRange(1, 40).Draw(t, "nThorough")
		}
		c := c18Case{Conc: rapid.SampledFrom(concs).Draw(t, "conc")}
		if rapid.IntRange(0, 4).Draw(t, "burst") == 0 {
			// a burst: 3..10 rejected validations under ONE secret, then accepted ones (what a throttle, a lock-out or a
			// replay memo keyed by the secret would disturb); sequential, so the order is the one drawn
			c.Conc = 1
			key := rapid.SliceOfN(rapid.Byte(), 1, 40).Draw(t, "burstKey")
			m := rapid.IntRange(3, 10).Draw(t, "burstLen")
			for i := 0; i < m+2; i++ {
				st := drawRestStep(t)
				for st.Ep != "hotp-val" && st.Ep != "totp-val" {
					st = drawRestStep(t)
				}
				st.Key = key
				if st.HasSkew && st.Skew > 10 {
					st.Skew = 2
				}
				if i < m {
					st.Mut = 1 // wrong last digit
				} else {
					st.Mut, st.Dist = 0, 0 // the right code of the centre
				}
				c.Steps = append(c.Steps, st)
			}
			return c
		}
		for i := 0; i < n; i++ {
			c.Steps = append(c.Steps, drawRestStep(t))
		}
		if rapid.Bool().Draw(t, "sharedSecrets") {
			// all requests of the sequence work with the same one or two secrets (state the service might keep per secret:
			// attempt counters, caches, replay memos)
			shared := rapid.SliceOfN(rapid.SliceOfN(rapid.Byte(), 1, 40), 1, 2).Draw(t, "shared")
			for i := range c.Steps {
				c.Steps[i].Key = shared[i%len(shared)]
			}
		}
		return c
	})
}

// ---------------------------------------------------------------------------
// Secret texts that look like another encoding, enumerated over all six code endpoints: base32 secrets that consist of
// hex digits only (A-F, 2-7) with the length of a hex-written key or digest (16, 32, 40, 64, 128 characters), in upper
// and lower case; base32 secrets made of decimal digits 2-7 only. A service (or library) that "recognises" hex or
// decimal secrets keys the HMAC with other bytes than the base32 decoding.

type c18LookCase struct {
	Ep     string `json:"ep"`
	Secret string `json:"secret"`
}

var c18Look = newPart("C18", "look-alike-secrets",
	"complete: 6 code endpoints x base32 secret texts of 16 / 32 / 40 / 64 / 128 characters drawn from A-F and 2-7 only (constant, mixed, lower case) and from 2-7 only; oracle: the RFC reference under the base32 decoding of the text (generation: the code; validation: the reference's code is accepted); every case distinct and non-trivial",
	func(c c18LookCase) verdict {
		sv := server()
		key, err := base32.StdEncoding.DecodeString(strings.ToUpper(c.Secret))
		if err != nil {
			return bad(true, nil, "HARNESS: %q is not base32", c.Secret)
		}
		labels := []string{"ep=" + c.Ep, fmt.Sprintf("len=%d", len(c.Secret))}
		q := []byte("12345678")
		ocraWant, _ := ref.OCRA(key, ref.OCRACfg{Raw: "OCRA-1:HOTP-SHA1-6:QN08", Hash: 0, Digits: 6, Q: true, QFormat: 1, SessionNN: -1}, ref.OCRAIn{Q: q})
		var body map[string]any
		var path, want string
		switch c.Ep {
		case "hotp-gen", "hotp-val":
			want = ref.MustHOTP(key, 5, 6, 0)
			body = map[string]any{"secret": c.Secret, "counter": 5, "digits": "6", "algorithm": "SHA1"}
			path = "/hotp/generate"
		case "totp-gen", "totp-val":
			want = ref.MustHOTP(key, 1700000000/30, 6, 0)
			body = map[string]any{"secret": c.Secret, "timestamp": 1700000000, "digits": "6", "algorithm": "SHA1", "period": 30}
			path = "/totp/generate"
		default:
			want = ocraWant
			body = map[string]any{"secret": c.Secret, "raw_suite": "OCRA-1:HOTP-SHA1-6:QN08", "input": map[string]any{"challenge_hex": fmt.Sprintf("%x", q)}}
			path = "/ocra/generate"
		}
		if strings.HasSuffix(c.Ep, "-val") {
			body["code"] = want
			path = strings.Replace(path, "generate", "validate", 1)
		}
		b, _ := json.Marshal(body)
		r := sv.do("POST", path, b, false, 15*time.Second)
		if r.Err != nil || r.Status != 200 {
			return bad(true, labels, "POST %s %s -> %s", path, b, r.brief())
		}
		if strings.HasSuffix(c.Ep, "-val") {
			if v, _ := r.JSON["valid"].(bool); !v {
				return bad(true, labels, "POST %s %s -> %s; %q is the RFC code under the base32 decoding of the secret", path, b, r.brief(), want)
			}
		} else if r.str("code") != want {
			return bad(true, labels, "POST %s %s -> %s; the RFC code under the base32 decoding of the secret is %q", path, b, r.brief(), want)
		}
		return ok(true, labels...)
	})

func TestC18_LookAlikeSecrets(t *testing.T) {
	defer c18Look.rec().Flush()
	var secrets []string
	for _, l := range []int{16, 32, 40, 64, 128} {
		mixed := strings.Repeat("ABCDEF234567", 11)[:l]
		secrets = append(secrets, strings.Repeat("A", l), strings.Repeat("F", l), strings.Repeat("7", l), mixed, strings.ToLower(mixed),
			strings.Repeat("BEEFCAFE", 16)[:l], strings.Repeat("234567", 22)[:l], strings.Repeat("DEADBEEF", 16)[:l])
	}
	i := 0
	for _, ep := range []string{"hotp-gen", "hotp-val", "totp-gen", "totp-val", "ocra-gen", "ocra-val"} {
		for _, s := range secrets {
			i++
			if ev.Mine(i) {
				c18Look.each(t, c18LookCase{Ep: ep, Secret: s})
			}
		}
	}
	c18Look.rec().Exhaustive()
}

// ---------------------------------------------------------------------------
// Validations that follow an accepted neighbour, enumerated: under one secret a code of a neighbouring step (or counter)
// is accepted within a window, then exact validations follow. A service that "learns" from the first acceptance (a
// recorded clock drift, a moved counter, a remembered offset) answers the later requests for other parameters than
// the ones they carry.

type c18DriftCase struct {
	Kind string `json:"kind"` // totp | hotp
	D    int    `json:"d"`    // distance of the accepted neighbour
	Skew int    `json:"skew"`
}

var c18Drift = newPart("C18", "after-an-accepted-neighbour",
	"complete: {totp, hotp} x neighbour distance d in {-3..3} \\ {0} x window {|d|, 10}: under a secret of its own, validate the code of step n+d within the window (accepted), then with window 0: the code of n (accepted), the code of n+d (rejected), generation at n (the RFC code), and the same three ten steps later; oracle: reference window membership for exactly each request's parameters; every case distinct and non-trivial",
	func(c c18DriftCase) verdict {
		sv := server()
		key := []byte(fmt.Sprintf("drift-%s-%d-%d-key", c.Kind, c.D, c.Skew))
		secret := ref.B32(key)
		labels := []string{"kind=" + c.Kind, fmt.Sprintf("d=%d", c.D)}
		const period = 30
		base := uint64(1_700_000_000 / period)
		if c.Kind == "hotp" {
			base = 1000
		}
		val := func(step uint64, at uint64, skew int) (bool, string) {
			code := ref.MustHOTP(key, step, 6, 0)
			var body map[string]any
			path := "/totp/validate"
			if c.Kind == "totp" {
				body = map[string]any{"secret": secret, "code": code, "timestamp": at*period + 7, "digits": "6", "algorithm": "SHA1", "period": period, "skew": skew}
			} else {
				body = map[string]any{"secret": secret, "code": code, "counter": at, "digits": "6", "algorithm": "SHA1", "skew": skew}
				path = "/hotp/validate"
			}
			b, _ := json.Marshal(body)
			r := sv.do("POST", path, b, false, 15*time.Second)
			v, _ := r.JSON["valid"].(bool)
			return v && r.Err == nil && r.Status == 200, fmt.Sprintf("POST %s %s -> %s", path, b, r.brief())
		}
		type step struct {
			code, at uint64
			skew     int
			want     bool
		}
		nb := uint64(int64(base) + int64(c.D))
		later := base + 10
		seq := []step{{nb, base, c.Skew, true}, {base, base, 0, true}, {nb, base, 0, false}, {base, base, 0, true},
			{later, later, 0, true}, {uint64(int64(later) + int64(c.D)), later, 0, false}, {nb, base, c.Skew, true}, {base, base, 0, true}}
		for i, s := range seq {
			if got, what := val(s.code, s.at, s.skew); got != s.want {
				return bad(true, labels, "request %d of the session: %s; the code is that of step %d, validated at step %d with window %d: reference says %v", i+1, what, s.code, s.at, s.skew, s.want)
			}
		}
		return ok(true, labels...)
	})

func TestC18_AfterAnAcceptedNeighbour(t *testing.T) {
	defer c18Drift.rec().Flush()
	i := 0
	for _, kind := range []string{"totp", "hotp"} {
		for _, d := range []int{-3, -2, -1, 1, 2, 3} {
			for _, skew := range []int{0, 10} {
				sk := skew
				if sk == 0 {
					sk = d
					if sk < 0 {
						sk = -sk
					}
				}
				i++
				if ev.Mine(i) {
					c18Drift.each(t, c18DriftCase{Kind: kind, D: d, Skew: sk})
				}
			}
		}
	}
	c18Drift.rec().Exhaustive()
}

// ---------------------------------------------------------------------------
// Many requests with DIFFERENT parameters in flight at once. The request sequences above are dealt to a few concurrent
// clients, but two requests with different digits / hash / period meet inside the same handler only now and then; a
// handler that routes the request's parameters through something shared (a package default, a pooled struct that is
// not reset) answers one request with the other's parameters. Here 8 clients fire 250 generate requests each, every
// client with its own parameter set, and every answer is compared with the reference.

type c18ParCase struct {
	Ep string `json:"ep"` // totp-gen | hotp-gen | ocra-gen | totp-val
}

var c18Par = newPart("C18", "different-parameters-in-flight",
	"complete: {totp-gen, totp-val, hotp-gen, ocra-gen} x 8 concurrent clients with pairwise different parameter sets (digits 6/8/9/10, three hashes, periods 30/60/7, skews, suites) x 250 requests each on reused connections; oracle: every answer is the RFC reference for that client's parameters; every case distinct and non-trivial",
	func(c c18ParCase) verdict {
		sv := server()
		type client struct {
			body []byte
			path string
			want string
		}
		var cl []client
		for i := 0; i < 8; i++ {
			key := []byte(fmt.Sprintf("client-%d-secret-key-%s", i, c.Ep))
			dig := []int{6, 8, 9, 10, 6, 8, 10, 9}[i]
			algo := i % 3
			alg := []string{"SHA1", "SHA256", "SHA512"}[algo]
			per := []int{30, 60, 7, 30, 45, 60, 7, 90}[i]
			ts := uint64(1_700_000_000 + 1000*i)
			switch c.Ep {
			case "totp-gen":
				b, _ := json.Marshal(map[string]any{"secret": ref.B32(key), "timestamp": ts, "digits": fmt.Sprint(dig), "algorithm": alg, "period": per})
				cl = append(cl, client{b, "/totp/generate", ref.MustHOTP(key, ts/uint64(per), dig, algo)})
			case "totp-val":
				// the neighbouring step's code: accepted by the clients with skew 1, rejected by those with skew 0
				skew := i % 2
				code := ref.MustHOTP(key, ts/uint64(per)+1, dig, algo)
				b, _ := json.Marshal(map[string]any{"secret": ref.B32(key), "code": code, "timestamp": ts, "digits": fmt.Sprint(dig), "algorithm": alg, "period": per, "skew": skew})
				cl = append(cl, client{b, "/totp/validate", fmt.Sprint(skew == 1)})
			case "hotp-gen":
				b, _ := json.Marshal(map[string]any{"secret": ref.B32(key), "counter": 1000 + i, "digits": fmt.Sprint(dig), "algorithm": alg})
				cl = append(cl, client{b, "/hotp/generate", ref.MustHOTP(key, uint64(1000+i), dig, algo)})
			default:
				cfg := ref.OCRACfg{Hash: algo, Digits: 4 + i%7, Q: true, QFormat: 1 + i%6, C: i%2 == 0, SessionNN: -1}
				in := ref.OCRAIn{Q: []byte(fmt.Sprintf("%010d", i))}
				if cfg.C {
					in.C = []byte{0, 0, 0, 0, 0, 0, 0, byte(i)}
				}
				want, _ := ref.OCRA(key, cfg, in)
				b, _ := json.Marshal(map[string]any{"secret": ref.B32(key), "suite": map[string]any{"hash_function": alg, "code_digits": cfg.Digits, "challenge_format": cfg.QFormat,
					"include_counter": cfg.C, "include_challenge": true, "include_password": false, "include_session": false, "include_timestamp": false, "password_hash": 0, "timestep": 0},
					"input": map[string]any{"counter_hex": fmt.Sprintf("%x", in.C), "challenge_hex": fmt.Sprintf("%x", in.Q)}})
				cl = append(cl, client{b, "/ocra/generate", want})
			}
		}
		var wg sync.WaitGroup
		var mu sync.Mutex
		var firstErr string
		start := make(chan struct{})
		for i := range cl {
			wg.Add(1)
			go func(i int) {
				defer wg.Done()
				<-start
				for k := 0; k < 250; k++ {
					r := sv.do("POST", cl[i].path, cl[i].body, false, 15*time.Second)
					got := r.str("code")
					if c.Ep == "totp-val" {
						v, _ := r.JSON["valid"].(bool)
						got = fmt.Sprint(v)
					}
					if r.Err != nil || r.Status != 200 || got != cl[i].want {
						mu.Lock()
						if firstErr == "" {
							firstErr = fmt.Sprintf("client %d request %d: POST %s %s -> %s; the reference for THIS request's parameters is %s (seven other clients send other parameters at the same time)", i, k, cl[i].path, cl[i].body, r.brief(), cl[i].want)
						}
						mu.Unlock()
						return
					}
				}
			}(i)
		}
		close(start)
		wg.Wait()
		if firstErr != "" {
			return bad(true, []string{"ep=" + c.Ep}, "%s", firstErr)
		}
		return ok(true, "ep="+c.Ep)
	})

func TestC18_DifferentParametersInFlight(t *testing.T) {
	defer c18Par.rec().Flush()
	for i, ep := range []string{"totp-gen", "totp-val", "hotp-gen", "ocra-gen"} {
		if ev.Mine(i) {
			c18Par.each(t, c18ParCase{Ep: ep})
		}
	}
	c18Par.rec().Exhaustive()
}

// ---------------------------------------------------------------------------
// Fresh processes. The secret endpoint "reflects the library's secret generator", which draws from the operating system's
// random source: what two freshly started server processes hand out first can never coincide. A generator that is seeded
// deterministically at start-up (a fake that leaked into the normal build, math/rand) gives every single answer the right
// shape — only a second process shows it.
type c18FreshCase struct {
	Processes int `json:"processes"`
	PerAlgo   int `json:"secrets_per_hash"`
}

var c18Fresh = newPart("C18", "fresh-processes",
	"two further server processes are started from the same binary and asked for secrets (3 hashes x 4 requests each) before anything else: every answer is unpadded upper-case base32 of 20 / 32 / 64 bytes and all secrets — within a process, across the processes, and against the shared server — are pairwise different; one case",
	func(c c18FreshCase) verdict {
		bin := os.Getenv("VERIF_SERVER_BIN")
		seen := map[string]string{}
		algos := []struct {
			name string
			n    int
		}{{"SHA1", 20}, {"SHA256", 32}, {"SHA512", 64}}
		ask := func(sv *restServer, who string) error {
			for k := 0; k < c.PerAlgo; k++ {
				for _, a := range algos {
					r := sv.do("GET", "/otp/secret?algorithm="+a.name, nil, true, 15*time.Second)
					s := r.str("secret")
					b, good := ref.B32DecodeLoose(s)
					if r.Err != nil || r.Status != 200 || !good || len(b) != a.n || ref.B32(b) != s {
						return fmt.Errorf("%s: GET /otp/secret?algorithm=%s -> %s; want unpadded upper-case base32 of %d bytes", who, a.name, r.brief(), a.n)
					}
					at := fmt.Sprintf("%s, %s request %d", who, a.name, k+1)
					if prev, dup := seen[s]; dup {
						return fmt.Errorf("the secret %q was handed out twice: %s and %s — two processes (or two requests) never draw the same bytes from the operating system's random source", s, prev, at)
					}
					seen[s] = at
				}
			}
			return nil
		}
		for p := 0; p < c.Processes; p++ {
			sv, err := startServer(bin)
			if err != nil {
				fmt.Println("INFRA: cannot start a further REST server:", err)
				os.Exit(3)
			}
			err = ask(sv, fmt.Sprintf("fresh process %d", p+1))
			sv.cmd.Process.Kill()
			<-sv.exited
			if err != nil {
				return bad(true, nil, "%v", err)
			}
		}
		if err := ask(server(), "the shared server"); err != nil {
			return bad(true, nil, "%v", err)
		}
		return ok(true, fmt.Sprintf("secrets=%d", len(seen)))
	})

func TestC18_FreshProcesses(t *testing.T) {
	defer c18Fresh.rec().Flush()
	if ev.Mine(0) {
		c18Fresh.each(t, c18FreshCase{Processes: 2, PerAlgo: 4})
	}
	c18Fresh.rec().Exhaustive()
}

// ---------------------------------------------------------------------------
// An idle keep-alive connection. "The documented default for an omitted timestamp" is the current time — of the request,
// not of the connection it arrives on. The pooled client never keeps a connection for long (the service closes it after 100
// requests), so this part holds one connection open itself: a request, three seconds of silence, the same request again.
type c18IdleCase struct {
	IdleMillis int `json:"idle_ms"`
}

var c18Idle = newPart("C18", "idle-keep-alive",
	"one connection held open by the harness: POST /totp/generate and /totp/validate without a timestamp (period 1, so every second is a step), 3.2 s of silence, then the same requests again on the same connection; the code of each answer is the RFC value of a second between the moment that request left and the moment its answer arrived, and the code generated just now validates; one case",
	func(c c18IdleCase) verdict {
		sv := server()
		conn, err := net.DialTimeout("tcp", sv.addr, 5*time.Second)
		if err != nil {
			return bad(true, nil, "cannot connect: %v", err)
		}
		defer conn.Close()
		br := bufio.NewReader(conn)
		key := []byte("12345678901234567890")
		secret := ref.B32(key)
		exchange := func(path, body string) (map[string]any, int, error) {
			conn.SetDeadline(time.Now().Add(15 * time.Second))
			fmt.Fprintf(conn, "POST %s HTTP/1.1\r\nHost: x\r\nContent-Type: application/json\r\nContent-Length: %d\r\nConnection: keep-alive\r\n\r\n%s", path, len(body), body)
			resp, err := http.ReadResponse(br, nil)
			if err != nil {
				return nil, 0, err
			}
			defer resp.Body.Close()
			var m map[string]any
			b, _ := io.ReadAll(resp.Body)
			json.Unmarshal(b, &m)
			return m, resp.StatusCode, nil
		}
		round := func(name string) error {
			before := time.Now().Unix()
			m, st, err := exchange("/totp/generate", fmt.Sprintf(`{"secret":%q,"period":1,"digits":"8","algorithm":"SHA1"}`, secret))
			after := time.Now().Unix()
			if err != nil || st != 200 {
				return fmt.Errorf("%s: POST /totp/generate on the held connection: status %d, %v", name, st, err)
			}
			code, _ := m["code"].(string)
			hit := false
			for x := before - 1; x <= after+1; x++ {
				if ref.MustHOTP(key, uint64(x), 8, 0) == code {
					hit = true
				}
			}
			if !hit {
				return fmt.Errorf("%s: POST /totp/generate without timestamp (period 1) answered code %q (timestamp %v); it is not the RFC value of any second while the request was in flight (%d..%d): the default for an omitted timestamp is the current time", name, code, m["timestamp"], before, after)
			}
			// the code of this very second validates (window 2 covers the second that may have passed)
			cur := ref.MustHOTP(key, uint64(time.Now().Unix()), 8, 0)
			m, st, err = exchange("/totp/validate", fmt.Sprintf(`{"secret":%q,"code":%q,"period":1,"digits":"8","algorithm":"SHA1","skew":2}`, secret, cur))
			if err != nil {
				return fmt.Errorf("%s: POST /totp/validate on the held connection: %v", name, err)
			}
			if v, _ := m["valid"].(bool); st != 200 || !v {
				return fmt.Errorf("%s: POST /totp/validate without timestamp (period 1, skew 2) rejects the code of the current second (status %d, answer %v)", name, st, m)
			}
			return nil
		}
		if err := round("first request"); err != nil {
			return bad(true, nil, "%v", err)
		}
		time.Sleep(time.Duration(c.IdleMillis) * time.Millisecond)
		if err := round(fmt.Sprintf("after %d ms of silence on the same connection", c.IdleMillis)); err != nil {
			return bad(true, nil, "%v", err)
		}
		return ok(true)
	})

func TestC18_IdleKeepAlive(t *testing.T) {
	defer c18Idle.rec().Flush()
	if ev.Mine(0) {
		c18Idle.each(t, c18IdleCase{IdleMillis: 3200})
	}
	c18Idle.rec().Exhaustive()
}
