package verifh

import (
	"crypto/sha1"
	"crypto/sha256"
	"crypto/sha512"
	"fmt"
	"os"
	"strings"

	otp "github.com/ja7ad/otp"
	"pgregory.net/rapid"

	"verifh/ref"
)

// suiteSpec says which suite is used and how it is handed to the library.
type suiteSpec struct {
	// Via: "registered" (NewRawSuite of an advertised name), "parsed" (NewRawSuite of a
	// grammar string), "config" (SuiteConfig value), "rawsuite" (RawSuite{cfg}), "newsuite" (NewSuite(cfg)).
	Via  string      `json:"via"`
	Name string      `json:"name,omitempty"`
	Cfg  ref.OCRACfg `json:"cfg"` // hand-built configuration (Via config/rawsuite/newsuite)
}

func toLib(c ref.OCRACfg) otp.SuiteConfig {
	return otp.SuiteConfig{Raw: c.Raw, Hash: otp.Algorithm(c.Hash), Digits: c.Digits, Challenge: otp.ChallengeFormat(c.QFormat),
		IncludeCounter: c.C, IncludeChallenge: c.Q, IncludePassword: c.P, IncludeSession: c.S, IncludeTimestamp: c.T,
		PasswordHash: otp.PasswordHashAlgorithm(c.PHash), TimeStep: c.TimeStep}
}

func toLibIn(in ref.OCRAIn) otp.OCRAInput {
	return otp.OCRAInput{Counter: in.C, Challenge: in.Q, Password: in.P, SessionInfo: in.S, Timestamp: in.T}
}

// resolve instantiates the suite in the library and returns the configuration the
// reference uses. libErr != nil means the library refused to build the suite.
func (s suiteSpec) resolve() (suite otp.Suite, cfg ref.OCRACfg, libErr error) {
	switch s.Via {
	case "registered", "parsed":
		rd, _ := ref.ReadSuite(s.Name, s.Via == "registered")
		su, err := otp.NewRawSuite(s.Name)
		return su, rd.Cfg, err
	case "config":
		return toLib(s.Cfg), s.Cfg, nil
	case "rawsuite":
		return otp.RawSuite{SuiteConfig: toLib(s.Cfg)}, s.Cfg, nil
	case "newsuite":
		su, err := otp.NewSuite(toLib(s.Cfg))
		return su, s.Cfg, err
	case "mutated":
		// a suite value that a constructor produced for ANOTHER suite (Name), whose exported fields were then set to this
		// configuration: what the value holds now decides, not what it was built from
		var start otp.Suite
		if otp.IsKnownSuite(s.Name) {
			start, _ = otp.NewRawSuite(s.Name)
		} else {
			start, _ = otp.NewSuite(otp.SuiteConfig{Raw: s.Name, Hash: otp.SHA1, Digits: 6, Challenge: otp.ChallengeNumeric08, IncludeChallenge: true})
		}
		switch v := start.(type) {
		case otp.RawSuite:
			v.SuiteConfig = toLib(s.Cfg)
			return v, s.Cfg, nil
		case *otp.RawSuite:
			if v != nil {
				v.SuiteConfig = toLib(s.Cfg)
				return v, s.Cfg, nil
			}
		case otp.SuiteConfig:
			v = toLib(s.Cfg)
			return v, s.Cfg, nil
		}
		return otp.RawSuite{SuiteConfig: toLib(s.Cfg)}, s.Cfg, nil
	}
	panic("bad suiteSpec.Via " + s.Via)
}

func (s suiteSpec) label() string { return "via=" + s.Via }

// registered names (sorted), read once from the library.
// inChild: this process is a fresh child started by a check to observe first-use behaviour; nothing
// of the library may be touched before the child's own calls (package initialisers included).
var inChild = os.Getenv("VERIF_CHILD") != ""

var registeredNames = func() []string {
	if inChild {
		return nil
	}
	n := otp.ListSuites()
	sortStrings(n)
	return n
}()

func sortStrings(a []string) {
	for i := 1; i < len(a); i++ {
		for j := i; j > 0 && a[j] < a[j-1]; j-- {
			a[j], a[j-1] = a[j-1], a[j]
		}
	}
}

var rfcVectorSuites = map[string]bool{
	"OCRA-1:HOTP-SHA1-6:QN08": true, "OCRA-1:HOTP-SHA256-8:C-QN08-PSHA1": true, "OCRA-1:HOTP-SHA256-8:QN08-PSHA1": true,
	"OCRA-1:HOTP-SHA512-8:C-QN08": true, "OCRA-1:HOTP-SHA512-8:QN08-T1M": true,
}

var rawTexts = []string{"", "x", "OCRA-1:HOTP-SHA1-6:QN08", "ocra", "OCRA-1:HOTP-SHA512-10:C-QH10-PSHA512-S128-T59M", "a\x00b", "☃"}

// drawUsableCfg draws a hand-built usable configuration (C14's usability rule) with
// arbitrary settings in the attributes of unselected fields.
func drawUsableCfg(t *rapid.T) ref.OCRACfg {
	c := ref.OCRACfg{SessionNN: -1}
	c.Hash = rapid.IntRange(0, 2).Draw(t, "hash")
	c.Digits = rapid.IntRange(4, 10).Draw(t, "digits")
	mask := rapid.IntRange(0, 31).Draw(t, "fields")
	c.C, c.Q, c.P, c.S, c.T = mask&1 != 0, mask&2 != 0, mask&4 != 0, mask&8 != 0, mask&16 != 0
	if c.Q {
		c.QFormat = rapid.IntRange(1, 6).Draw(t, "qfmt")
	} else {
		c.QFormat = rapid.IntRange(0, 6).Draw(t, "qfmtUnsel")
	}
	if c.P {
		c.PHash = rapid.IntRange(1, 3).Draw(t, "phash")
	} else {
		c.PHash = rapid.IntRange(0, 3).Draw(t, "phashUnsel")
	}
	if c.T {
		c.TimeStep = rapid.SampledFrom([]int{1, 30, 60, 3600}).Draw(t, "step")
	} else {
		c.TimeStep = rapid.SampledFrom([]int{0, 0, -1, 60}).Draw(t, "stepUnsel")
	}
	switch rapid.IntRange(0, 5).Draw(t, "rawKind") {
	case 0, 1, 2:
		c.Raw = rapid.SampledFrom(rawTexts).Draw(t, "rawFixed")
	case 3, 4:
		c.Raw = rapid.StringN(0, 40, 80).Draw(t, "raw")
	default:
		// long suite-string text: the message (text, 0x00, up to 8+128+64+128+8 bytes) crosses every plausible
		// fixed buffer size (256, 512, 1024, 4096) at some text length
		n := rapid.SampledFrom([]int{100, 127, 128, 175, 176, 177, 200, 247, 248, 255, 256, 257, 300, 375, 376, 503, 504, 505, 511, 512, 513, 700, 1000, 1023, 1024, 2000, 4096, 5000}).Draw(t, "rawLongLen")
		n += rapid.IntRange(-3, 3).Draw(t, "rawLongAdj")
		c.Raw = strings.Repeat(rapid.SampledFrom([]string{"OCRA-1:HOTP-SHA1-6:QN08-", "x", "\x00", "ab"}).Draw(t, "rawLongUnit"), n)[:n]
	}
	return c
}

// grammarSuite draws a well-formed suite string of the RFC naming grammar that the
// configuration can express.
func grammarSuite(t *rapid.T) string {
	s := "OCRA-1:HOTP-" + rapid.SampledFrom([]string{"SHA1", "SHA256", "SHA512"}).Draw(t, "gHash") + "-" + fmt.Sprint(rapid.IntRange(4, 10).Draw(t, "gDigits")) + ":"
	if rapid.Bool().Draw(t, "gC") {
		s += "C-"
	}
	s += "Q" + rapid.SampledFrom([]string{"N", "N", "N", "A", "H"}).Draw(t, "gQ") + rapid.SampledFrom([]string{"08", "10"}).Draw(t, "gQn")
	if rapid.Bool().Draw(t, "gP") {
		s += "-PSHA" + rapid.SampledFrom([]string{"1", "256", "512"}).Draw(t, "gPh")
	}
	switch rapid.IntRange(0, 2).Draw(t, "gS") {
	case 1:
		s += "-S"
	case 2:
		s += fmt.Sprintf("-S%03d", rapid.SampledFrom([]int{64, 128, 512, 0, 999}).Draw(t, "gSn"))
	}
	if rapid.Bool().Draw(t, "gT") {
		u := rapid.SampledFrom([]string{"S", "M", "H"}).Draw(t, "gTu")
		max := 59
		if u == "H" {
			max = 48
		}
		s += fmt.Sprintf("-T%d%s", rapid.IntRange(1, max).Draw(t, "gTn"), u)
	}
	return s
}

// drawSuite draws a suite from the three sources of C05's quantifier.
func drawSuite(t *rapid.T) suiteSpec {
	switch rapid.IntRange(0, 5).Draw(t, "suiteKind") {
	case 0:
		return suiteSpec{Via: "registered", Name: rapid.SampledFrom(registeredNames).Draw(t, "regName")}
	case 1:
		name := grammarSuite(t)
		if rapid.Bool().Draw(t, "caseVariant") {
			// another spelling of the same suite (the parser folds case): the message must start with the
			// string AS GIVEN. Only letters after "OCRA-1:" are varied (the version is matched exactly).
			b := []byte(name)
			mask := rapid.Uint64().Draw(t, "caseMask")
			for i := 7; i < len(b); i++ {
				if b[i] >= 'A' && b[i] <= 'Z' && (mask>>(uint(i)%64))&1 == 1 {
					b[i] += 32
				}
			}
			name = string(b)
		}
		if rapid.IntRange(0, 3).Draw(t, "permuteTokens") == 0 {
			// the data-input tokens in another order (QN08-C, T1M-PSHA1-QN08): not the RFC's order, but if the parser takes the
			// string, the message is still assembled in the one order the statement gives, after the string as given
			i := strings.LastIndexByte(name, ':')
			toks := strings.Split(name[i+1:], "-")
			perm := rapid.Permutation(toks).Draw(t, "tokenOrder")
			name = name[:i+1] + strings.Join(perm, "-")
		}
		return suiteSpec{Via: "parsed", Name: name}
	default:
		sp := suiteSpec{Via: rapid.SampledFrom([]string{"config", "rawsuite", "newsuite", "mutated"}).Draw(t, "via"), Cfg: drawUsableCfg(t)}
		if sp.Via == "mutated" {
			sp.Name = rapid.SampledFrom(append([]string{"hand-built-start"}, registeredNames...)).Draw(t, "mutStart")
		}
		return sp
	}
}

var lenBoundaries = []int{0, 1, 7, 8, 9, 10, 11, 19, 20, 21, 31, 32, 33, 63, 64, 65, 127, 128, 129, 140}

func drawBytes(t *rapid.T, n int, label string) []byte {
	fillText := func(unit string) []byte {
		b := make([]byte, 0, n)
		for len(b)+len(unit) <= n {
			b = append(b, unit...)
		}
		for len(b) < n {
			b = append(b, 'x')
		}
		return b
	}
	switch rapid.IntRange(0, 13).Draw(t, label+"Fill") {
	case 13: // (8-byte fields) a big-endian NUMBER of a plausible magnitude: a small counter, a count of time steps since the
		// epoch, or what a caller passes when it confuses steps with time — Unix seconds, milliseconds, microseconds,
		// nanoseconds of about now. The field is 8 bytes of data whatever number they spell.
		if n == 8 {
			base := rapid.SampledFrom([]uint64{0, 1, 1000, 28_333_333, 56_666_666, 1_700_000_000, 1_999_999_999, 1_000_000_000, 9_999_999_999, 1_700_000_000_000, 1_700_000_000_000_000, 1_700_000_000_000_000_000, 1 << 31, 1 << 32, 1<<63 - 1}).Draw(t, label+"Num")
			v := base + uint64(rapid.IntRange(0, 1000).Draw(t, label+"NumD"))
			b := make([]byte, 8)
			for i := 7; i >= 0; i-- {
				b[i] = byte(v)
				v >>= 8
			}
			return b
		}
		return rapid.SliceOfN(rapid.Byte(), n, n).Draw(t, label)
	case 12: // the digest of a weak or empty PIN (what a "reject weak passwords" screen would single out); for other
		// lengths the leading bytes of the SHA-512 digest, padded with zeros
		pin := rapid.SampledFrom([]string{"", "", "0", "1234", "0000", "000000", "123456", "password", "\x00"}).Draw(t, label+"Pin")
		var d []byte
		switch n {
		case 20:
			x := sha1.Sum([]byte(pin))
			d = x[:]
		case 32:
			x := sha256.Sum256([]byte(pin))
			d = x[:]
		default:
			x := sha512.Sum512([]byte(pin))
			d = x[:]
		}
		b := make([]byte, n)
		copy(b, d)
		return b
	case 0:
		return make([]byte, n)
	case 1:
		b := make([]byte, n)
		for i := range b {
			b[i] = 0xff
		}
		return b
	case 2: // decimal digits (what a numeric question looks like before conversion)
		return fillText("0123456789")
	case 3: // text with blanks and line breaks at both ends
		b := fillText("ab ")
		if n > 0 {
			b[0], b[n-1] = ' ', '\n'
		}
		return b
	case 4: // valid UTF-8 of multi-byte characters: fewer characters than bytes
		return fillText(rapid.SampledFrom([]string{"é", "日", "😀", "aé日😀"}).Draw(t, label+"U"))
	case 5: // random bytes ending in a run of zeros (what right-padding produces)
		b := rapid.SliceOfN(rapid.Byte(), n, n).Draw(t, label)
		for i := n - n/3; i < n; i++ {
			b[i] = 0
		}
		return b
	default:
		return rapid.SliceOfN(rapid.Byte(), n, n).Draw(t, label)
	}
}

func boundedLen(t *rapid.T, lo, hi int, label string) int {
	switch rapid.IntRange(0, 3).Draw(t, label+"Kind") {
	case 0:
		return lo
	case 1:
		return hi
	case 2:
		var c []int
		for _, b := range lenBoundaries {
			if b >= lo && b <= hi {
				c = append(c, b)
			}
		}
		return rapid.SampledFrom(c).Draw(t, label+"B")
	default:
		return rapid.IntRange(lo, hi).Draw(t, label)
	}
}

// drawAdmissible draws admissible contents for the fields cfg selects; unselected fields stay nil.
func drawAdmissible(t *rapid.T, cfg ref.OCRACfg) ref.OCRAIn {
	var in ref.OCRAIn
	if cfg.C {
		in.C = drawBytes(t, 8, "inC")
	}
	if cfg.Q {
		in.Q = drawBytes(t, boundedLen(t, ref.QMin(cfg.QFormat), 128, "qLen"), "inQ")
	}
	if cfg.P {
		in.P = drawBytes(t, ref.PLen(cfg.PHash), "inP")
	}
	if cfg.S {
		in.S = drawBytes(t, boundedLen(t, 0, 128, "sLen"), "inS")
		if len(in.S) == 0 && rapid.Bool().Draw(t, "sNil") {
			in.S = nil
		}
	}
	if cfg.T {
		in.T = drawBytes(t, 8, "inT")
	}
	return in
}

// drawJunk draws arbitrary contents (any length, nil included) for every field.
func drawJunk(t *rapid.T) ref.OCRAIn {
	j := func(label string) []byte {
		switch rapid.IntRange(0, 4).Draw(t, label+"JK") {
		case 0:
			return nil
		case 1:
			return []byte{}
		case 2:
			return drawBytes(t, rapid.SampledFrom(lenBoundaries).Draw(t, label+"JB"), label+"J")
		default:
			return drawBytes(t, rapid.IntRange(0, 300).Draw(t, label+"JL"), label+"J")
		}
	}
	return ref.OCRAIn{C: j("c"), Q: j("q"), P: j("p"), S: j("s"), T: j("t")}
}

// overlay returns in with every field cfg does NOT select replaced by junk's.
func overlay(cfg ref.OCRACfg, in, junk ref.OCRAIn) ref.OCRAIn {
	out := in
	if !cfg.C {
		out.C = junk.C
	}
	if !cfg.Q {
		out.Q = junk.Q
	}
	if !cfg.P {
		out.P = junk.P
	}
	if !cfg.S {
		out.S = junk.S
	}
	if !cfg.T {
		out.T = junk.T
	}
	return out
}

func fieldCount(c ref.OCRACfg) int {
	n := 0
	for _, b := range []bool{c.C, c.Q, c.P, c.S, c.T} {
		if b {
			n++
		}
	}
	return n
}
