//go:build verif

package verifh

import (
	"fmt"
	"testing"

	otp "github.com/ja7ad/otp"
	"pgregory.net/rapid"

	"verifh/ev"
	"verifh/ref"
)

// Formatting stage of C01 (and C05), reached through the verif hooks so that the
// digest — which the public API cannot choose — is enumerated directly.

type fmtCase struct {
	Fn     string `json:"fn"` // short | long | decimal
	V      uint32 `json:"v"`
	Digits int    `json:"digits"`
}

func checkFmt(c fmtCase) verdict {
	var got string
	switch c.Fn {
	case "short":
		got = otp.VerifShortDigit(c.V, c.Digits)
	case "long":
		got = otp.VerifLongDigit(c.V, c.Digits)
	case "decimal":
		got = otp.VerifFormatDecimal(c.V, c.Digits)
	}
	want := fmt.Sprintf("%0*d", c.Digits, c.V)
	if got != want {
		return bad(true, []string{c.Fn}, "%s(%d, %d) = %q, want %q", c.Fn, c.V, c.Digits, got, want)
	}
	return ok(true, c.Fn)
}

var c01Fmt = newPart("C01", "format",
	"formatting stage through verif hooks: shortDigit and formatDecimal for EVERY value v < 10^d, d = 1..6 (thorough: d = 1..7), and for d = 7..10 (short <= 8, long >= 9, decimal all) the values {0, 10^k-1, 10^k, 2^31-1 mod 10^d} plus rapid-drawn v < min(10^d, 2^31); oracle fmt %0*d; every enumerated value is a distinct case",
	checkFmt)

func TestC01_Format(t *testing.T) {
	rec := c01Fmt.rec()
	defer rec.Flush()
	maxD := ev.Pick(6, 7)
	for d := 1; d <= maxD; d++ {
		n := uint32(ref.Pow10(d))
		for _, fn := range []string{"short", "decimal"} {
			cnt := int64(0)
			for v := uint32(0); v < n; v++ {
				if !ev.Mine(int(v)) {
					continue
				}
				c := fmtCase{Fn: fn, V: v, Digits: d}
				if vd := c01Fmt.safe(c); vd.Err != nil {
					c01Fmt.each(t, c) // records + fails
				}
				cnt++
			}
			rec.CountOnly(cnt, fmt.Sprintf("%s/d=%d/exhaustive", fn, d), fmtCase{Fn: fn, V: n - 1, Digits: d})
		}
	}
	// boundaries for the remaining digit counts
	for d := maxD + 1; d <= 10; d++ {
		lim := ref.Pow10(d)
		vals := []uint64{0, 1<<31 - 1}
		for k := 0; k <= d; k++ {
			vals = append(vals, ref.Pow10(k)-1, ref.Pow10(k), ref.Pow10(k)+1)
		}
		for _, v := range vals {
			if v >= lim || v >= 1<<31 {
				continue
			}
			for _, fn := range fmtFns(d) {
				c01Fmt.each(t, fmtCase{Fn: fn, V: uint32(v), Digits: d})
			}
		}
	}
	rec.Exhaustive()
}

func fmtFns(d int) []string {
	if d <= 8 {
		return []string{"short", "decimal"}
	}
	return []string{"long", "decimal"}
}

func TestC01_FormatRandom(t *testing.T) {
	c01Fmt.rapid(t, ev.Pick(100_000, 2_000_000), func(t *rapid.T) fmtCase {
		d := rapid.IntRange(7, 10).Draw(t, "d")
		lim := ref.Pow10(d)
		if lim > 1<<31 {
			lim = 1 << 31
		}
		v := uint32(rapid.Uint64Range(0, lim-1).Draw(t, "v"))
		return fmtCase{Fn: rapid.SampledFrom(fmtFns(d)).Draw(t, "fn"), V: v, Digits: d}
	})
}

// Modulus table and dynamic truncation.

type truncCase struct {
	Sum    []byte `json:"sum"`
	Digits int    `json:"digits"`
}

func checkTrunc(c truncCase) verdict {
	mod, okk := otp.VerifMod10(c.Digits)
	labels := []string{fmt.Sprintf("len=%d", len(c.Sum)), fmt.Sprintf("off=%d", c.Sum[len(c.Sum)-1]&15), fmt.Sprintf("digits=%d", c.Digits)}
	if !okk || mod != ref.Pow10(c.Digits) {
		return bad(true, labels, "modulus for %d digits is %d (present=%v), want 10^%d", c.Digits, mod, okk, c.Digits)
	}
	got := otp.VerifTruncate(c.Sum, mod)
	want := uint32(uint64(ref.DT(c.Sum)) % ref.Pow10(c.Digits))
	if got != want {
		return bad(true, labels, "truncate(%x, 10^%d) = %d, want %d", c.Sum, c.Digits, got, want)
	}
	return ok(true, labels...)
}

var c01Trunc = newPart("C01", "truncate",
	"modulus table entry == 10^d for d = 1..10 and dynamic truncation through the hook: digests of length 20/32/64 with every offset nibble 0..15, top bit of the selected word set/clear, random other bytes, x digits 1..10; oracle: 31-bit big-endian word at offset, mod 10^d in uint64",
	checkTrunc)

func TestC01_Truncate(t *testing.T) {
	c01Trunc.rapid(t, ev.Pick(50_000, 1_000_000), func(t *rapid.T) truncCase {
		n := rapid.SampledFrom([]int{20, 32, 64}).Draw(t, "len")
		sum := rapid.SliceOfN(rapid.Byte(), n, n).Draw(t, "sum")
		off := rapid.IntRange(0, 15).Draw(t, "off")
		sum[n-1] = sum[n-1]&0xf0 | byte(off)
		switch rapid.IntRange(0, 3).Draw(t, "word") {
		case 0:
			copy(sum[off:off+4], []byte{0xff, 0xff, 0xff, 0xff})
		case 1:
			copy(sum[off:off+4], []byte{0x80, 0, 0, 0})
		case 2:
			sum[off] |= 0x80
		}
		if off+4 > n-1 { // keep the offset nibble as drawn when the word overlaps the last byte
			sum[n-1] = sum[n-1]&0xf0 | byte(off)
		}
		return truncCase{Sum: sum, Digits: rapid.IntRange(1, 10).Draw(t, "digits")}
	})
}
