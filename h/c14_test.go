package verifh

import (
	"fmt"
	"strings"
	"sync"
	"testing"

	otp "github.com/ja7ad/otp"

	"verifh/ev"
	"verifh/ref"
)

// ---------------------------------------------------------------------------
// C14 — OCRA admits an input exactly when it meets the suite's field requirements.

// (a) suite usability, complete enumeration.
type c14CfgCase struct {
	Cfg ref.OCRACfg `json:"cfg"`
}

func checkC14Cfg(c c14CfgCase) verdict {
	want := ref.SuiteUsable(c.Cfg)
	lc := toLib(c.Cfg)
	e1 := lc.Validate()
	_, e2 := otp.NewSuite(lc)
	rs0 := otp.RawSuite{SuiteConfig: lc} // a variable: the method may have a pointer receiver
	e3 := rs0.Validate()
	labels := []string{fmt.Sprintf("usable=%v", want)}
	if (e1 == nil) != want || (e2 == nil) != want || (e3 == nil) != want {
		return bad(true, labels, "suite %+v: usable by the rule = %v, but SuiteConfig.Validate=%v NewSuite=%v RawSuite.Validate=%v", c.Cfg, want, e1, e2, e3)
	}
	// the same configuration reached by CHANGING a suite value that a constructor once accepted
	// (RawSuite is a struct with exported fields): usability is a property of the value as it is now
	twin := otp.SuiteConfig{Raw: "x", Hash: otp.SHA1, Digits: 6, Challenge: otp.ChallengeNumeric08, IncludeChallenge: true}
	for _, mk := range []func() (otp.Suite, error){
		func() (otp.Suite, error) { return otp.NewSuite(twin) },
		func() (otp.Suite, error) { return otp.NewRawSuite("OCRA-1:HOTP-SHA1-6:QN08") },
	} {
		if su, err := mk(); err == nil {
			if rs, isRaw := su.(otp.RawSuite); isRaw {
				rs.SuiteConfig = lc
				if e := rs.Validate(); (e == nil) != want {
					return bad(true, labels, "a constructed RawSuite changed to %+v: Validate() = %v, usable by the rule = %v", c.Cfg, e, want)
				}
				if !want {
					in2 := otp.OCRAInput{Counter: make([]byte, 8), Challenge: make([]byte, 16), Password: make([]byte, ref.PLen(maxI(c.Cfg.PHash, 1))), Timestamp: make([]byte, 8)}
					if code, gerr := otp.GenerateOCRA("MFRGGZDFMZTWQ2LK", rs, in2); gerr == nil {
						return bad(true, labels, "GenerateOCRA produced %q for a constructed RawSuite changed to the unusable %+v", code, c.Cfg)
					}
				}
			}
		}
	}
	// generation and validation must agree with the rule as well (the suite check gates all table
	// indexing): a usable suite generates and validates with an admissible input, an unusable one is
	// refused — whatever was used before (all configurations here share one suite string)
	in := otp.OCRAInput{Counter: make([]byte, 8), Challenge: make([]byte, 16), Password: make([]byte, ref.PLen(maxI(c.Cfg.PHash, 1))), Timestamp: make([]byte, 8)}
	code, gerr := otp.GenerateOCRA("MFRGGZDFMZTWQ2LK", lc, in)
	if want && (gerr != nil || len(code) != c.Cfg.Digits) {
		return bad(true, labels, "GenerateOCRA refused the usable suite %+v with an admissible input: %q, %v", c.Cfg, code, gerr)
	}
	if !want && gerr == nil {
		return bad(true, labels, "GenerateOCRA produced %q for the unusable suite %+v", code, c.Cfg)
	}
	if want {
		if okk, verr := otp.ValidateOCRA("MFRGGZDFMZTWQ2LK", code, lc, in); !okk || verr != nil {
			return bad(true, labels, "ValidateOCRA rejects the code just generated for the usable suite %+v: %v", c.Cfg, verr)
		}
	} else if okk, verr := otp.ValidateOCRA("MFRGGZDFMZTWQ2LK", "000000", lc, in); okk || verr == nil {
		// which error a refusal carries is not pinned by the statements (a validator may answer every failure alike)
		return bad(true, labels, "ValidateOCRA answered (%v, %v) for the unusable suite %+v; want (false, an error)", okk, verr, c.Cfg)
	}
	return ok(true, labels...)
}

func maxI(a, b int) int {
	if a > b {
		return a
	}
	return b
}

var c14Cfg = newPart("C14", "usability",
	"complete enumeration: 32 subsets of {C,Q,P,S,T} x 7 challenge formats (0..6) x 4 password hashes (0..3) x digits -1..12 x hashes 0..4 x time steps {-1,0,1,60} = 250880 configurations, each under 5 suite texts (free text, empty, two registered names, a parseable unregistered string — the text of a hand-built configuration does not change what its fields say); oracle: usable iff digits 4..10 and hash supported and every selected field has its format / password hash / positive time step; observed at SuiteConfig.Validate, NewSuite, RawSuite.Validate (and GenerateOCRA refuses unusable ones); every configuration distinct",
	checkC14Cfg)

var c14Raws = []string{"x", "", "OCRA-1:HOTP-SHA1-6:QN08", "OCRA-1:HOTP-SHA512-8:QN08-T1M", "OCRA-1:HOTP-SHA256-7:C-QN10-PSHA256-S064-T30S"}

func TestC14_Usability(t *testing.T) {
	rec := c14Cfg.rec()
	defer rec.Flush()
	i := 0
	var n int64
	var sample c14CfgCase
	for mask := 0; mask < 32; mask++ {
		for qf := 0; qf <= 6; qf++ {
			for ph := 0; ph <= 3; ph++ {
				for d := -1; d <= 12; d++ {
					for h := 0; h <= 4; h++ {
						for _, ts := range []int{-1, 0, 1, 60} {
							// the suite text is free text for a hand-built configuration: usability is a matter of the fields, also
							// when the text is empty, names a registered suite (that says something else) or is a string the parser takes
							for _, raw := range c14Raws {
								i++
								if !ev.Mine(i) {
									continue
								}
								c := c14CfgCase{Cfg: ref.OCRACfg{Raw: raw, Hash: h, Digits: d, C: mask&1 != 0, Q: mask&2 != 0, P: mask&4 != 0, S: mask&8 != 0, T: mask&16 != 0, QFormat: qf, PHash: ph, TimeStep: ts, SessionNN: -1}}
								if v := c14Cfg.safe(c); v.Err != nil {
									c14Cfg.each(t, c)
								}
								n++
								if ref.SuiteUsable(c.Cfg) && mask == 31 {
									sample = c
								}
							}
						}
					}
				}
			}
		}
	}
	rec.CountOnly(n, "configurations", sample)
	rec.Exhaustive()
}

// (b) input admission.
type c14InCase struct {
	Cfg   ref.OCRACfg `json:"cfg"`
	Lens  [5]int      `json:"lens"` // C,Q,P,S,T lengths; -1 = nil slice
	Full  bool        `json:"full"` // also observe through GenerateOCRA / ValidateOCRA
	Fill  byte        `json:"fill"`
	Sweep string      `json:"sweep"`
}

// mk returns a (shared, read-only) slice of length n; -1 = nil. Admission depends on lengths only, so the CONTENT is
// varied over 20 kinds — byte patterns, ASCII digits / letters / hex / base32 text, blanks, NUL, '=' and line breaks,
// valid UTF-8 made of 2-, 3- and 4-byte characters (exactly n bytes long: shorter in characters than in bytes), a mix,
// and invalid UTF-8 — a rule that looks at what the bytes say (characters, digits, trimmed text) admits differently.
var mkCache sync.Map // [2]int{n, kind} -> []byte

func mkBuild(n, kind int) []byte {
	b := make([]byte, 0, n)
	rep := func(unit string) {
		for len(b)+len(unit) <= n {
			b = append(b, unit...)
		}
		for len(b) < n { // complete to exactly n bytes with ASCII, keeping the text valid UTF-8
			b = append(b, 'x')
		}
	}
	switch kind {
	case 0, 1, 2, 3:
		for i := 0; i < n; i++ {
			b = append(b, byte(kind*85)+byte(i*7*kind))
		}
	case 4:
		rep("0123456789")
	case 5:
		rep("abcXYZ")
	case 6:
		rep("0fA9")
	case 7:
		rep("MZXW6YTB")
	case 8:
		rep(" ")
		if n > 0 {
			b[0], b[n-1] = ' ', '\t'
		}
	case 9:
		rep("\x00")
	case 10:
		rep("=\n")
	case 11:
		rep("é") // 2 bytes per character
	case 12:
		rep("日") // 3 bytes per character
	case 13:
		rep("😀") // 4 bytes per character
	case 14:
		rep("aé日😀")
	case 15:
		for i := 0; i < n; i++ {
			b = append(b, 0x80+byte(i%3)) // continuation bytes only: invalid UTF-8
		}
	case 16: // a zero "sign byte" in front of a value with the top bit set (what BigInteger.toByteArray / DER INTEGER produce)
		for i := 0; i < n; i++ {
			b = append(b, 0x80|byte(i*13))
		}
		if n > 0 {
			b[0] = 0
		}
	case 17: // 0x00 0xff 0xff ...
		for i := 0; i < n; i++ {
			b = append(b, 0xff)
		}
		if n > 0 {
			b[0] = 0
		}
	case 18: // a DER-looking prefix: tag, length, then bytes
		for i := 0; i < n; i++ {
			b = append(b, byte(0x41+i%26))
		}
		if n > 1 {
			b[0], b[1] = 0x02, byte(n-2)
		}
	default: // leading and trailing zero bytes around a non-zero middle
		for i := 0; i < n; i++ {
			b = append(b, 0)
		}
		if n > 2 {
			b[n/2] = 0x5a
		}
	}
	return b[:n:n]
}

func mk(n int, fill byte) []byte {
	if n < 0 {
		return nil
	}
	k := [2]int{n, int(fill % 20)}
	if v, okk := mkCache.Load(k); okk {
		return v.([]byte)
	}
	v := mkBuild(n, k[1])
	mkCache.Store(k, v)
	return v
}

const c14Secret = "GEZDGNBVGY3TQOJQGEZDGNBVGY3TQOJQ"

var c14Key = []byte("12345678901234567890")

func checkC14In(c c14InCase) verdict {
	in := ref.OCRAIn{C: mk(c.Lens[0], c.Fill), Q: mk(c.Lens[1], c.Fill+1), P: mk(c.Lens[2], c.Fill+2), S: mk(c.Lens[3], c.Fill+3), T: mk(c.Lens[4], c.Fill+4)}
	want := ref.Admissible(c.Cfg, in)
	lc, li := toLib(c.Cfg), toLibIn(in)
	labels := []string{fmt.Sprintf("admissible=%v", want), "sweep=" + c.Sweep}
	if e := li.Validate(lc); (e == nil) != want {
		return bad(true, labels, "OCRAInput.Validate: suite %+v lengths C,Q,P,S,T=%v: admissible by the rule = %v, library says %v", c.Cfg, c.Lens, want, e)
	}
	if c.Full {
		code, gerr := otp.GenerateOCRA(c14Secret, lc, li)
		if (gerr == nil) != want {
			return bad(true, labels, "GenerateOCRA: suite %+v lengths %v: admissible = %v, library returned (%q, %v)", c.Cfg, c.Lens, want, code, gerr)
		}
		// Validation "accepts an input" when it gets as far as judging the code: for an admissible input the correct code
		// (from the reference) must be accepted; for an inadmissible one nothing may be accepted. Which error value a
		// refusal carries is not pinned by the statement and is not looked at.
		if want {
			code, rerr := ref.OCRA(c14Key, c.Cfg, in)
			if rerr != nil {
				return bad(true, labels, "HARNESS: reference refused an admissible input: %+v %v", c.Cfg, c.Lens)
			}
			if okk, verr := otp.ValidateOCRA(c14Secret, code, lc, li); !okk || verr != nil {
				return bad(true, labels, "ValidateOCRA: admissible input (suite %+v lengths %v) with the correct code %s answered (%v, %v)", c.Cfg, c.Lens, code, okk, verr)
			}
		} else if okk, verr := otp.ValidateOCRA(c14Secret, "0000000000"[:c.Cfg.Digits], lc, li); okk || verr == nil {
			return bad(true, labels, "ValidateOCRA: inadmissible input (suite %+v lengths %v) answered (%v, %v); want (false, error)", c.Cfg, c.Lens, okk, verr)
		}
	}
	return ok(true, labels...)
}

var c14In = newPart("C14", "admission",
	"enumeration over 576 usable representative suites (32 field subsets x 6 challenge formats x 3 password hashes; digits/hash rotate): every field alone at EVERY length 0..140, nil, and 24 lengths far above the limits that alias admissible lengths modulo 2^8 / 2^16 (264, 276, 288, 320, 384, 65544, ...), others valid, observed at OCRAInput.Validate + GenerateOCRA + ValidateOCRA (error kind), field contents rotating over 20 kinds (byte patterns, ASCII digits / letters / hex / base32, blanks, NUL, valid UTF-8 of 2-/3-/4-byte characters, invalid UTF-8, a zero sign byte before a high-bit value, DER-looking prefixes, zero-wrapped values), one representative suite in eight with a suite-string text of 41..600 bytes and one in eight with none at all (admission must not depend on the length of the assembled message); every pair of fields at lengths from the boundary set {0,1,7..11,19..21,31..33,63..65,127..129,140}^2 (quick) or the full 0..140 x 0..140 square (thorough) at OCRAInput.Validate, boundary pairs also through GenerateOCRA/ValidateOCRA; oracle: independent predicate written from the statement; every (suite, lengths) tuple is distinct",
	checkC14In)

func repSuites() []ref.OCRACfg {
	var out []ref.OCRACfg
	i := 0
	for mask := 0; mask < 32; mask++ {
		for qf := 1; qf <= 6; qf++ {
			for ph := 1; ph <= 3; ph++ {
				i++
				raw := fmt.Sprintf("rep-%d", i)
				if i%8 == 3 {
					raw = "" // a hand-built suite without a name (what the REST service builds from a structured suite)
				}
				if i%8 == 0 {
					raw = strings.Repeat("OCRA-1:HOTP-SHA512-8:C-QN10-PSHA512-S064-T1M/", 14)[:[]int{41, 42, 64, 100, 200, 378, 600}[(i/8)%7]]
				}
				out = append(out, ref.OCRACfg{Raw: raw, Hash: i % 3, Digits: 4 + i%7, C: mask&1 != 0, Q: mask&2 != 0, P: mask&4 != 0, S: mask&8 != 0, T: mask&16 != 0,
					QFormat: qf, PHash: ph, TimeStep: 1 + i%60, SessionNN: -1})
			}
		}
	}
	return out
}

// bigLens: lengths above the enumerated 0..140 range, chosen to alias admissible lengths under
// 8-bit or 16-bit truncation (256+8, 256+20, 256+32, 256+64, 256+128, 65536+8, ...).
var bigLens = []int{141, 200, 255, 256, 257, 263, 264, 265, 266, 276, 288, 320, 383, 384, 385, 512, 520, 1024, 65536, 65544, 65556, 65568, 65600, 65664}

func validLens(c ref.OCRACfg) [5]int {
	return [5]int{8, ref.QMin(c.QFormat) + 3, ref.PLen(c.PHash), 17, 8}
}

func TestC14_Admission(t *testing.T) {
	rec := c14In.rec()
	defer rec.Flush()
	var nSingle, nPair, nPairFull int64
	try := func(c c14InCase) {
		if v := c14In.safe(c); v.Err != nil {
			c14In.each(t, c)
		}
	}
	var s1, s2 c14InCase
	for i, cfg := range repSuites() {
		if !ev.Mine(i) {
			continue
		}
		base := validLens(cfg)
		// single-field sweep, every length and nil, all three observation points
		for f := 0; f < 5; f++ {
			for li := -1; li <= 140+len(bigLens); li++ {
				l := li
				if li > 140 { // far beyond every limit: lengths that alias admissible ones modulo 2^8 / 2^16
					l = bigLens[li-141]
				}
				lens := base
				lens[f] = l
				c := c14InCase{Cfg: cfg, Lens: lens, Full: true, Fill: byte(i + l), Sweep: "single"}
				try(c)
				nSingle++
				if l == 129 && f == 1 && cfg.Q {
					s1 = c
				}
			}
		}
		// pairs
		ls := lenBoundaries
		if ev.Thorough() {
			ls = make([]int, 141)
			for k := range ls {
				ls[k] = k
			}
		}
		for f := 0; f < 5; f++ {
			for g := f + 1; g < 5; g++ {
				for _, a := range ls {
					for _, b := range ls {
						lens := base
						lens[f], lens[g] = a, b
						try(c14InCase{Cfg: cfg, Lens: lens, Fill: byte(a ^ b), Sweep: "pair"})
						nPair++
					}
				}
				for _, a := range lenBoundaries {
					for _, b := range lenBoundaries {
						if (a*7+b+i)%16 != 0 && !ev.Thorough() {
							continue
						}
						lens := base
						lens[f], lens[g] = a, b
						c := c14InCase{Cfg: cfg, Lens: lens, Full: true, Fill: byte(a + b), Sweep: "pair-full"}
						try(c)
						nPairFull++
						s2 = c
					}
				}
			}
		}
	}
	rec.CountOnly(nSingle, "single-field sweep (Validate+Generate+ValidateOCRA)", s1)
	rec.CountOnly(nPair, "pair sweep (Validate)", nil)
	rec.CountOnly(nPairFull, "pair boundary sweep (Validate+Generate+ValidateOCRA)", s2)
	rec.Exhaustive()
}

// Admission for suites obtained from suite STRINGS (the parser fills the configuration): the session token may carry a
// length (S064, S256 ...) and the challenge token a format; the field rules of the statement are the same for them.
type c14ParsedCase struct {
	Name string `json:"name"`
	Lens [5]int `json:"lens"`
	Fill byte   `json:"fill"`
}

var c14Parsed = newPart("C14", "admission-parsed",
	"enumeration: unregistered suite strings OCRA-1:HOTP-SHA1-6:[C-]QN08|QN10[-PSHA1][-S|S000|S001|S064|S127|S128|S129|S256|S512|S999][-T1M] instantiated by NewRawSuite x every session length 0..140 and 200, 256, 257, 512, 513, 600, 1000 (other fields valid), and every challenge length 0..140; observed at OCRAInput.Validate(suite.Config()), GenerateOCRA and ValidateOCRA (correct code accepted iff admissible); oracle: the admission predicate on the configuration the independent name reader gives; every case distinct",
	func(c c14ParsedCase) verdict {
		rd, cls := ref.ReadSuite(c.Name, false)
		su, err := otp.NewRawSuite(c.Name)
		if err != nil || cls == ref.Malformed {
			return ok(false, "suite-not-instantiated")
		}
		in := ref.OCRAIn{C: mk(c.Lens[0], c.Fill), Q: mk(c.Lens[1], c.Fill+1), P: mk(c.Lens[2], c.Fill+2), S: mk(c.Lens[3], c.Fill+3), T: mk(c.Lens[4], c.Fill+4)}
		want := ref.Admissible(rd.Cfg, in)
		labels := []string{fmt.Sprintf("admissible=%v", want)}
		li := toLibIn(in)
		if e := li.Validate(su.Config()); (e == nil) != want {
			return bad(true, labels, "OCRAInput.Validate: suite %s lengths C,Q,P,S,T=%v: admissible by the rule = %v, library says %v", c.Name, c.Lens, want, e)
		}
		code, gerr := otp.GenerateOCRA(c14Secret, su, li)
		if (gerr == nil) != want {
			return bad(true, labels, "GenerateOCRA: suite %s lengths %v: admissible = %v, library returned (%q, %v)", c.Name, c.Lens, want, code, gerr)
		}
		if want {
			if okk, verr := otp.ValidateOCRA(c14Secret, code, su, li); !okk || verr != nil {
				return bad(true, labels, "ValidateOCRA: suite %s, admissible input, the generated code %s answered (%v, %v)", c.Name, code, okk, verr)
			}
		} else if okk, verr := otp.ValidateOCRA(c14Secret, "000000", su, li); okk || verr == nil {
			return bad(true, labels, "ValidateOCRA: suite %s, inadmissible input (lengths %v) answered (%v, %v)", c.Name, c.Lens, okk, verr)
		}
		return ok(true, labels...)
	})

func TestC14_AdmissionParsed(t *testing.T) {
	defer c14Parsed.rec().Flush()
	i := 0
	for _, cTok := range []string{"", "C-"} {
		for _, q := range []string{"QN08", "QN10"} {
			for _, pTok := range []string{"", "-PSHA1"} {
				for _, sTok := range []string{"", "-S", "-S000", "-S001", "-S064", "-S127", "-S128", "-S129", "-S256", "-S512", "-S999"} {
					for _, tTok := range []string{"", "-T1M"} {
						name := "OCRA-1:HOTP-SHA1-6:" + cTok + q + pTok + sTok + tTok
						i++
						if !ev.Mine(i) {
							continue
						}
						valid := [5]int{8, 10, 20, 5, 8}
						for _, l := range append(seq(0, 140), 200, 256, 257, 512, 513, 600, 1000) {
							lens := valid
							lens[3] = l
							c14Parsed.each(t, c14ParsedCase{Name: name, Lens: lens, Fill: byte(i + l)})
						}
						for l := 0; l <= 140; l++ {
							lens := valid
							lens[1] = l
							c14Parsed.each(t, c14ParsedCase{Name: name, Lens: lens, Fill: byte(i + l + 5)})
						}
					}
				}
			}
		}
	}
	c14Parsed.rec().Exhaustive()
}

func seq(lo, hi int) []int {
	var out []int
	for v := lo; v <= hi; v++ {
		out = append(out, v)
	}
	return out
}

// (d) password presence under a password-hash value outside the three listed ones.
//
// PasswordHashAlgorithm is an int: a hand-built configuration can carry 4, 7, -1. Whether such a suite is usable and
// which lengths it admits is not pinned by the statement (unclassified); that a selected password must be PRESENT is:
// an absent (nil or empty) password is never admitted when the suite selects the password.
type c14OddPCase struct {
	Cfg    ref.OCRACfg `json:"cfg"`
	PLen   int         `json:"p_len"` // -1 nil, 0 empty
	OddP   int         `json:"odd_password_hash"`
	Others [4]int      `json:"other_lens"`
}

func checkC14OddP(c c14OddPCase) verdict {
	lc := toLib(c.Cfg)
	lc.PasswordHash = otp.PasswordHashAlgorithm(c.OddP)
	in := otp.OCRAInput{Counter: mk(c.Others[0], 1), Challenge: mk(c.Others[1], 2), Password: mk(c.PLen, 3), SessionInfo: mk(c.Others[2], 4), Timestamp: mk(c.Others[3], 5)}
	labels := []string{fmt.Sprintf("password_hash=%d", c.OddP), fmt.Sprintf("p_len=%d", c.PLen)}
	if lc.Validate() != nil {
		labels = append(labels, "suite-refused")
	}
	if e := in.Validate(lc); e == nil {
		return bad(true, labels, "OCRAInput.Validate admits an absent password (len %d) for a suite that selects the password (password hash value %d): %+v", c.PLen, c.OddP, lc)
	}
	if code, err := otp.GenerateOCRA(c14Secret, lc, in); err == nil {
		return bad(true, labels, "GenerateOCRA returned %q with an absent password (len %d) for a suite that selects the password (password hash value %d): %+v", code, c.PLen, c.OddP, lc)
	}
	for _, code := range []string{"0000000000"[:c.Cfg.Digits], "1234567890"[:c.Cfg.Digits]} {
		if okk, err := otp.ValidateOCRA(c14Secret, code, lc, in); okk || err == nil {
			return bad(true, labels, "ValidateOCRA answered (%v, %v) with an absent password for a suite that selects the password (password hash value %d)", okk, err, c.OddP)
		}
	}
	return ok(true, labels...)
}

var c14OddP = newPart("C14", "password-presence-odd-hash",
	"complete: the 16 field subsets containing P x 3 challenge formats x password-hash values {-1,4,5,7,255,2^31} (outside the listed 1..3) x password {nil, empty} with all other selected fields admissible; oracle (one-directional, from 'the password hash is present'): OCRAInput.Validate, GenerateOCRA and ValidateOCRA never admit the absent password; usability of such a suite and admitted lengths of a present password are unclassified; every case distinct",
	checkC14OddP)

func TestC14_PasswordPresenceOddHash(t *testing.T) {
	rec := c14OddP.rec()
	defer rec.Flush()
	i := 0
	for mask := 0; mask < 32; mask++ {
		if mask&4 == 0 {
			continue
		}
		for _, qf := range []int{1, 3, 6} {
			for _, odd := range []int{-1, 4, 5, 7, 255, 1 << 31} {
				for _, pl := range []int{-1, 0} {
					i++
					if !ev.Mine(i) {
						continue
					}
					cfg := ref.OCRACfg{Raw: "x", Hash: i % 3, Digits: 4 + i%7, C: mask&1 != 0, Q: mask&2 != 0, P: true, S: mask&8 != 0, T: mask&16 != 0, QFormat: qf, PHash: 1, TimeStep: 30, SessionNN: -1}
					c14OddP.each(t, c14OddPCase{Cfg: cfg, PLen: pl, OddP: odd, Others: [4]int{8, ref.QMin(qf) + 2, 11, 8}})
				}
			}
		}
	}
	rec.Exhaustive()
}
