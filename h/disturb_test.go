package verifh

import (
	"net/url"
	"strings"
	"time"

	otp "github.com/ja7ad/otp"
	"pgregory.net/rapid"

	"verifh/ref"
)

// disturb runs one operation of ANOTHER family immediately before the call under observation (kind 0 = nothing). The
// per-input properties quantify over inputs, but what an input is answered with may silently depend on what the process did
// just before: one scratch buffer shared by the HOTP and the OCRA derivation, a parameter object left behind by the URL
// builder, a parser's memo. The oracle of the observed call does not change — only the state it starts from.
func disturb(kind int, secretText ...string) {
	if kind == 0 {
		return
	}
	// what these calls return or whether they panic is not this check's business (MustHexPadLeft may panic by contract)
	defer func() { _ = recover() }()
	const sec = "GEZDGNBVGY3TQOJQGEZDGNBVGY3TQOJQ"
	q := make([]byte, 128)
	for i := range q {
		q[i] = byte(0xC0 + i%7)
	}
	switch kind {
	case 1: // an OCRA derivation whose message (suite text, challenge, session) is longer than 256 bytes
		if s, err := otp.NewRawSuite("OCRA-1:HOTP-SHA1-6:QN08-S064"); err == nil {
			otp.GenerateOCRA(sec, s, otp.OCRAInput{Challenge: q[:20], SessionInfo: q[:100]})
		}
	case 2: // the longest message: all five fields, SHA-512 password
		cfg := toLib(ref.OCRACfg{Raw: "OCRA-1:HOTP-SHA512-10:C-QN08-PSHA512-S128-T1M", Hash: 2, Digits: 10, C: true, Q: true, P: true, S: true, T: true, QFormat: 1, PHash: 3, TimeStep: 60})
		otp.ValidateOCRA(sec, "0000000000", cfg, otp.OCRAInput{Counter: q[:8], Challenge: q, Password: q[:64], SessionInfo: q, Timestamp: q[:8]})
	case 3: // secrets and provisioning URLs
		otp.RandomSecret(otp.SHA512)
		if u, err := otp.GenerateTOTPURL(otp.URLParam{Issuer: "Iss uer", AccountName: "a@b", Secret: sec, Period: 60, Digits: 8, Algorithm: otp.SHA256}); err == nil && u != nil {
			if pu, perr := url.Parse(u.String()); perr == nil {
				otp.ParseOTPAuthURL(pu)
			}
		}
	case 4: // the other derivation family with the largest hash and a key longer than its block
		otp.GenerateTOTP(string(append([]byte(sec+sec+sec+sec+sec+sec+sec), "GEZDGNBV"...)), time.Unix(1<<40, 0), &otp.Param{Digits: 10, Period: 7, Algorithm: otp.SHA512})
		otp.ValidateHOTP(sec, "99999999", 1<<63, &otp.Param{Digits: 8, Skew: 10, Algorithm: otp.SHA256})
	case 5: // the input helpers
		otp.ParseDecimalChallengeRFC6287("98765432109876543210987654321098765432")
		otp.HexInputToOCRA("0000000000000005", "abcdef0123", "7110eda4d09e062aa5e4a390b0a572ac0d2c0220", "00ff", "132d0b6")
		otp.MustHexPadLeft("ABC", 4)
		otp.ParseHexTimestamp("132d0b6")
	case 6: // calls that fail: an undecodable secret, unsupported parameters, an inadmissible input, a malformed suite
		otp.GenerateHOTP("not base32!", 1, nil)
		otp.GenerateHOTP(sec, 1, &otp.Param{Digits: 11, Algorithm: 7})
		otp.ValidateTOTP(sec, "123456", time.Unix(59, 0), &otp.Param{Digits: 6, Period: 30, Skew: 11})
		otp.NewRawSuite("OCRA-1:HOTP-SHA1-6:C-QN08-PSHA1-S064-T30S-X")
		if s, err := otp.NewRawSuite("OCRA-1:HOTP-SHA256-8:C-QN08-PSHA1"); err == nil {
			otp.GenerateOCRA(sec, s, otp.OCRAInput{Counter: q[:7], Challenge: q[:3], Password: q[:19]})
		}
	case 8: // what a careful caller does with key material: decode the very secret that is about to be used, use it, wipe it
		for _, t := range secretText {
			for _, v := range []string{t, strings.ToLower(t), " " + t + "\n"} {
				if k, err := otp.DecodeSecret(v); err == nil {
					for i := range k {
						k[i] = 0
					}
					full := k[:cap(k)]
					for i := len(k); i < len(full); i++ {
						full[i] = 0xEE
					}
				}
			}
		}
	case 7: // a long, parseable, unregistered suite string and the registry functions
		otp.NewRawSuite("OCRA-1:HOTP-SHA1-6:C-C-C-C-C-C-C-C-C-C-C-C-C-C-C-C-C-C-C-C-C-C-C-C-C-C-C-C-C-C-QN08")
		otp.IsKnownSuite("OCRA-1:HOTP-SHA512-8:QN08-T1M")
		otp.SuiteConfigFromRaws("OCRA-1:HOTP-SHA1-6:QN08")
		otp.ListSuites()
	}
}

const disturbKinds = 8

// drawDisturb: nothing in five cases of six.
func drawDisturb(t *rapid.T) int {
	if rapid.IntRange(0, 5).Draw(t, "beforeAny") != 0 {
		return 0
	}
	return rapid.IntRange(1, disturbKinds).Draw(t, "before")
}
