//go:build verif

package verifh

import (
	"crypto/sha256"
	"fmt"
	"net/url"
	"os"
	"runtime"
	"strings"
	"sync"
	"sync/atomic"
	"testing"
	"time"

	otp "github.com/ja7ad/otp"
	"pgregory.net/rapid"

	"verifh/ev"
	"verifh/gen"
	"verifh/ref"
)

// ---------------------------------------------------------------------------
// C11 — results depend only on arguments, under any concurrency and call history.

type c11Op struct {
	Kind    string      `json:"kind"` // hotp-gen hotp-val totp-gen totp-val ocra-gen ocra-val lookup url gc adversary
	Key     []byte      `json:"key,omitempty"`
	Counter uint64      `json:"counter,omitempty"` // HOTP counter / TOTP unix seconds
	Digits  int         `json:"digits,omitempty"`
	Algo    int         `json:"algo,omitempty"`
	Skew    int         `json:"skew,omitempty"`
	Dist    int         `json:"dist,omitempty"` // validation: submit the code at this distance
	Cfg     ref.OCRACfg `json:"cfg"`
	Reg     string      `json:"reg,omitempty"` // registered suite name (overrides Cfg)
	In      ref.OCRAIn  `json:"in"`
	Text    string      `json:"text,omitempty"`
	// Shared != 0: the *Param handed to the call is ONE struct shared by every call of the script with the same settings
	// (callers keep a configuration and pass its address from all goroutines); 2 = its Period is 0, which means 30
	Shared int `json:"shared_param,omitempty"`
}

type c11ParamKey struct{ d, a, s, shared int }

// c11Params holds the shared parameter structs of the script that is running; every script starts with fresh ones.
var c11Params sync.Map

func resetSharedParams() {
	c11Params.Range(func(k, _ any) bool { c11Params.Delete(k); return true })
}

func sharedParam(o c11Op) *otp.Param {
	k := c11ParamKey{o.Digits, o.Algo, o.Skew, o.Shared}
	per := uint(30)
	if o.Shared == 2 {
		per = 0
	}
	v, _ := c11Params.LoadOrStore(k, &otp.Param{Digits: otp.Digits(o.Digits), Algorithm: otp.Algorithm(o.Algo), Period: per, Skew: uint(o.Skew)})
	return v.(*otp.Param)
}

type c11Res struct {
	S   string
	B   bool
	Err bool
}

func (r c11Res) String() string { return fmt.Sprintf("(%q, %v, err=%v)", r.S, r.B, r.Err) }

func (o c11Op) suite() (otp.Suite, ref.OCRACfg) {
	if o.Reg != "" {
		s, _ := otp.NewRawSuite(o.Reg) // registered name or parsed suite string (any spelling)
		rd, _ := ref.ReadSuite(o.Reg, true)
		return s, rd.Cfg
	}
	return toLib(o.Cfg), o.Cfg
}

// expect is the result of the operation when called alone, from the reference
// (for lookups and URLs: from the library itself, called sequentially beforehand).
func (o c11Op) expect() c11Res {
	switch o.Kind {
	case "hotp-gen":
		return c11Res{S: ref.MustHOTP(o.Key, o.Counter, o.Digits, o.Algo)}
	case "totp-gen":
		return c11Res{S: ref.MustHOTP(o.Key, o.Counter/30, o.Digits, o.Algo)}
	case "hotp-val", "totp-val":
		centre := o.Counter
		if o.Kind == "totp-val" {
			centre /= 30
		}
		code := ref.MustHOTP(o.Key, centre+uint64(int64(o.Dist)), o.Digits, o.Algo)
		_, in := windowSet(o.Key, centre, uint64(o.Skew), o.Digits, o.Algo)[code]
		return c11Res{B: in, Err: !in}
	case "ocra-gen":
		_, cfg := o.suite()
		s, err := ref.OCRA(o.Key, cfg, o.In)
		return c11Res{S: s, Err: err != nil}
	case "ocra-val":
		_, cfg := o.suite()
		s, err := ref.OCRA(o.Key, cfg, o.In)
		if err != nil {
			return c11Res{Err: true}
		}
		if o.Dist != 0 { // wrong code
			return c11Res{B: false, Err: true}
		}
		_ = s
		return c11Res{B: true}
	case "lookup", "url", "hotp-url", "helpers", "list":
		return o.run()
	case "bad-suite": // no code can come out of a suite that is not there; the call fails (the caller recovers if it panics)
		return c11Res{Err: true}
	case "hotp-err", "totp-err", "ocra-err": // failing calls: an error and nothing else, whatever happened before
		return c11Res{Err: true}
	case "fresh-enum":
		// the reference must not be taken beforehand (that would be the first use): the checks compare with the result of
		// the same call made alone AFTERWARDS
		return postHoc
	}
	return c11Res{}
}

// brokenSuite implements otp.Suite with methods that panic (an application type that is used before it is initialised)
type brokenSuite struct{ m map[string]int }

func (b brokenSuite) Config() otp.SuiteConfig { panic("brokenSuite: Config of an uninitialised suite") }
func (b brokenSuite) String() string          { panic("brokenSuite: String of an uninitialised suite") }
func (b brokenSuite) Validate() error         { panic("brokenSuite: Validate of an uninitialised suite") }

var postHoc = c11Res{S: "\x00reference-taken-afterwards"}

func (o c11Op) run() c11Res {
	secret := ref.B32(o.Key)
	p := &otp.Param{Digits: otp.Digits(o.Digits), Algorithm: otp.Algorithm(o.Algo), Period: 30, Skew: uint(o.Skew)}
	if o.Shared != 0 {
		p = sharedParam(o)
	}
	switch o.Kind {
	case "hotp-gen":
		s, err := otp.GenerateHOTP(secret, o.Counter, p)
		return c11Res{S: s, Err: err != nil}
	case "totp-gen":
		s, err := otp.GenerateTOTP(secret, time.Unix(int64(o.Counter), 0), p)
		return c11Res{S: s, Err: err != nil}
	case "hotp-val":
		code := ref.MustHOTP(o.Key, o.Counter+uint64(int64(o.Dist)), o.Digits, o.Algo)
		b, err := otp.ValidateHOTP(secret, code, o.Counter, p)
		return c11Res{B: b, Err: err != nil}
	case "totp-val":
		code := ref.MustHOTP(o.Key, o.Counter/30+uint64(int64(o.Dist)), o.Digits, o.Algo)
		b, err := otp.ValidateTOTP(secret, code, time.Unix(int64(o.Counter), 0), p)
		return c11Res{B: b, Err: err != nil}
	case "ocra-gen":
		su, _ := o.suite()
		s, err := otp.GenerateOCRA(secret, su, toLibIn(o.In))
		return c11Res{S: s, Err: err != nil}
	case "ocra-val":
		su, cfg := o.suite()
		code, _ := ref.OCRA(o.Key, cfg, o.In)
		if o.Dist != 0 && code != "" {
			b := []byte(code)
			b[len(b)-1] = '0' + (b[len(b)-1]-'0'+1)%10
			code = string(b)
		}
		okk, err := otp.ValidateOCRA(secret, code, su, toLibIn(o.In))
		return c11Res{B: okk, Err: err != nil}
	case "bad-suite":
		// an OCRA call with a Suite that cannot be used at all: the nil interface, a nil *RawSuite, an implementation of the
		// interface whose methods panic. The pinned tree panics in such a call; a caller that recovers (every server does)
		// goes on using the library, and whatever the call did before it failed must not show in later calls.
		var su otp.Suite
		switch o.Skew & 3 {
		case 1:
			su = (*otp.RawSuite)(nil)
		case 2:
			su = brokenSuite{}
		case 3:
			su = (*brokenSuite)(nil)
		}
		res := c11Res{Err: true}
		func() {
			defer func() { _ = recover() }()
			if o.Dist <= 0 {
				s, err := otp.GenerateOCRA(secret, su, toLibIn(o.In))
				res = c11Res{S: s, Err: err != nil}
			} else {
				b, err := otp.ValidateOCRA(secret, "123456", su, toLibIn(o.In))
				res = c11Res{B: b, Err: err != nil}
			}
		}()
		return res
	case "hotp-err":
		// Dist selects how the call is made to fail: undecodable secret (4 shapes), unsupported digits, unsupported hash
		switch {
		case o.Dist >= 2:
			s, err := otp.GenerateHOTP(corrupt(secret+"AAAAAAAA", int(o.Counter%97)), o.Counter, p)
			return c11Res{S: s, Err: err != nil}
		case o.Dist >= 0:
			s, err := otp.GenerateHOTP(secret, o.Counter, &otp.Param{Digits: otp.Digits(11 + o.Skew), Algorithm: otp.Algorithm(o.Algo)})
			return c11Res{S: s, Err: err != nil}
		default:
			b, err := otp.ValidateHOTP(secret, "123456", o.Counter, &otp.Param{Digits: 6, Algorithm: otp.Algorithm(3 + o.Algo), Skew: 1})
			return c11Res{B: b, Err: err != nil}
		}
	case "totp-err":
		b, err := otp.ValidateTOTP(corrupt(secret+"AAAAAAAA", int(o.Counter%89)), "123456", time.Unix(int64(o.Counter), 0), p)
		return c11Res{B: b, Err: err != nil}
	case "ocra-err":
		su, cfg := o.suite()
		in := o.In
		switch { // break one selected field (which one rotates with the operation's numbers), or use an undecodable secret
		case cfg.P && (o.Digits+o.Algo)%2 == 0:
			// a password that is not a digest of the suite's hash: a raw PIN, a digest of another size
			in.P = append([]byte("raw-pin-"), o.Key...)
			if len(in.P) == ref.PLen(cfg.PHash) {
				in.P = in.P[:len(in.P)-1]
			}
		case cfg.S && (o.Digits+o.Algo)%3 == 0:
			in.S = make([]byte, 129+o.Skew)
		case cfg.Q:
			in.Q = make([]byte, 129+o.Skew)
		case cfg.C:
			in.C = in.C[:7]
		case cfg.T:
			in.T = nil
		default:
			s, err := otp.GenerateOCRA("!"+secret, su, toLibIn(in))
			return c11Res{S: s, Err: err != nil}
		}
		if o.Dist == 0 {
			s, err := otp.GenerateOCRA(secret, su, toLibIn(in))
			return c11Res{S: s, Err: err != nil}
		}
		b, err := otp.ValidateOCRA(secret, "000000", su, toLibIn(in))
		return c11Res{B: b, Err: err != nil}
	case "lookup":
		su, err := otp.NewRawSuite(o.Text)
		s := fmt.Sprintf("%v|%+v", otp.IsKnownSuite(o.Text), otp.SuiteConfigFromRaws(o.Text))
		if err == nil {
			s += fmt.Sprintf("|%+v|%s", su.Config(), su.String())
		}
		return c11Res{S: s, Err: err != nil}
	case "helpers":
		// the input helpers and the small conversions, all on values derived from the operation's own arguments
		dec, hx := fmt.Sprint(o.Counter), fmt.Sprintf("%x", o.Counter)
		a, e1 := otp.ParseDecimalToBigEndian8(dec)
		b, e2 := otp.ParseDecimalChallengeRFC6287(dec)
		c := otp.To8ByteBigEndian(o.Counter)
		d, e3 := otp.ParseHexTimestamp(hx)
		e := otp.LeftPadHex(hx, 16+o.Digits)
		f, e4 := otp.ParseDecimal64BigEndian(dec)
		in, e5 := otp.HexInputToOCRA(fmt.Sprintf("%016x", o.Counter), fmt.Sprintf("%x", o.Key), fmt.Sprintf("%040x", o.Counter), hx+"00", hx)
		k, e6 := otp.DecodeSecret(strings.ToLower(secret))
		// a long question (the number written three times over: 3..60 digits, beyond any machine word) and a long hex timestamp
		long := "1" + dec + dec + dec
		b2, e7 := otp.ParseDecimalChallengeRFC6287(long)
		// and a question far beyond 128 bytes (310..330 digits): whatever the helper answers for it — an error, a long slice —
		// it answers the same whenever it is asked (a constant used as scratch by arbitrary-precision arithmetic is not one)
		huge := strings.Repeat("9"+dec, 340/(len(dec)+1)+1)[:310+int(o.Counter%21)]
		b3, e8 := otp.ParseDecimalChallengeRFC6287(huge)
		hs := sha256.Sum256(b3)
		res := c11Res{S: fmt.Sprintf("%d:%x %v|%x %v|%x %v|%x %v|%x|%x %v|%s|%x %v|%x %x %x %x %x %v|%x %v|%s %d %d", len(b3), hs[:8], e8 != nil, a, e1, b, e2, b2, e7, c, d, e3, e, f, e4,
			in.Counter, in.Challenge, in.Password, in.SessionInfo, in.Timestamp, e5, k, e6,
			otp.AlgorithmFromStr(otp.Algorithm(o.Algo).String()).String(), otp.DigitsFromStr(fmt.Sprint(o.Digits)).Int(), otp.Digits(o.Digits).Int())}
		// the slices are the caller's now: it wipes them (a decoded key after use). Nothing another call computes may change —
		// other operations of the history use the same secret text
		for _, sl := range [][]byte{a, b, b2, c, d, f, in.Counter, in.Challenge, in.Password, in.SessionInfo, in.Timestamp, k} {
			for i := range sl {
				sl[i] = 0
			}
		}
		return res
	case "list":
		l := otp.ListSuites()
		sortStrings(l)
		if len(l) == 0 {
			return c11Res{Err: true}
		}
		pick := l[int(o.Counter%uint64(len(l)))]
		su, err := otp.NewRawSuite(pick)
		if err != nil {
			return c11Res{S: pick, Err: true}
		}
		return c11Res{S: fmt.Sprintf("%d|%s|%+v|%s|%v", len(l), strings.Join(l, ","), su.Config(), su.String(), otp.IsKnownSuite(pick))}
	case "fresh-enum":
		// an enumeration value outside the supported ones that this process has not rendered before (o.Algo is handed out
		// by a process-wide counter): whatever the library keeps about names of values it meets for the first time is
		// written now — with other goroutines in the same code at the same time
		a := otp.Algorithm(o.Algo)
		s1 := a.String()
		s2 := fmt.Sprintf("%v|%s", a, fmt.Sprint(otp.Digits(o.Algo).Int()))
		u, e1 := otp.GenerateHOTPURL(otp.URLParam{Issuer: "I", AccountName: "a", Secret: secret, Algorithm: a})
		us := ""
		if u != nil {
			us = u.String()
		}
		cfg := otp.SuiteConfig{Raw: "x", Hash: a, Digits: 6, Challenge: otp.ChallengeNumeric08, IncludeChallenge: true}
		e2 := cfg.Validate()
		_, e3 := otp.GenerateOCRA(secret, cfg, otp.OCRAInput{Challenge: []byte("12345678")})
		_, e4 := otp.GenerateHOTP(secret, 1, &otp.Param{Digits: 6, Algorithm: a})
		return c11Res{S: fmt.Sprintf("%s|%s|%s|%v|%v|%v|%v", s1, s2, us, e1, e2, e3, e4)}
	case "url", "hotp-url":
		up := otp.URLParam{Issuer: "I " + o.Text, AccountName: o.Text, Secret: secret, Digits: otp.Digits(o.Digits), Algorithm: otp.Algorithm(o.Algo), Period: uint(o.Skew) * 7}
		gen := otp.GenerateTOTPURL
		if o.Kind == "hotp-url" {
			gen = otp.GenerateHOTPURL
		}
		u, err := gen(up)
		if err != nil {
			return c11Res{Err: true}
		}
		u2, _ := url.Parse(u.String())
		pp, err := otp.ParseOTPAuthURL(u2)
		if err != nil {
			return c11Res{S: u.String(), Err: true}
		}
		return c11Res{S: u.String() + fmt.Sprintf("|%+v", *pp)}
	}
	return c11Res{}
}

// adversary takes buffers from both library pools, overwrites their whole
// capacity and returns them, and also donates fresh poisoned buffers.
func adversary(n int) {
	p4, p6 := otp.VerifPools()
	var a []*[8]byte
	var b []*[]byte
	for i := 0; i < n; i++ {
		if x, okk := p4.Get().(*[8]byte); okk && x != nil {
			for k := range x {
				x[k] = 0xA5
			}
			a = append(a, x)
		}
		if y, okk := p6.Get().(*[]byte); okk && y != nil {
			full := (*y)[:cap(*y)]
			for k := range full {
				full[k] = 0xA5
			}
			b = append(b, y)
		}
	}
	for _, x := range a {
		p4.Put(x)
	}
	for _, y := range b {
		p6.Put(y)
	}
	fresh := new([8]byte)
	for k := range fresh {
		fresh[k] = 0x5A
	}
	p4.Put(fresh)
	fb := make([]byte, 256)
	for k := range fb {
		fb[k] = 0x5A
	}
	fb = fb[:0]
	p6.Put(&fb)
}

// arena lays the byte fields of all OCRA operations out as consecutive windows of ONE buffer, so that every field
// has the other calls' data (and spare room) behind its length, as when an application slices its inputs out of a
// batch or a network buffer. Expected values are computed from the same bytes; a callee that writes behind a field's
// length changes a neighbour's input (a wrong result) and, under concurrency, races with the neighbour's reads.
func arena(progs [][]c11Op) [][]c11Op {
	total := 256
	for _, prog := range progs {
		for _, o := range prog {
			total += len(o.In.C) + len(o.In.Q) + len(o.In.P) + len(o.In.S) + len(o.In.T)
		}
	}
	buf := make([]byte, 0, total)
	place := func(b []byte) []byte {
		if b == nil {
			return nil
		}
		off := len(buf)
		buf = append(buf, b...)
		return buf[off:len(buf):cap(buf)]
	}
	out := make([][]c11Op, len(progs))
	for g, prog := range progs {
		out[g] = make([]c11Op, len(prog))
		for i, o := range prog {
			o.In = ref.OCRAIn{C: place(o.In.C), Q: place(o.In.Q), P: place(o.In.P), S: place(o.In.S), T: place(o.In.T)}
			out[g][i] = o
		}
	}
	return out
}

type kept struct{ got, clone, what string }

// (a) sequential histories with adversary and GC --------------------------------

type c11SeqCase struct {
	Ops   []c11Op `json:"ops"`
	Arena bool    `json:"arena,omitempty"` // OCRA byte fields are windows of one shared buffer
}

func checkC11Seq(c c11SeqCase) verdict {
	var retained []kept
	labels := []string{}
	kinds := map[string]bool{}
	hostile := false
	afterBroken := false
	ops := c.Ops
	if c.Arena {
		ops = arena([][]c11Op{c.Ops})[0]
		labels = append(labels, "arena")
	}
	for i, o := range ops {
		kinds[o.Kind] = true
		switch o.Kind {
		case "gc":
			runtime.GC()
			runtime.GC()
			hostile = true
		case "adversary":
			adversary(1 + o.Skew)
			hostile = true
		default:
			want := o.expect()
			var got c11Res
			if afterBroken {
				// after a call that failed half-way every later call runs under a watchdog: "returns what it returns alone"
				// includes returning at all
				if !bounded(func() { got = o.run() }, 10*time.Second) {
					hang("C11", "sequential-adversary", c, recorders["C11/sequential-adversary"], fmt.Sprintf("step %d (%s), after an OCRA call with an unusable Suite earlier in the history, did not return within 10 s and again within 20 s; alone it returns at once", i, o.Kind))
				}
			} else {
				got = o.run()
			}
			afterBroken = afterBroken || o.Kind == "bad-suite"
			if want == postHoc {
				want = o.run()
			}
			if got != want {
				return bad(true, labels, "step %d (%s): got %v, alone it returns %v (history of %d earlier calls)", i, o.Kind, got, want, i)
			}
			if got.S != "" {
				retained = append(retained, kept{got.S, strings.Clone(got.S), fmt.Sprintf("result of step %d (%s)", i, o.Kind)})
			}
		}
		for _, r := range retained {
			if r.got != r.clone {
				return bad(true, labels, "the %s changed after it was returned: %q -> %q (after step %d, %s)", r.what, r.clone, r.got, i, o.Kind)
			}
		}
	}
	for k := range kinds {
		labels = append(labels, "has="+k)
	}
	return ok(hostile && len(kinds) >= 3, labels...)
}

var c11Seq = newPart("C11", "sequential-adversary",
	"rapid: sequential histories of 1..50 mixed calls (HOTP/TOTP/OCRA generation and validation, keys of 1..40 bytes and on both sides of the hash block sizes 64 / 128, OCRA messages below and above the 256-byte pooled buffer, suite lookups, URL generation+parsing) and FAILING calls (undecodable secrets in four shapes, unsupported digits / hash, inadmissible OCRA inputs: an error and nothing else is expected, and later calls must be unaffected; OCRA calls with a Suite that cannot be used at all - nil interface, nil pointer, an implementation whose methods panic - from which the caller recovers: every later call runs under a watchdog and must return what it returns alone), in a third of the histories with all OCRA byte fields laid out as consecutive windows of one shared buffer (spare room and the other calls' data behind every field), interleaved with double garbage collections (emptying the pools and their victim caches) and an adversary that Gets buffers from both library pools through the verif hook, overwrites their full capacity, Puts them back and donates poisoned fresh buffers; invariant after every step: the result equals the reference value for the arguments alone, and every result string ever returned is still byte-identical to an independent copy; non-trivial = history with adversary or GC steps and >= 3 kinds of operation",
	checkC11Seq)

func drawC11Op(t *rapid.T, allowHostile bool) c11Op {
	kinds := []string{"hotp-gen", "hotp-gen", "hotp-val", "totp-gen", "totp-val", "ocra-gen", "ocra-gen", "ocra-gen", "ocra-val", "lookup", "url", "hotp-url", "helpers", "list", "hotp-err", "totp-err", "ocra-err", "fresh-enum"}
	if allowHostile {
		kinds = append(kinds, "gc", "adversary", "adversary", "bad-suite")
	}
	return drawC11OpOfKind(t, rapid.SampledFrom(kinds).Draw(t, "kind"))
}

// freshEnum hands out enumeration values outside the supported ones, each at most once per process while they last
var freshEnum atomic.Int64

func drawC11OpOfKind(t *rapid.T, kind string) c11Op {
	o := c11Op{Kind: kind}
	if kind == "fresh-enum" {
		o.Key = []byte("12345678901234567890")
		o.Algo = 3 + int(freshEnum.Add(1)-1)%253
		return o
	}
	o.Key = rapid.SliceOfN(rapid.Byte(), 1, 40).Draw(t, "key")
	if rapid.IntRange(0, 3).Draw(t, "longKey") == 0 {
		// keys on both sides of the digest sizes and of the hash block sizes (64 / 128): a keyed-hash object that is reused
		// treats them differently (hashed first, padded differently), and what it leaves behind meets the next call
		n := rapid.SampledFrom([]int{21, 33, 63, 64, 65, 66, 100, 127, 128, 129, 130, 200, 300}).Draw(t, "longKeyLen")
		o.Key = rapid.SliceOfN(rapid.Byte(), n, n).Draw(t, "longKeyBytes")
	}
	o.Counter = gen.Counter().Draw(t, "counter")
	if strings.HasPrefix(o.Kind, "totp") {
		o.Counter = rapid.Uint64Range(30*12, 1<<40).Draw(t, "unix")
	}
	if o.Kind == "hotp-val" && (o.Counter < 16 || o.Counter > 1<<64-20) {
		o.Counter = 1000
	}
	o.Digits = rapid.SampledFrom([]int{6, 6, 8, 9, 10, 4}).Draw(t, "digits")
	o.Algo = rapid.IntRange(0, 2).Draw(t, "algo")
	o.Skew = rapid.IntRange(0, 3).Draw(t, "skew")
	o.Dist = rapid.IntRange(-4, 4).Draw(t, "dist")
	if (strings.HasPrefix(o.Kind, "hotp") || strings.HasPrefix(o.Kind, "totp")) && rapid.Bool().Draw(t, "sharedParam") {
		o.Shared = rapid.IntRange(1, 2).Draw(t, "sharedKind")
	}
	if strings.HasPrefix(o.Kind, "ocra") {
		switch rapid.IntRange(0, 2).Draw(t, "suiteSrc") {
		case 0:
			o.Reg = rapid.SampledFrom(registeredNames).Draw(t, "reg")
			rd, _ := ref.ReadSuite(o.Reg, true)
			o.In = drawAdmissible(t, rd.Cfg)
		case 1: // a parsed (unregistered) suite in one of several spellings: the message starts with the string as given
			o.Reg = spellVariant(t, rapid.SampledFrom(parsedPool).Draw(t, "parsed"))
			rd, _ := ref.ReadSuite(o.Reg, false)
			o.In = drawAdmissible(t, rd.Cfg)
		default:
			o.Cfg = drawUsableCfg(t)
			if rapid.Bool().Draw(t, "longRaw") { // messages longer than the pooled 256-byte buffer
				o.Cfg.Raw = strings.Repeat("R", rapid.IntRange(100, 400).Draw(t, "rawLen"))
			}
			o.In = drawAdmissible(t, o.Cfg)
		}
		o.Dist = rapid.IntRange(0, 1).Draw(t, "wrong")
	}
	if o.Kind == "lookup" {
		o.Text = rapid.SampledFrom(append(append([]string{"OCRA-1:HOTP-SHA1-6:QN08-T5M", "nonsense", "OCRA-1:HOTP-SHA512-10:C-QN10-PSHA256-S064-T48H"}, registeredNames[:6]...), parsedPool...)).Draw(t, "text")
		o.Text = spellVariant(t, o.Text)
	}
	if o.Kind == "url" || o.Kind == "hotp-url" {
		o.Text = rapid.SampledFrom([]string{"alice", "a b", "x/y?z", "é"}).Draw(t, "text")
	}
	return o
}

// parsedPool: unregistered suite strings the parser accepts; spellVariant lower-cases a drawn subset of
// the letters after the version part (the parser folds case; time-unit letters stay upper-case).
var parsedPool = []string{"OCRA-1:HOTP-SHA256-8:QN08-T1M", "OCRA-1:HOTP-SHA1-7:C-QN10", "OCRA-1:HOTP-SHA512-9:QN08-PSHA1-S064-T30S", "OCRA-1:HOTP-SHA1-10:C-QN08-S"}

func spellVariant(t *rapid.T, name string) string {
	if rapid.IntRange(0, 2).Draw(t, "variantK") == 0 {
		return name
	}
	b := []byte(name)
	mask := rapid.Uint64().Draw(t, "variantMask")
	for i := 7; i < len(b); i++ {
		if b[i] >= 'A' && b[i] <= 'Z' && (mask>>(uint(i)%64))&1 == 1 && !(i == len(b)-1 && i > 0 && b[i-1] >= '0' && b[i-1] <= '9') {
			b[i] += 32
		}
	}
	return string(b)
}

func TestC11_Sequential(t *testing.T) {
	c11Seq.rapid(t, ev.Pick(1_500, 12_000), func(t *rapid.T) c11SeqCase {
		n := rapid.IntRange(1, 50).Draw(t, "n")
		c := c11SeqCase{Arena: rapid.IntRange(0, 2).Draw(t, "arena") == 0}
		for i := 0; i < n; i++ {
			c.Ops = append(c.Ops, drawC11Op(t, true))
		}
		return c
	})
}

// (b) concurrent scripts (meant for the -race build) ------------------------------

type c11ConcCase struct {
	Procs       int       `json:"procs"`
	Progs       [][]c11Op `json:"progs"`
	Adversaries int       `json:"adversaries"`
	GC          bool      `json:"gc"`
	Rounds      int       `json:"rounds"`
	Arena       bool      `json:"arena,omitempty"` // OCRA byte fields of all goroutines are windows of one shared buffer
}

var raceLog = os.Getenv("VERIF_RACELOG") // prefix given to GORACE=log_path

func raceReports() int {
	if raceLog == "" {
		return 0
	}
	b, err := os.ReadFile(fmt.Sprintf("%s.%d", raceLog, os.Getpid()))
	if err != nil {
		return 0
	}
	return strings.Count(string(b), "WARNING: DATA RACE")
}

func raceText() string {
	b, _ := os.ReadFile(fmt.Sprintf("%s.%d", raceLog, os.Getpid()))
	s := string(b)
	var keep []string
	for _, l := range strings.Split(s, "\n") {
		if strings.Contains(l, "DATA RACE") || strings.Contains(l, "ja7ad/otp") || strings.Contains(l, "by goroutine") {
			keep = append(keep, strings.TrimSpace(l))
		}
		if len(keep) > 14 {
			break
		}
	}
	return strings.Join(keep, " | ")
}

func checkC11Conc(c c11ConcCase) verdict {
	defer ev.Inflight("C11", "concurrent-race", c)()
	resetSharedParams()
	old := runtime.GOMAXPROCS(c.Procs)
	defer runtime.GOMAXPROCS(old)
	// sequential reference first
	want := make([][]c11Res, len(c.Progs))
	kinds := map[string]bool{}
	for g, prog := range c.Progs {
		for _, o := range prog {
			want[g] = append(want[g], o.expect())
			kinds[o.Kind] = true
		}
	}
	before := raceReports()
	var mu sync.Mutex
	var firstErr string
	type laterCheck struct {
		g, i int
		op   c11Op
		got  c11Res
	}
	var later []laterCheck
	fail := func(f string, a ...any) {
		mu.Lock()
		if firstErr == "" {
			firstErr = fmt.Sprintf(f, a...)
		}
		mu.Unlock()
	}
	rounds := c.Rounds
	if rounds < 1 {
		rounds = 1
	}
	for round := 0; round < rounds && firstErr == ""; round++ {
		var wg sync.WaitGroup
		stop := make(chan struct{})
		start := make(chan struct{})
		var bg sync.WaitGroup
		for a := 0; a < c.Adversaries; a++ {
			bg.Add(1)
			go func() {
				defer bg.Done()
				<-start
				for {
					select {
					case <-stop:
						return
					default:
						adversary(3)
						runtime.Gosched()
					}
				}
			}()
		}
		if c.GC {
			bg.Add(1)
			go func() {
				defer bg.Done()
				<-start
				for {
					select {
					case <-stop:
						return
					default:
						runtime.GC()
						time.Sleep(200 * time.Microsecond)
					}
				}
			}()
		}
		progs := c.Progs
		if c.Arena {
			progs = arena(c.Progs)
		}
		for g, prog := range progs {
			wg.Add(1)
			go func(g int, prog []c11Op) {
				defer wg.Done()
				defer func() {
					if r := recover(); r != nil {
						fail("goroutine %d panicked: %v", g, r)
					}
				}()
				<-start
				var retained []kept
				for i, o := range prog {
					got := o.run()
					if want[g][i] == postHoc {
						mu.Lock()
						later = append(later, laterCheck{g, i, o, got})
						mu.Unlock()
					} else if got != want[g][i] {
						fail("goroutine %d op %d (%s): got %v concurrently, alone it returns %v", g, i, o.Kind, got, want[g][i])
						return
					}
					if got.S != "" {
						retained = append(retained, kept{got.S, strings.Clone(got.S), o.Kind})
					}
					if i%3 == 0 {
						runtime.Gosched()
					}
				}
				for _, r := range retained {
					if r.got != r.clone {
						fail("goroutine %d: a returned %s string changed afterwards: %q -> %q", g, r.what, r.clone, r.got)
					}
				}
			}(g, prog)
		}
		close(start)
		wg.Wait()
		close(stop)
		bg.Wait()
		for _, l := range later {
			if alone := l.op.run(); alone != l.got {
				fail("goroutine %d op %d (%s): got %v concurrently (first use in this process), the same call made alone afterwards returns %v", l.g, l.i, l.op.Kind, l.got, alone)
			}
		}
		later = later[:0]
	}
	labels := []string{fmt.Sprintf("procs=%d", c.Procs), fmt.Sprintf("goroutines=%d", len(c.Progs))}
	if c.Adversaries > 0 {
		labels = append(labels, "adversary")
	}
	if c.GC {
		labels = append(labels, "gc")
	}
	if c.Arena {
		labels = append(labels, "arena")
	}
	nt := (len(c.Progs) >= 2 && len(kinds) >= 2) || c.Adversaries > 0 || c.GC
	if firstErr != "" {
		return bad(nt, labels, "%s", firstErr)
	}
	if n := raceReports(); n > before {
		return bad(nt, labels, "the race detector reported %d data race(s) while this script ran: %s", n-before, raceText())
	}
	return ok(nt, labels...)
}

var c11Conc = newPart("C11", "concurrent-race",
	"rapid-drawn scripts (pure function of the seed): 1..64 goroutine programs of 1..12 mixed calls each (incl. failing calls; in half of the scripts all goroutines share one to three secrets), in a third of the scripts with all OCRA byte fields of all goroutines laid out as windows of one shared buffer, run for 1..3 rounds at GOMAXPROCS in {1,2,4,16} together with 0..2 adversary goroutines (Get/overwrite/Put on both library pools) and an optional GC goroutine, in a -race build; oracles: every result equals the sequential reference computed beforehand, retained result strings stay identical, and the race detector (GORACE log inspected after every script) reports nothing; non-trivial = >= 2 goroutines mixing >= 2 kinds of operation, or adversary/GC goroutines present; a failure stores the script itself, since the schedule cannot be replayed",
	checkC11Conc)

func TestC11_Concurrent(t *testing.T) {
	c11Conc.rapid(t, ev.Pick(60, 1_200), func(t *rapid.T) c11ConcCase {
		c := c11ConcCase{Procs: rapid.SampledFrom([]int{1, 2, 4, 16}).Draw(t, "procs"), Adversaries: rapid.IntRange(0, 2).Draw(t, "adv"), GC: rapid.Bool().Draw(t, "gc"), Rounds: rapid.IntRange(1, 3).Draw(t, "rounds"),
			Arena: rapid.IntRange(0, 2).Draw(t, "arena") == 0}
		n := rapid.SampledFrom([]int{1, 2, 3, 4, 8, 16, 32, 64}).Draw(t, "goroutines")
		for g := 0; g < n; g++ {
			m := rapid.IntRange(1, 12).Draw(t, "m")
			var prog []c11Op
			for i := 0; i < m; i++ {
				prog = append(prog, drawC11Op(t, false))
			}
			c.Progs = append(c.Progs, prog)
		}
		if rapid.Bool().Draw(t, "sharedKeys") {
			// goroutines working with the SAME one to three secrets at the same time
			shared := rapid.SliceOfN(rapid.SliceOfN(rapid.Byte(), 1, 40), 1, 3).Draw(t, "shared")
			for g := range c.Progs {
				for i := range c.Progs[g] {
					c.Progs[g][i].Key = shared[(g+i)%len(shared)]
				}
			}
		}
		return c
	})
}

// (c) saturation: many goroutines inside the SAME kind of call at once ---------------
//
// The mixed scripts above rarely have more than a handful of goroutines inside one library function at the same
// instant. Anything in the library with a capacity — a semaphore in front of validation, a fixed ring of scratch
// buffers, a bounded cache — shows only when more goroutines than that are inside the same function at once. Here 33..64
// goroutines run one and the same drawn call in a tight loop without ever yielding voluntarily: a goroutine leaves
// the processor only when the scheduler preempts it (every 10 ms), which happens inside the library call, so after a
// few scheduling rounds almost all goroutines are suspended in the middle of that call.

type c11SatCase struct {
	Op         c11Op `json:"op"`
	Goroutines int   `json:"goroutines"`
	Procs      int   `json:"procs"`
}

func checkC11Sat(c c11SatCase) verdict {
	defer ev.Inflight("C11", "saturation", c)()
	resetSharedParams()
	old := runtime.GOMAXPROCS(c.Procs)
	defer runtime.GOMAXPROCS(old)
	want := c.Op.expect()
	before := raceReports()
	// long enough for every goroutine to be preempted at least twice: (goroutines / procs) scheduling rounds of 10 ms
	budget := time.Duration(3*(c.Goroutines/c.Procs+1)) * 10 * time.Millisecond
	if budget > 900*time.Millisecond {
		budget = 900 * time.Millisecond
	}
	var mu sync.Mutex
	var firstErr string
	var calls int64
	var wg sync.WaitGroup
	start := make(chan struct{})
	progress := make([]atomic.Int64, c.Goroutines)
	var stop atomic.Bool
	var firstSeen atomic.Pointer[c11Res]
	for g := 0; g < c.Goroutines; g++ {
		wg.Add(1)
		go func(g int) {
			defer wg.Done()
			defer func() {
				if r := recover(); r != nil {
					mu.Lock()
					if firstErr == "" {
						firstErr = fmt.Sprintf("goroutine %d panicked: %v", g, r)
					}
					mu.Unlock()
				}
			}()
			<-start
			n := int64(0)
			for i := 0; ; i++ {
				got := c.Op.run()
				n++
				progress[g].Add(1)
				if want == postHoc { // compared with the first result anybody saw, and with a lone call afterwards
					firstSeen.CompareAndSwap(nil, &got)
					if f := firstSeen.Load(); *f != got {
						mu.Lock()
						if firstErr == "" {
							firstErr = fmt.Sprintf("goroutine %d call %d (%s): got %v, another goroutine got %v for the same call", g, i, c.Op.Kind, got, *f)
						}
						mu.Unlock()
						break
					}
				} else if got != want {
					mu.Lock()
					if firstErr == "" {
						firstErr = fmt.Sprintf("goroutine %d call %d (%s): got %v while %d goroutines run the same call, alone it returns %v", g, i, c.Op.Kind, got, c.Goroutines, want)
					}
					mu.Unlock()
					break
				}
				if i%16 == 15 && stop.Load() {
					break
				}
			}
			mu.Lock()
			calls += n
			mu.Unlock()
		}(g)
	}
	close(start)
	// the case ends when the budget has passed AND every goroutine has been inside the call several times (on a loaded
	// machine goroutines start late: all of them must have been running for the call to be saturated), at the latest after 8 s
	t0 := time.Now()
	for {
		time.Sleep(5 * time.Millisecond)
		el := time.Since(t0)
		all := true
		for g := range progress {
			if progress[g].Load() < 8 {
				all = false
				break
			}
		}
		mu.Lock()
		failed := firstErr != ""
		mu.Unlock()
		if failed || (el >= budget && all) || el > 8*time.Second {
			break
		}
	}
	stop.Store(true)
	wg.Wait()
	if f := firstSeen.Load(); f != nil && firstErr == "" {
		if alone := c.Op.run(); alone != *f {
			firstErr = fmt.Sprintf("%s: %d goroutines meeting the value for the first time got %v, the same call made alone afterwards returns %v", c.Op.Kind, c.Goroutines, *f, alone)
		}
	}
	recorders["C11/saturation"].Label("calls", calls)
	labels := []string{"kind=" + c.Op.Kind, fmt.Sprintf("procs=%d", c.Procs), fmt.Sprintf("goroutines=%d", c.Goroutines)}
	if firstErr != "" {
		return bad(true, labels, "%s", firstErr)
	}
	if n := raceReports(); n > before {
		return bad(true, labels, "the race detector reported %d data race(s) while this case ran: %s", n-before, raceText())
	}
	return ok(true, labels...)
}

var c11Sat = newPart("C11", "saturation",
	"64 (first pass over the kinds) or 33..64 goroutines at GOMAXPROCS in {2,4,16} run one and the same rapid-drawn call (each kind of operation in turn: HOTP/TOTP/OCRA generation and validation incl. wrong codes and failing calls, suite lookups, URL generation, helpers) in a tight loop with no voluntary yield for 3 x (goroutines/procs) scheduler rounds, so that nearly all goroutines are preempted inside that call at the same time (-race build); oracles: every result equals what the call returns alone, no panic, no race report; all cases non-trivial; the label 'calls' counts library calls made; a failure stores the case, the schedule cannot be replayed",
	checkC11Sat)

// kinds ending in "+" are validations of the RIGHT code (a capacity that fails closed shows as a refused right code)
var c11SatKinds = []string{"fresh-enum", "hotp-val+", "totp-val+", "ocra-val+", "hotp-val", "totp-val", "ocra-val", "hotp-gen", "totp-gen", "ocra-gen", "lookup", "url", "hotp-url", "helpers", "list", "hotp-err", "totp-err", "ocra-err"}

// satGoroutines: the first pass over the kinds (all of the quick tier) uses the largest number the property names, 64,
// which exceeds any capacity a smaller number would exceed; later passes vary it.
func satGoroutines(t *rapid.T, idx int) int {
	if idx <= len(c11SatKinds) {
		return 64
	}
	return rapid.SampledFrom([]int{33, 40, 48, 64}).Draw(t, "goroutines")
}

func TestC11_Saturation(t *testing.T) {
	idx := 0
	c11Sat.rapid(t, ev.Pick(len(c11SatKinds), 8*len(c11SatKinds)), func(t *rapid.T) c11SatCase {
		kind := c11SatKinds[idx%len(c11SatKinds)] // every kind in turn: the quick tier covers each once
		idx++
		op := drawC11OpOfKind(t, strings.TrimSuffix(kind, "+"))
		if strings.HasSuffix(kind, "+") {
			op.Dist = 0
		}
		return c11SatCase{Op: op, Goroutines: satGoroutines(t, idx), Procs: rapid.SampledFrom([]int{2, 4, 16}).Draw(t, "procs")}
	})
}
