package verifh

import (
	"fmt"
	"strconv"
	"strings"
	"testing"
	"time"

	otp "github.com/ja7ad/otp"
	"pgregory.net/rapid"

	"verifh/ev"
	"verifh/gen"
	"verifh/ref"
)

// ---------------------------------------------------------------------------
// C03 — HOTP validation accepts exactly the codes of counters inside the window.

type c03Case struct {
	Key      []byte       `json:"key"`
	Sp       gen.Spelling `json:"spelling"`
	Counter  uint64       `json:"counter"`
	Skew     uint64       `json:"skew"`
	Digits   int          `json:"digits"`
	Algo     int          `json:"algo"`
	NilParam bool         `json:"nil_param"`
	Code     []byte       `json:"code"`          // submitted string (bytes: may be invalid UTF-8)
	Origin   string       `json:"origin"`        // how the generator built it (informational)
	Via      int          `json:"via,omitempty"` // explicit parameters routed through an exported default pointer (see viaDefault)
	// an operation of another family run immediately before the call (see disturb; omitted = none)
	Before int `json:"before,omitempty"`
}

// windowSet returns the codes of counters max(0,c-s)..c+s (c+s must not overflow).
func windowSet(key []byte, c, s uint64, digits, algo int) map[string]uint64 {
	w := map[string]uint64{}
	lo := uint64(0)
	if c > s {
		lo = c - s
	}
	for x := lo; ; x++ {
		w[ref.MustHOTP(key, x, digits, algo)] = x
		if x == c+s {
			break
		}
	}
	return w
}

func checkC03(c c03Case) verdict {
	secret := gen.Spell(c.Key, c.Sp)
	digits, algo, skew := c.Digits, c.Algo, c.Skew
	var param *otp.Param
	if c.NilParam {
		digits, algo, skew = 6, 0, 2
	} else {
		param = &otp.Param{Digits: otp.Digits(c.Digits), Algorithm: otp.Algorithm(c.Algo), Skew: uint(c.Skew)}
	}
	labels := []string{"origin=" + c.Origin, counterClass(c.Counter)}
	if c.NilParam {
		labels = append(labels, "nilparam")
	}
	param, restore := viaDefault(c.Via, param)
	defer restore()
	if c.Via != 0 && !c.NilParam {
		labels = append(labels, "via-exported-default")
	}
	disturb(c.Before, secret)
	var got bool
	var err error
	// a validation that never returns (a window walked by goroutines that wait for each other, a loop that does not end) is
	// not a verdict: watchdog as in C04 (10 s, then 20 s once more; the normal cost is microseconds)
	if !bounded(func() { got, err = otp.ValidateHOTP(secret, string(c.Code), c.Counter, param) }, 10*time.Second) {
		hang("C03", "main", c, recorders["C03/main"], fmt.Sprintf("ValidateHOTP(counter=%d, window=%d, digits=%d, code %q) did not return within 10 s and again within 20 s", c.Counter, skew, digits, c.Code))
	}
	supported := digits >= 1 && digits <= 10 && algo >= 0 && algo <= 2
	if skew > 10 {
		labels = append(labels, "refused-skew")
		if got || err == nil {
			return bad(true, labels, "ValidateHOTP with window %d (> 10) returned (%v, %v); want refusal (false, error)", skew, got, err)
		}
		return ok(true, labels...)
	}
	if !supported {
		labels = append(labels, "unsupported")
		if got || err == nil {
			return bad(true, labels, "ValidateHOTP with digits=%d algo=%d returned (%v, %v); want (false, error)", digits, algo, got, err)
		}
		return ok(true, labels...)
	}
	if c.Counter > ^uint64(0)-skew {
		return ok(false, "out-of-domain(c+s overflows)")
	}
	w := windowSet(c.Key, c.Counter, skew, digits, algo)
	at, want := w[string(c.Code)]
	labels = append(labels, fmt.Sprintf("skew=%d", skew), fmt.Sprintf("want=%v", want))
	if c.Counter < skew {
		labels = append(labels, "c<s")
	}
	nt := c.Origin != "dist0" || c.Counter < skew || c.Counter >= 1<<63
	if got != want {
		return bad(nt, labels, "ValidateHOTP(code=%q, counter=%d, window=%d, digits=%d, algo=%d, nil=%v) = (%v, %v); reference window membership is %v (code of counter %d)",
			c.Code, c.Counter, skew, digits, algo, c.NilParam, got, err, want, at)
	}
	// the string the library itself returned for a counter just outside the window, submitted as returned (not a copy):
	// a code that still lives in a scratch buffer is overwritten by the derivations of the validation
	if far := c.Counter + skew + 1; far > c.Counter {
		if g2, e2 := otp.GenerateHOTP(secret, far, param); e2 == nil {
			keep := strings.Clone(g2)
			ok2, _ := otp.ValidateHOTP(secret, g2, c.Counter, param)
			_, in2 := w[keep]
			if g2 != keep || ok2 != in2 {
				return bad(true, labels, "ValidateHOTP(the string GenerateHOTP returned for counter %d, submitted as returned) = %v at counter %d window %d; the string was %q, is now %q, window membership %v", far, ok2, c.Counter, skew, keep, g2, in2)
			}
		}
	}
	return ok(nt, labels...)
}

var c03Main = newPart("C03", "main",
	"rapid: secrets/digits 1..10/hashes of C01 x counters with c+s <= 2^64-1 (small incl. c<s, 2^31/2^32/2^63 +-13, top) x window 0..10 plus refused {11,12,100,2^32,2^64-1} x nil/explicit param x submitted string: code of the counter at distance d in -(s+3)..+(s+3) (wrapping below 0: such codes must be rejected unless they collide), single-character edits, truncations, extensions, white space / Unicode-digit variants, arbitrary strings; oracle: exact membership in the reference code set of the window (iff); non-trivial = not the distance-0 code or c<s or c>=2^63 or refused window",
	checkC03)

// drawSubmission picks the submitted string for a (key, centre, skew, digits, algo) from the reference.
func drawSubmission(t *rapid.T, key []byte, centre, skew uint64, digits, algo int) ([]byte, string) {
	if skew > 10 {
		skew = 3 // refused windows: still submit real codes near the centre
	}
	span := int(skew) + 3
	switch rapid.IntRange(0, 11).Draw(t, "subKind") {
	case 10: // the genuine code of a window counter under ANOTHER code length (a validator that infers the length from the code accepts it)
		d := rapid.IntRange(-int(skew), int(skew)).Draw(t, "sdist")
		od := rapid.SampledFrom([]int{6, 8, 8, 10, 7, 9, 4, 5, 1}).Draw(t, "sibDigits")
		return []byte(ref.MustHOTP(key, centre+uint64(int64(d)), od, algo)), "sibling-digits"
	case 11: // ... under another hash
		d := rapid.IntRange(-int(skew), int(skew)).Draw(t, "sdist")
		return []byte(ref.MustHOTP(key, centre+uint64(int64(d)), digits, (algo+1+rapid.IntRange(0, 1).Draw(t, "sibHash"))%3)), "sibling-hash"
	case 0:
		return []byte(ref.MustHOTP(key, centre, digits, algo)), "dist0"
	case 1, 2, 3, 4:
		d := rapid.IntRange(-span, span).Draw(t, "dist")
		code := ref.MustHOTP(key, centre+uint64(int64(d)), digits, algo)
		switch {
		case d == 0:
			return []byte(code), "dist0"
		case d == int(skew) || d == -int(skew):
			return []byte(code), "dist=edge"
		case d == int(skew)+1 || d == -int(skew)-1:
			return []byte(code), "dist=edge+1"
		case d < -int(skew) || d > int(skew):
			return []byte(code), "dist=outside"
		default:
			return []byte(code), "dist=inside"
		}
	case 5, 6, 7:
		d := rapid.IntRange(-int(skew), int(skew)).Draw(t, "mdist")
		code := ref.MustHOTP(key, centre+uint64(int64(d)), digits, algo)
		return []byte(gen.MutateCode(t, code)), "mutated"
	case 8:
		b := make([]byte, digits)
		for i := range b {
			b[i] = '0' + byte(rapid.IntRange(0, 9).Draw(t, "rd"))
		}
		return b, "random-digits"
	default:
		return rapid.SliceOfN(rapid.Byte(), 0, 14).Draw(t, "raw"), "raw-bytes"
	}
}

func genC03(t *rapid.T) c03Case {
	c := genC03Base(t)
	c.Before = drawDisturb(t) // drawn last: the cases of a seed are otherwise what they were
	return c
}

func genC03Base(t *rapid.T) c03Case {
	c := c03Case{Key: gen.Key().Draw(t, "key"), Sp: gen.DrawSpelling(t), Counter: gen.Counter().Draw(t, "counter")}
	c.Digits = rapid.SampledFrom([]int{1, 2, 3, 4, 6, 6, 7, 8, 9, 10}).Draw(t, "digits")
	c.Algo = rapid.IntRange(0, 2).Draw(t, "algo")
	switch rapid.IntRange(0, 19).Draw(t, "kind") {
	case 0, 1:
		c.NilParam = true
	case 2, 3:
		c.Skew = gen.RefusedSkew(t)
	case 4:
		if rapid.Bool().Draw(t, "which") {
			c.Digits = rapid.SampledFrom([]int{0, 11, 255}).Draw(t, "badDigits")
		} else {
			c.Algo = rapid.SampledFrom([]int{3, 200}).Draw(t, "badAlgo")
		}
		c.Skew = uint64(rapid.IntRange(0, 10).Draw(t, "skew"))
	default:
		c.Skew = uint64(rapid.IntRange(0, 10).Draw(t, "skew"))
	}
	d, a, s := c.Digits, c.Algo, c.Skew
	if c.NilParam {
		d, a, s = 6, 0, 2
	}
	if d < 1 || d > 10 || a > 2 {
		c.Code, c.Origin = []byte("123456"), "unsupported"
		return c
	}
	if s <= 10 && c.Counter > ^uint64(0)-s {
		c.Counter = ^uint64(0) - s
	}
	c.Code, c.Origin = drawSubmission(t, c.Key, c.Counter, s, d, a)
	if !c.NilParam && rapid.IntRange(0, 7).Draw(t, "viaQ") == 0 {
		c.Via = rapid.IntRange(1, 6).Draw(t, "via")
	}
	return c
}

// numericAliases: for 32 keys, the 9- and 10-digit code of a counter and every same-width decimal string whose VALUE differs from
// it by 2^k (k = 8, 16, 24, 31, 32, 33) — what a comparison of narrowed numbers takes for the code. Enumerated, because the
// random submissions meet a 10-digit code whose alias keeps the width only now and then (C04-r5 was caught at seed 1 only).
func numericAliases(each func(key []byte, counter uint64, digits int, alias string)) {
	for k := 0; k < 32; k++ {
		key := []byte(fmt.Sprintf("alias-key-%02d-0123456789", k))
		counter := uint64(1000 + k)
		for _, digits := range []int{10, 9} {
			code := ref.MustHOTP(key, counter, digits, 0)
			v, _ := strconv.ParseUint(code, 10, 64)
			limit := uint64(1)
			for i := 0; i < digits; i++ {
				limit *= 10
			}
			for _, sh := range []uint{8, 16, 24, 31, 32, 33} {
				for _, up := range []bool{true, false} {
					a := v + 1<<sh
					if !up {
						if v < 1<<sh {
							continue
						}
						a = v - 1<<sh
					}
					if a >= limit {
						continue
					}
					each(key, counter, digits, fmt.Sprintf("%0*d", digits, a))
				}
			}
			// and by 2^63 / 2^64 modulo 10^digits: a wrapped unsigned difference reduced modulo the code range (C06-r18a)
			h63 := (uint64(1) << 63) % limit
			for _, m := range []uint64{h63, h63 * 2 % limit} {
				for _, a := range []uint64{(v + m) % limit, (v + limit - m) % limit} {
					if a != v {
						each(key, counter, digits, fmt.Sprintf("%0*d", digits, a))
					}
				}
			}
		}
	}
}

func TestC03_Main(t *testing.T) {
	i := 0
	numericAliases(func(key []byte, counter uint64, digits int, alias string) {
		if i++; ev.Mine(i) {
			c03Main.each(t, c03Case{Key: key, Sp: gen.Spelling{Pad: 1}, Counter: counter, Skew: uint64(i % 3), Digits: digits, Code: []byte(alias), Origin: "numeric-alias-enumerated"})
		}
	})
	c03Main.rapid(t, ev.Pick(25_000, 400_000), genC03)
}

// ---------------------------------------------------------------------------
// C04 — TOTP validation accepts exactly the codes of steps inside the skew window.

type c04Case struct {
	Key      []byte       `json:"key"`
	Sp       gen.Spelling `json:"spelling"`
	Unix     int64        `json:"unix"`
	Nsec     int          `json:"nsec"`
	Period   uint64       `json:"period"`
	Skew     uint64       `json:"skew"`
	Digits   int          `json:"digits"`
	Algo     int          `json:"algo"`
	NilParam bool         `json:"nil_param"`
	Code     []byte       `json:"code"`
	Origin   string       `json:"origin"`
	Via      int          `json:"via,omitempty"` // explicit parameters routed through an exported default pointer (see viaDefault)
	// an operation of another family run immediately before the call (see disturb; omitted = none)
	Before int `json:"before,omitempty"`
}

// hang reports a call that did not return within the (very generous) watchdog and
// ends the process: the goroutine cannot be stopped, so shrinking is impossible.
func hang(id, part string, c any, rec *ev.Recorder, msg string) {
	reportHang(id, part, c, rec, msg)
}

// bounded runs f with a watchdog; a miss is retried once with twice the budget, so
// that machine load alone cannot produce a verdict.
func bounded(f func(), budget time.Duration) bool {
	for try := 0; try < 2; try++ {
		done := make(chan struct{})
		go func() { f(); close(done) }()
		select {
		case <-done:
			return true
		case <-time.After(budget * time.Duration(try+1)):
		}
	}
	return false
}

func checkC04(c c04Case) verdict {
	secret := gen.Spell(c.Key, c.Sp)
	digits, algo, skew, period := c.Digits, c.Algo, c.Skew, c.Period
	var param *otp.Param
	if c.NilParam {
		digits, algo, skew, period = 6, 0, 0, 30
	} else {
		param = &otp.Param{Digits: otp.Digits(c.Digits), Algorithm: otp.Algorithm(c.Algo), Skew: uint(c.Skew), Period: uint(c.Period)}
	}
	eff := period
	if eff == 0 {
		eff = 30
	}
	n := uint64(c.Unix) / eff
	labels := []string{"origin=" + c.Origin}
	if c.NilParam {
		labels = append(labels, "nilparam")
	}
	if period == 0 && !c.NilParam {
		labels = append(labels, "period=0")
	}
	t := time.Unix(c.Unix, int64(c.Nsec))
	var got bool
	var err error
	param, restore := viaDefault(c.Via, param)
	defer restore()
	if c.Via != 0 && !c.NilParam {
		labels = append(labels, "via-exported-default")
	}
	disturb(c.Before, secret)
	if !bounded(func() { got, err = otp.ValidateTOTP(secret, string(c.Code), t, param) }, 10*time.Second) {
		hang("C04", "main", c, recorders["C04/main"], fmt.Sprintf("ValidateTOTP(skew=%d, period=%d) did not return within 10 s and again within 20 s: work is not bounded in the skew", skew, period))
	}
	if skew > 10 {
		labels = append(labels, "refused-skew")
		if got || err == nil {
			return bad(true, labels, "ValidateTOTP with skew %d (> 10) returned (%v, %v); want refusal (false, error)", skew, got, err)
		}
		return ok(true, labels...)
	}
	supported := digits >= 1 && digits <= 10 && algo >= 0 && algo <= 2
	if !supported {
		labels = append(labels, "unsupported")
		if got || err == nil {
			return bad(true, labels, "ValidateTOTP with digits=%d algo=%d returned (%v, %v); want (false, error)", digits, algo, got, err)
		}
		return ok(true, labels...)
	}
	if n < skew {
		return ok(false, "out-of-domain(step<skew)")
	}
	w := windowSet(c.Key, n, skew, digits, algo)
	at, want := w[string(c.Code)]
	labels = append(labels, fmt.Sprintf("skew=%d", skew), fmt.Sprintf("want=%v", want))
	nt := c.Origin != "dist0" || period != 30
	if got != want {
		return bad(nt, labels, "ValidateTOTP(code=%q, unix=%d, period=%d, skew=%d, digits=%d, algo=%d, nil=%v) = (%v, %v); reference window membership is %v (code of step %d, centre step %d)",
			c.Code, c.Unix, period, skew, digits, algo, c.NilParam, got, err, want, at, n)
	}
	return ok(nt, labels...)
}

var c04Main = newPart("C04", "main",
	"rapid: secrets/digits/hashes as C03 x instants with floor(t/p) >= s, t < 2^62 x period {0,1,29,30,31,60,3600,2^32,uniform} x skew 0..10 plus refused {11,1000,2^32,2^64-1} (submitting the CORRECT current code, which only a refusal rejects) x nil/explicit param x submitted strings as in C03 with distances in time steps; oracle: exact membership in the reference code set of steps |n'-n| <= s; every call under a 10 s + 20 s double watchdog (normal cost ~25 us); non-trivial = not the distance-0 code or period != 30 or refused skew",
	checkC04)

func genC04(t *rapid.T) c04Case {
	c := genC04Base(t)
	c.Before = drawDisturb(t) // drawn last: the cases of a seed are otherwise what they were
	return c
}

func genC04Base(t *rapid.T) c04Case {
	c := c04Case{Key: gen.Key().Draw(t, "key"), Sp: gen.DrawSpelling(t)}
	c.Digits = rapid.SampledFrom([]int{1, 2, 4, 6, 6, 7, 8, 9, 10}).Draw(t, "digits")
	c.Algo = rapid.IntRange(0, 2).Draw(t, "algo")
	if rapid.IntRange(0, 4).Draw(t, "periodKind") == 0 {
		c.Period = rapid.Uint64Range(1, 1<<32).Draw(t, "periodU")
	} else {
		c.Period = rapid.SampledFrom([]uint64{0, 0, 1, 29, 30, 30, 31, 60, 3600, 1 << 32}).Draw(t, "period")
	}
	switch rapid.IntRange(0, 19).Draw(t, "kind") {
	case 0, 1:
		c.NilParam = true
	case 2, 3, 4:
		c.Skew = gen.RefusedSkew(t)
	case 5:
		if rapid.Bool().Draw(t, "which") {
			c.Digits = rapid.SampledFrom([]int{0, 11, 255}).Draw(t, "badDigits")
		} else {
			c.Algo = rapid.SampledFrom([]int{3, 200}).Draw(t, "badAlgo")
		}
		c.Skew = uint64(rapid.IntRange(0, 10).Draw(t, "skew"))
	default:
		c.Skew = uint64(rapid.IntRange(0, 10).Draw(t, "skew"))
	}
	d, a, s, p := c.Digits, c.Algo, c.Skew, c.Period
	if c.NilParam {
		d, a, s, p = 6, 0, 0, 30
	}
	if p == 0 {
		p = 30
	}
	dom := s
	if dom > 10 {
		dom = 13
	}
	maxN := (uint64(1)<<62 - 1) / p
	var n uint64
	switch rapid.IntRange(0, 4).Draw(t, "stepKind") {
	case 4:
		// the window straddles a step number where a byte of the 8-byte counter message carries: m * 2^(8k) +- a few
		// (a counter advanced in place, or assembled from parts, goes wrong exactly there)
		k := uint(rapid.SampledFrom([]int{1, 2, 3, 4, 5, 6, 7, 7, 7}).Draw(t, "carryByte")) * 8
		m := rapid.Uint64Range(1, maxU(1, minU(255, maxN>>k))).Draw(t, "carryM")
		n = m<<k + uint64(int64(rapid.IntRange(-int(dom)-1, int(dom)+1).Draw(t, "carryDelta")))
		if n < dom || n > maxN {
			n = dom + 1
		}
	case 0:
		n = dom + uint64(rapid.IntRange(0, 5).Draw(t, "nLow"))
	case 1:
		n = rapid.Uint64Range(dom, maxU(dom, minU(maxN, 1<<33))).Draw(t, "nMid")
	default:
		n = rapid.Uint64Range(dom, maxU(dom, maxN)).Draw(t, "nAny")
	}
	if n > maxN {
		n = maxN
	}
	off := rapid.Uint64Range(0, p-1).Draw(t, "offset")
	if rapid.Bool().Draw(t, "edge") {
		off = rapid.SampledFrom([]uint64{0, p - 1}).Draw(t, "edgeOff")
	}
	u := n*p + off
	if u >= 1<<62 {
		u = 1<<62 - 1
	}
	c.Unix = int64(u)
	if rapid.Bool().Draw(t, "hasNsec") {
		c.Nsec = 999_999_999
	}
	if d < 1 || d > 10 || a > 2 {
		c.Code, c.Origin = []byte("123456"), "unsupported"
		return c
	}
	n = u / p
	if s > 10 {
		c.Code, c.Origin = []byte(ref.MustHOTP(c.Key, n, d, a)), "dist0"
		return c
	}
	if n < s { // tiny instants: keep the case in the domain
		c.Unix = int64(s*p + off)
		n = uint64(c.Unix) / p
	}
	c.Code, c.Origin = drawSubmission(t, c.Key, n, s, d, a)
	if !c.NilParam && rapid.IntRange(0, 7).Draw(t, "viaQ") == 0 {
		c.Via = rapid.IntRange(1, 6).Draw(t, "via")
	}
	return c
}

func maxU(a, b uint64) uint64 {
	if a > b {
		return a
	}
	return b
}

func TestC04_Main(t *testing.T) {
	i := 0
	numericAliases(func(key []byte, counter uint64, digits int, alias string) {
		if i++; ev.Mine(i) {
			c04Main.each(t, c04Case{Key: key, Sp: gen.Spelling{Pad: 1}, Unix: int64(counter*30 + uint64(i%30)), Period: 30, Skew: uint64(i % 3), Digits: digits, Code: []byte(alias), Origin: "numeric-alias-enumerated"})
		}
	})
	c04Main.rapid(t, ev.Pick(25_000, 400_000), genC04)
}
