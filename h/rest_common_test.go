package verifh

import (
	"bufio"
	"bytes"
	"context"
	"encoding/json"
	"fmt"
	"io"
	"net"
	"net/http"
	"os"
	"os/exec"
	"strings"
	"sync"
	"syscall"
	"time"

	otp "github.com/ja7ad/otp"
)

// The REST service under test is the real binary built by the driver from
// $VERIF_REPO/internal/app/cmd (path in VERIF_SERVER_BIN), on a free loopback port.

type restServer struct {
	cmd    *exec.Cmd
	addr   string
	stderr *lockedBuf
	exited chan struct{} // closed when the process has ended (it is waited for in the background)
}

// lockedBuf keeps what matters of the server's stderr (which logs every request):
// the last 64 KiB, and up to 256 KiB from the first alarming marker on.
type lockedBuf struct {
	mu     sync.Mutex
	tail   []byte
	marked []byte
	hit    bool
}

var stderrMarkers = [][]byte{[]byte("panic: "), []byte("fatal error: "), []byte("WARNING: DATA RACE")}

func (l *lockedBuf) Write(p []byte) (int, error) {
	l.mu.Lock()
	defer l.mu.Unlock()
	if !l.hit {
		for _, m := range stderrMarkers {
			if i := bytes.Index(p, m); i >= 0 && (i == 0 || p[i-1] == '\n' || string(m) == "WARNING: DATA RACE") {
				l.hit = true
			}
		}
	}
	if l.hit && len(l.marked) < 256<<10 {
		l.marked = append(l.marked, p...)
	}
	l.tail = append(l.tail, p...)
	if len(l.tail) > 128<<10 {
		l.tail = append([]byte(nil), l.tail[len(l.tail)-(64<<10):]...)
	}
	return len(p), nil
}

// String returns the alarming part if there is one, else the tail.
func (l *lockedBuf) String() string {
	l.mu.Lock()
	defer l.mu.Unlock()
	if l.hit {
		return string(l.marked)
	}
	return string(l.tail)
}

func (l *lockedBuf) alarm() bool { l.mu.Lock(); defer l.mu.Unlock(); return l.hit }

var (
	srvOnce sync.Once
	srv     *restServer
	srvErr  error
)

func freePort() (string, error) {
	l, err := net.Listen("tcp", "127.0.0.1:0")
	if err != nil {
		return "", err
	}
	defer l.Close()
	return l.Addr().String(), nil
}

func startServer(bin string) (*restServer, error) {
	var lastErr error
	for try := 0; try < 5; try++ {
		addr, err := freePort()
		if err != nil {
			return nil, err
		}
		s := &restServer{addr: addr, stderr: &lockedBuf{}}
		s.cmd = exec.Command(bin, "-serve", addr)
		if !strings.HasSuffix(bin, "-race") {
			// a cap on the server's address space (16 GiB; it normally needs a few MB): a request that makes it allocate
			// without end must end the server, which the checks then report, not the machine
			s.cmd = exec.Command("sh", "-c", `ulimit -v 16777216 2>/dev/null; exec "$0" "$@"`, bin, "-serve", addr)
		}
		s.cmd.Stdout = io.Discard
		s.cmd.Stderr = s.stderr
		if err := s.cmd.Start(); err != nil {
			return nil, err
		}
		s.exited = make(chan struct{})
		go func(s *restServer) { s.cmd.Wait(); close(s.exited) }(s)
		deadline := time.Now().Add(20 * time.Second)
		stolen := false
		for time.Now().Before(deadline) && !stolen {
			c, err := net.DialTimeout("tcp", addr, 200*time.Millisecond)
			if err == nil {
				c.Close()
				// the port was free when it was chosen, but between choosing and binding another process on this machine (another
				// worker's server) may have taken it: then the dial reaches THAT server and ours has exited with a bind error.
				// Only a server that is listening and still running a moment later is ours.
				select {
				case <-s.exited:
					stolen = true
				case <-time.After(150 * time.Millisecond):
					return s, nil
				}
				continue
			}
			select {
			case <-s.exited: // ended before it ever listened (the port was taken in between): another port
				stolen = true
			case <-time.After(50 * time.Millisecond):
			}
		}
		lastErr = fmt.Errorf("server did not start listening on %s: %s", addr, s.stderr.String())
		s.cmd.Process.Kill()
	}
	return nil, lastErr
}

// server returns the shared server instance (started on first use).
func server() *restServer {
	srvOnce.Do(func() {
		bin := os.Getenv("VERIF_SERVER_BIN")
		if r := os.Getenv("VERIF_SERVER_BIN_RACE"); r != "" && os.Getenv("VERIF_TIER") == "thorough" && os.Getenv("VERIF_SHARD") == "0" {
			bin = r // one worker of the thorough tier talks to a -race build of the server
			os.Setenv("GORACE", "halt_on_error=0")
		}
		if bin == "" {
			srvErr = fmt.Errorf("VERIF_SERVER_BIN not set")
			return
		}
		srv, srvErr = startServer(bin)
	})
	if srvErr != nil {
		fmt.Println("INFRA: cannot start the REST server:", srvErr)
		os.Exit(3)
	}
	return srv
}

func (s *restServer) alive() bool {
	select {
	case <-s.exited:
		return false
	default:
		return s.cmd.Process.Signal(syscall.Signal(0)) == nil
	}
}

var freshSem = make(chan struct{}, 16)

var sharedClient = &http.Client{
	Timeout:   20 * time.Second,
	Transport: &http.Transport{MaxConnsPerHost: 24, MaxIdleConnsPerHost: 24, IdleConnTimeout: 20 * time.Second, DisableCompression: true},
}

type httpResult struct {
	Status int
	Body   []byte
	JSON   map[string]any
	Err    error
	Dur    time.Duration
}

// do issues one request. fresh=true uses a new connection that is closed afterwards.
func (s *restServer) do(method, path string, body []byte, fresh bool, timeout time.Duration) httpResult {
	cl := sharedClient
	if fresh {
		// the server admits 50 connections per address: 24 pooled + at most 16 fresh ones at a time
		freshSem <- struct{}{}
		defer func() { <-freshSem }()
		cl = &http.Client{Timeout: timeout, Transport: &http.Transport{DisableKeepAlives: true, DisableCompression: true}}
	}
	ctx, cancel := context.WithTimeout(context.Background(), timeout)
	defer cancel()
	req, err := http.NewRequestWithContext(ctx, method, "http://"+s.addr+path, bytes.NewReader(body))
	if err != nil {
		return httpResult{Err: err}
	}
	if body != nil {
		req.Header.Set("Content-Type", "application/json")
	}
	t0 := time.Now()
	resp, err := cl.Do(req)
	if err != nil {
		return httpResult{Err: err, Dur: time.Since(t0)}
	}
	defer resp.Body.Close()
	b, err := io.ReadAll(io.LimitReader(resp.Body, 8<<20))
	r := httpResult{Status: resp.StatusCode, Body: b, Err: err, Dur: time.Since(t0)}
	if err == nil {
		dec := json.NewDecoder(bytes.NewReader(b))
		dec.UseNumber()
		var m map[string]any
		if dec.Decode(&m) == nil {
			r.JSON = m
		}
	}
	return r
}

func (r httpResult) str(k string) string {
	if r.JSON == nil {
		return ""
	}
	s, _ := r.JSON[k].(string)
	return s
}

func (r httpResult) brief() string {
	if r.Err != nil {
		return "error: " + r.Err.Error()
	}
	b := string(r.Body)
	if len(b) > 300 {
		b = b[:300] + "…"
	}
	return fmt.Sprintf("%d %s", r.Status, strings.TrimSpace(b))
}

// String -> enum conversion as the REST service and the wasm binding must perform it. The canonical spellings are fixed
// here independently ("6", "8", "9", "10"; "SHA1", "SHA256", "SHA512"). What any OTHER spelling means is not pinned by
// C18 / C20 — they say "the library's result" / "what the native library returns" — so for those the library's own
// helpers are the reference (today they fall back to 6 digits / SHA-1; a library that learns to read "sha-256" or " 8"
// changes what the service must answer, and the service calling the same helper follows).
func digitsFromSpelling(s string) int {
	switch s {
	case "6":
		return 6
	case "8":
		return 8
	case "9":
		return 9
	case "10":
		return 10
	}
	return otp.DigitsFromStr(s).Int()
}

func algoFromSpelling(s string) int {
	switch s {
	case "SHA1":
		return 0
	case "SHA256":
		return 1
	case "SHA512":
		return 2
	}
	return int(otp.AlgorithmFromStr(s))
}

var digitSpellings = []string{"6", "8", "9", "10", "6", "8", "10", "7", "06", " 6", "six", "", "10 ", "0", "11"}
var algoSpellings = []string{"SHA1", "SHA256", "SHA512", "SHA1", "SHA256", "SHA512", "sha256", "SHA-256", "MD5", "", "SHA384"}

// ---------------------------------------------------------------------------
// HTTP-level variants of one and the same well-formed request. The statement of C18 is about the request's
// fields; how the bytes travel (chunked or with a length, header spelling, an extra query string, pipelined)
// must not change the answer.

var httpVariants = []string{"plain", "chunked", "ctype-charset", "no-ctype", "query-string", "expect-continue", "raw-lowercase-headers", "accept-gzip", "pipelined-pair", "http10"}

var gzipClient = &http.Client{Timeout: 20 * time.Second, Transport: &http.Transport{MaxConnsPerHost: 4, IdleConnTimeout: 5 * time.Second}}

func parseResult(status int, b []byte, err error, t0 time.Time) httpResult {
	r := httpResult{Status: status, Body: b, Err: err, Dur: time.Since(t0)}
	if err == nil {
		dec := json.NewDecoder(bytes.NewReader(b))
		dec.UseNumber()
		var m map[string]any
		if dec.Decode(&m) == nil {
			r.JSON = m
		}
	}
	return r
}

type unknownLen struct{ r io.Reader }

func (u unknownLen) Read(p []byte) (int, error) { return u.r.Read(p) }

// doV issues a POST in one of the httpVariants.
func (s *restServer) doV(path string, body []byte, fresh bool, timeout time.Duration, variant int) httpResult {
	v := httpVariants[variant%len(httpVariants)]
	t0 := time.Now()
	switch v {
	case "plain":
		return s.do("POST", path, body, fresh, timeout)
	case "raw-lowercase-headers", "pipelined-pair", "http10":
		freshSem <- struct{}{}
		defer func() { <-freshSem }()
		c, err := net.DialTimeout("tcp", s.addr, 5*time.Second)
		if err != nil {
			return httpResult{Err: err}
		}
		defer c.Close()
		c.SetDeadline(time.Now().Add(timeout))
		var req bytes.Buffer
		n := 1
		switch v {
		case "raw-lowercase-headers":
			fmt.Fprintf(&req, "POST %s HTTP/1.1\r\nhost: x\r\nx-forwarded-for: 10.0.0.1\r\naccept: */*\r\nconnection: close\r\ncontent-type: application/json\r\ncontent-length: %d\r\n\r\n", path, len(body))
			req.Write(body)
		case "http10":
			fmt.Fprintf(&req, "POST %s HTTP/1.0\r\nHost: x\r\nContent-Type: application/json\r\nContent-Length: %d\r\n\r\n", path, len(body))
			req.Write(body)
		default:
			n = 2
			for k := 0; k < 2; k++ {
				conn := "keep-alive"
				if k == 1 {
					conn = "close"
				}
				fmt.Fprintf(&req, "POST %s HTTP/1.1\r\nHost: x\r\nConnection: %s\r\nContent-Type: application/json\r\nContent-Length: %d\r\n\r\n", path, conn, len(body))
				req.Write(body)
			}
		}
		go c.Write(req.Bytes())
		br := bufio.NewReader(c)
		var last httpResult
		for k := 0; k < n; k++ {
			resp, rerr := http.ReadResponse(br, &http.Request{Method: "POST"})
			if rerr != nil {
				return httpResult{Err: fmt.Errorf("%s: response %d of %d: %v", v, k+1, n, rerr), Dur: time.Since(t0)}
			}
			b, rerr := io.ReadAll(io.LimitReader(resp.Body, 8<<20))
			resp.Body.Close()
			cur := parseResult(resp.StatusCode, b, rerr, t0)
			if k == 1 && (cur.Status != last.Status) {
				return httpResult{Err: fmt.Errorf("pipelined pair of identical requests answered %d %s and %d %s", last.Status, trunc(string(last.Body), 120), cur.Status, trunc(string(cur.Body), 120))}
			}
			last = cur
		}
		return last
	}
	cl := sharedClient
	ctx, cancel := context.WithTimeout(context.Background(), timeout)
	defer cancel()
	var rd io.Reader = bytes.NewReader(body)
	url := "http://" + s.addr + path
	if v == "query-string" {
		url += "?trace=1&x=%7B%22secret%22%3A%22A%22%7D&secret=AAAA"
	}
	if v == "chunked" {
		rd = unknownLen{bytes.NewReader(body)}
	}
	req, err := http.NewRequestWithContext(ctx, "POST", url, rd)
	if err != nil {
		return httpResult{Err: err}
	}
	switch v {
	case "chunked":
		req.ContentLength = -1
		req.Header.Set("Content-Type", "application/json")
	case "ctype-charset":
		req.Header.Set("Content-Type", "application/json; charset=utf-8")
	case "no-ctype":
	case "expect-continue":
		req.Header.Set("Content-Type", "application/json")
		req.Header.Set("Expect", "100-continue")
	case "accept-gzip":
		req.Header.Set("Content-Type", "application/json")
		cl = gzipClient // transparent decompression if the service compresses
	default:
		req.Header.Set("Content-Type", "application/json")
	}
	resp, err := cl.Do(req)
	if err != nil {
		return httpResult{Err: err, Dur: time.Since(t0)}
	}
	defer resp.Body.Close()
	b, err := io.ReadAll(io.LimitReader(resp.Body, 8<<20))
	return parseResult(resp.StatusCode, b, err, t0)
}
