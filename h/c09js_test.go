//go:build verif

package verifh

import (
	"bufio"
	"encoding/json"
	"fmt"
	"io"
	"os"
	"os/exec"
	"strings"
	"sync"
	"testing"
	"time"

	"pgregory.net/rapid"

	"verifh/ev"
	"verifh/gen"
	"verifh/ref"
)

// ---------------------------------------------------------------------------
// C09, JavaScript layer. The comparison traces of /verif/h09 see Go code only (library, REST layer, wasm/main.go against
// a stand-in syscall/js). The package users import is otp-js/src/index.js: if its validate* exports obtained the
// expected code from the module and compared it themselves, no Go-level trace would show it. JavaScript has no
// constant-time string equality; `===` on strings stops at the first difference.
//
// Every function the module registers on globalThis is wrapped before the package starts (wasm/driver.js). For a wrong
// code of the right length submitted to the package's validate* export:
//   observe: the call as it is;
//   plain  : every HMAC-derived value a wrapped function returns (a string of 1..10 digits) is replaced by the
//            SUBMITTED code — if the package's verdict turns true, the verdict is computed in JavaScript from a value
//            that crossed the boundary;
//   object : the derived value is replaced by a string-like object that differs from the submitted code at position 0
//            and logs which characters are read — a comparison that reads every position is a constant-time loop, one
//            that reads none (===, ==) or stops after the first difference is early exit.
// Violation = the verdict follows the substituted value AND the comparison does not read all positions.

type c09jsCase struct {
	Fn     string `json:"fn"`
	Key    []byte `json:"key"`
	N      uint64 `json:"n"`
	Digits int    `json:"digits"`
	Algo   int    `json:"algo"`
	Skew   int    `json:"skew"`
	Period int    `json:"period"`
	K      int    `json:"k"` // leading characters of the submitted code that are correct
}

var (
	spyOnce sync.Once
	spyNode *nodeProc
	spyErr  error
)

func jsSpyNode() *nodeProc {
	spyOnce.Do(func() {
		dir := os.Getenv("VERIF_JS_DIR")
		if dir == "" {
			spyErr = fmt.Errorf("VERIF_JS_DIR not set")
			return
		}
		n := &nodeProc{cmd: exec.Command("node", "driver.js")}
		n.cmd.Dir = dir
		n.cmd.Env = append(os.Environ(), "VERIF_JS_SPY=1")
		n.cmd.Stderr = io.Discard
		if n.in, spyErr = n.cmd.StdinPipe(); spyErr != nil {
			return
		}
		so, err := n.cmd.StdoutPipe()
		if err != nil {
			spyErr = err
			return
		}
		n.out = bufio.NewReaderSize(so, 1<<20)
		if spyErr = n.cmd.Start(); spyErr != nil {
			return
		}
		line, err := n.readLine(30 * time.Second)
		if err != nil || !strings.Contains(line, `"ready":true`) {
			spyErr = fmt.Errorf("node driver (spy mode) did not become ready: %q %v", line, err)
			return
		}
		spyNode = n
	})
	if spyErr != nil {
		fmt.Println("INFRA: cannot start node with the wasm module:", spyErr)
		os.Exit(3)
	}
	return spyNode
}

type c09jsRun struct {
	Result jsResult `json:"result"`
	Calls  []struct {
		Name    string `json:"name"`
		Derived bool   `json:"derived"`
	} `json:"calls"`
	Reads []any `json:"reads"`
}

func checkC09JS(c c09jsCase) verdict {
	nd := jsSpyNode()
	centre := c.N
	if c.Fn == "validateTOTP" {
		centre = c.N / uint64(c.Period)
	}
	e := ref.MustHOTP(c.Key, centre, c.Digits, c.Algo)
	_, window := windowSet(c.Key, centre, uint64(c.Skew), c.Digits, c.Algo), 0
	_ = window
	// a wrong code sharing exactly K leading characters with the expected one and not in the window
	ws := windowSet(c.Key, centre, uint64(c.Skew), c.Digits, c.Algo)
	code := []byte(e)
	for bump := byte(1); bump < 10; bump++ {
		code = []byte(e)
		for i := c.K; i < len(code); i++ {
			code[i] = '0' + (code[i]-'0'+bump+byte(i%3))%10
		}
		code[c.K] = '0' + (e[c.K]-'0'+bump)%10
		if _, in := ws[string(code)]; !in {
			break
		}
	}
	if _, in := ws[string(code)]; in {
		return ok(false, "no-wrong-code")
	}
	// the substitute of the object phase differs from the submitted code at position 0
	other := append([]byte(nil), code...)
	other[0] = '0' + (other[0]-'0'+5)%10
	dig, alg := fmt.Sprint(c.Digits), []string{"SHA1", "SHA256", "SHA512"}[c.Algo]
	secret := gen.Spell(c.Key, gen.Spelling{Pad: 1})
	var args []any
	if c.Fn == "validateHOTP" {
		args = []any{secret, string(code), c.N, dig, alg, c.Skew}
	} else {
		args = []any{secret, string(code), c.N, dig, alg, c.Skew, c.Period}
	}
	labels := []string{"fn=" + c.Fn, fmt.Sprintf("digits=%d", c.Digits), fmt.Sprintf("k=%d", c.K)}
	ask := func(substitute string) (map[string]c09jsRun, error) {
		nd.mu.Lock()
		defer nd.mu.Unlock()
		b, _ := json.Marshal(map[string]any{"cmd": "c09", "fn": c.Fn, "args": args, "substitute": substitute})
		if _, err := nd.in.Write(append(b, '\n')); err != nil {
			return nil, err
		}
		line, err := nd.readLine(60 * time.Second)
		if err != nil {
			return nil, err
		}
		var resp struct {
			C09 struct {
				Missing bool     `json:"missing"`
				Observe c09jsRun `json:"observe"`
				Plain   c09jsRun `json:"plain"`
				Object  c09jsRun `json:"object"`
			} `json:"c09"`
		}
		if err := json.Unmarshal([]byte(line), &resp); err != nil {
			return nil, fmt.Errorf("node driver answered %q (%v)", line, err)
		}
		if resp.C09.Missing {
			return nil, nil
		}
		return map[string]c09jsRun{"observe": resp.C09.Observe, "plain": resp.C09.Plain, "object": resp.C09.Object}, nil
	}
	r1, err := ask(string(code))
	if err != nil {
		return bad(true, labels, "%s(%v) through the package: the module stopped answering: %v", c.Fn, args, err)
	}
	if r1 == nil {
		return ok(false, "export-missing") // C20 judges the export table
	}
	if r1["observe"].Result.Type != "boolean" || r1["observe"].Result.Value != false {
		return bad(true, labels, "HARNESS/C20: the package's %s(%v) returned %v for a wrong code (expected code %s)", c.Fn, args, r1["observe"].Result, e)
	}
	if n := len(r1["observe"].Calls); n > 0 {
		labels = append(labels, "module-calls-seen")
	}
	follows := r1["plain"].Result.Type == "boolean" && r1["plain"].Result.Value == true
	if !follows {
		return ok(true, labels...)
	}
	labels = append(labels, "verdict-computed-in-js")
	// the verdict is computed in JavaScript from a value handed over by the module: how does it compare?
	r2, err := ask(string(other))
	if err != nil || r2 == nil {
		return bad(true, labels, "%s(%v) through the package: the module stopped answering: %v", c.Fn, args, err)
	}
	positions := map[int]bool{}
	for _, x := range r2["object"].Reads {
		if f, isNum := x.(float64); isNum {
			positions[int(f)] = true
		}
	}
	if len(positions) >= len(code) {
		return ok(true, append(labels, "js-loop-reads-all-positions")...)
	}
	var names []string
	for _, cl := range r1["plain"].Calls {
		if cl.Derived {
			names = append(names, cl.Name)
		}
	}
	return bad(true, labels, "the package's %s obtains HMAC-derived codes from the module (%s) and decides in JavaScript: with those values replaced by the submitted wrong code %s (expected %s, %d leading characters correct) the verdict turns true, and the comparison reads %d of %d character positions of the derived value (reads: %v) — an early-exit / === comparison outside the constant-time equality",
		c.Fn, strings.Join(names, ","), code, e, c.K, len(positions), len(code), r2["object"].Reads)
}

var c09js = newPart("C09", "js-layer",
	"rapid: validateHOTP / validateTOTP called through the object otp-js/src/index.js exports, under Node with the wasm module built from the working tree; every function the module registers on globalThis is wrapped before the package starts; secrets x counters / instants x digits {6,8,9,10} x three hashes x skew 0..3 x period x wrong codes sharing k = 0..d-1 leading characters with the expected code; oracle: substituting the submitted code for every HMAC-derived value that crosses into JavaScript must not turn the verdict true, unless the JavaScript comparison reads every character position of the derived value (a constant-time loop); all cases non-trivial",
	checkC09JS)

func TestC09JS_Layer(t *testing.T) {
	c09js.rapid(t, ev.Pick(300, 3_000), func(t *rapid.T) c09jsCase {
		c := c09jsCase{Fn: rapid.SampledFrom([]string{"validateHOTP", "validateTOTP"}).Draw(t, "fn"), Key: rapid.SliceOfN(rapid.Byte(), 1, 40).Draw(t, "key"),
			Digits: rapid.SampledFrom([]int{6, 8, 9, 10}).Draw(t, "digits"), Algo: rapid.IntRange(0, 2).Draw(t, "algo"), Skew: rapid.IntRange(0, 3).Draw(t, "skew"),
			Period: rapid.SampledFrom([]int{30, 30, 1, 60, 3600}).Draw(t, "period")}
		c.N = rapid.Uint64Range(100_000, 1<<40).Draw(t, "n")
		c.K = rapid.IntRange(0, c.Digits-1).Draw(t, "k")
		return c
	})
}
