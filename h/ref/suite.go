package ref

import (
	"strings"
)

// Class of a suite string under the three-valued reading used for C15.
type Class int

const (
	// WellFormed: the string is in the RFC 6287 naming grammar (after case
	// folding); if the library accepts it, the configuration must equal the reading.
	WellFormed Class = iota
	// Malformed: named by the rejection clause (missing parts, wrong version,
	// unknown crypto/hash/digits, unknown token, inexpressible challenge length):
	// the library must reject it.
	Malformed
	// Unclassified: anything in between (4th part, duplicate or reordered tokens,
	// time values outside the RFC range, signs / leading zeros): only "no panic".
	Unclassified
)

func (c Class) String() string {
	return [...]string{"wellformed", "malformed", "unclassified"}[c]
}

// Reading is what a suite string says.
type Reading struct {
	Cfg OCRACfg
	// TimeSteps lists the admissible TimeStep values (one value for T<n><unit>;
	// n, 60n, 3600n for the unit-less registered form "T<n>").
	TimeSteps []int
	Why       string
}

func isDigits(s string) bool {
	if s == "" {
		return false
	}
	for i := 0; i < len(s); i++ {
		if s[i] < '0' || s[i] > '9' {
			return false
		}
	}
	return true
}

func atoiSmall(s string) int {
	n := 0
	for i := 0; i < len(s); i++ {
		n = n*10 + int(s[i]-'0')
		if n > 1_000_000 {
			return 1_000_000
		}
	}
	return n
}

func upperASCII(s string) string {
	b := []byte(s)
	for i, c := range b {
		if c >= 'a' && c <= 'z' {
			b[i] = c - 32
		}
	}
	return string(b)
}

// ReadSuite reads a suite string independently of the library.
// allowUnitlessT admits the registered form "T<n>" (no unit).
func ReadSuite(raw string, allowUnitlessT bool) (Reading, Class) {
	r := Reading{Cfg: OCRACfg{Raw: raw, SessionNN: -1}}
	parts := strings.Split(raw, ":")
	if len(parts) < 3 {
		r.Why = "fewer than 3 parts"
		return r, Malformed
	}
	cls := WellFormed
	demote := func(why string) {
		if cls == WellFormed {
			cls = Unclassified
			r.Why = why
		}
	}
	if len(parts) > 3 {
		demote("more than 3 parts")
	}
	if upperASCII(parts[0]) != "OCRA-1" {
		r.Why = "version is not OCRA-1"
		return r, Malformed
	}
	// crypto function
	cp := strings.Split(upperASCII(parts[1]), "-")
	if len(cp) != 3 || cp[0] != "HOTP" {
		r.Why = "crypto function is not HOTP-<hash>-<digits>"
		return r, Malformed
	}
	switch cp[1] {
	case "SHA1":
		r.Cfg.Hash = 0
	case "SHA256":
		r.Cfg.Hash = 1
	case "SHA512":
		r.Cfg.Hash = 2
	default:
		r.Why = "unknown hash"
		return r, Malformed
	}
	if !isDigits(cp[2]) {
		if len(cp[2]) > 1 && (cp[2][0] == '+' || cp[2][0] == '-') && isDigits(cp[2][1:]) {
			// signed digit count: not named by the rejection clause
			return r, Unclassified
		}
		r.Why = "digits are not a number"
		return r, Malformed
	}
	if len(cp[2]) > 1 && cp[2][0] == '0' {
		demote("digits with leading zero")
	}
	r.Cfg.Digits = atoiSmall(cp[2])

	// data input
	seen := map[byte]bool{}
	order := "CQPST"
	last := -1
	for _, tok := range strings.Split(parts[2], "-") {
		u := upperASCII(tok)
		if u == "" {
			r.Why = "empty token"
			return r, Malformed
		}
		k := u[0]
		pos := strings.IndexByte(order, k)
		if pos < 0 {
			r.Why = "token with unknown first letter"
			return r, Malformed
		}
		switch k {
		case 'C':
			if u != "C" {
				r.Why = "unknown token " + tok
				return r, Malformed
			}
			r.Cfg.C = true
		case 'Q':
			if len(u) != 4 || (u[1] != 'N' && u[1] != 'A' && u[1] != 'H') || !isDigits(u[2:]) {
				r.Why = "unknown token " + tok
				return r, Malformed
			}
			var base int
			switch u[1] {
			case 'N':
				base = 1
			case 'A':
				base = 3
			case 'H':
				base = 5
			}
			switch u[2:] {
			case "08":
				r.Cfg.QFormat = base
			case "10":
				r.Cfg.QFormat = base + 1
			default:
				r.Why = "challenge length the configuration cannot express"
				return r, Malformed
			}
			r.Cfg.Q = true
		case 'P':
			switch u {
			case "PSHA1":
				r.Cfg.PHash = 1
			case "PSHA256":
				r.Cfg.PHash = 2
			case "PSHA512":
				r.Cfg.PHash = 3
			default:
				r.Why = "unknown password hash token " + tok
				return r, Malformed
			}
			r.Cfg.P = true
		case 'S':
			if u == "S" {
				r.Cfg.S = true
			} else if len(u) == 4 && isDigits(u[1:]) {
				r.Cfg.S = true
				r.Cfg.SessionNN = atoiSmall(u[1:])
			} else {
				r.Why = "unknown token " + tok
				return r, Malformed
			}
		case 'T':
			body := u[1:]
			if body == "" {
				r.Why = "T without a number"
				return r, Malformed
			}
			if isDigits(body) {
				// unit-less: the registered names use "T1"
				n := atoiSmall(body)
				if allowUnitlessT && n >= 1 && body[0] != '0' {
					r.TimeSteps = []int{n, 60 * n, 3600 * n}
				} else {
					demote("unit-less time step")
				}
				r.Cfg.T = true
				break
			}
			num, unit := body[:len(body)-1], body[len(body)-1]
			if !isDigits(num) {
				if len(num) > 1 && (num[0] == '+' || num[0] == '-') && isDigits(num[1:]) {
					demote("signed time value")
					r.Cfg.T = true
					break
				}
				r.Why = "T without a number"
				return r, Malformed
			}
			n := atoiSmall(num)
			var mul, max int
			switch unit {
			case 'S':
				mul, max = 1, 59
			case 'M':
				mul, max = 60, 59
			case 'H':
				mul, max = 3600, 48
			default:
				r.Why = "unknown time unit"
				return r, Malformed
			}
			if n < 1 || n > max || num[0] == '0' {
				demote("time value outside the RFC range")
			}
			r.TimeSteps = []int{n * mul}
			r.Cfg.T = true
		}
		if seen[k] {
			demote("duplicate token")
		}
		seen[k] = true
		if pos <= last {
			demote("tokens out of order")
		}
		if pos > last {
			last = pos
		}
	}
	if len(r.TimeSteps) >= 1 {
		r.Cfg.TimeStep = r.TimeSteps[0] // for the unit-less form: the first admissible reading
	}
	return r, cls
}
