// Package ref holds the independent oracles. Nothing here imports the library
// under test: HMAC is written out from its definition over the standard hash
// primitives, truncation/modulo/formatting go through uint64 and fmt, base32 is
// a from-scratch RFC 4648 encoder, and the OCRA message is built field by field
// from the RFC 6287 layout.
package ref

import (
	"crypto/sha1"
	"crypto/sha256"
	"crypto/sha512"
	"errors"
	"fmt"
	"hash"
)

// Hash numbering follows the public enum: 0 SHA-1, 1 SHA-256, 2 SHA-512.
func hashFor(algo int) (func() hash.Hash, int, bool) {
	switch algo {
	case 0:
		return sha1.New, 64, true
	case 1:
		return sha256.New, 64, true
	case 2:
		return sha512.New, 128, true
	}
	return nil, 0, false
}

// HMAC per RFC 2104, from the definition.
func HMAC(algo int, key, msg []byte) []byte {
	h, block, ok := hashFor(algo)
	if !ok {
		panic("ref.HMAC: bad algo")
	}
	if len(key) > block {
		hh := h()
		hh.Write(key)
		key = hh.Sum(nil)
	}
	k := make([]byte, block)
	copy(k, key)
	ipad := make([]byte, block)
	opad := make([]byte, block)
	for i := range k {
		ipad[i] = k[i] ^ 0x36
		opad[i] = k[i] ^ 0x5c
	}
	in := h()
	in.Write(ipad)
	in.Write(msg)
	inner := in.Sum(nil)
	out := h()
	out.Write(opad)
	out.Write(inner)
	return out.Sum(nil)
}

// Pow10 as uint64, d in 0..19.
func Pow10(d int) uint64 {
	r := uint64(1)
	for i := 0; i < d; i++ {
		r *= 10
	}
	return r
}

// DT is RFC 4226 dynamic truncation: 31-bit number.
func DT(sum []byte) uint32 {
	off := int(sum[len(sum)-1] & 0x0f)
	v := uint32(sum[off]&0x7f)<<24 | uint32(sum[off+1])<<16 | uint32(sum[off+2])<<8 | uint32(sum[off+3])
	return v
}

// Render reduces v modulo 10^digits and left-pads with '0'.
func Render(v uint32, digits int) string {
	return fmt.Sprintf("%0*d", digits, uint64(v)%Pow10(digits))
}

var ErrUnsupported = errors.New("ref: unsupported parameter")

// HOTP is the RFC 4226 value; digits 1..10 and algo 0..2 are supported.
func HOTP(key []byte, counter uint64, digits int, algo int) (string, error) {
	if digits < 1 || digits > 10 || algo < 0 || algo > 2 {
		return "", ErrUnsupported
	}
	var c [8]byte
	for i := 0; i < 8; i++ {
		c[i] = byte(counter >> (56 - 8*uint(i)))
	}
	return Render(DT(HMAC(algo, key, c[:])), digits), nil
}

// MustHOTP panics on unsupported parameters (harness-internal use).
func MustHOTP(key []byte, counter uint64, digits int, algo int) string {
	s, err := HOTP(key, counter, digits, algo)
	if err != nil {
		panic(err)
	}
	return s
}

// ---------------------------------------------------------------------------
// base32 (RFC 4648, standard alphabet)

const b32 = "ABCDEFGHIJKLMNOPQRSTUVWXYZ234567"

// B32 encodes without padding.
func B32(b []byte) string {
	out := make([]byte, 0, (len(b)*8+4)/5)
	var acc uint32
	bits := 0
	for _, x := range b {
		acc = acc<<8 | uint32(x)
		bits += 8
		for bits >= 5 {
			out = append(out, b32[(acc>>(uint(bits)-5))&31])
			bits -= 5
		}
	}
	if bits > 0 {
		out = append(out, b32[(acc<<(5-uint(bits)))&31])
	}
	return string(out)
}

// B32Pad encodes with canonical '=' padding to a multiple of 8.
func B32Pad(b []byte) string {
	s := B32(b)
	for len(s)%8 != 0 {
		s += "="
	}
	return s
}

// ---------------------------------------------------------------------------
// OCRA (RFC 6287)

// OCRACfg mirrors what a suite selects; it is filled by the harness either
// from a hand-built configuration or from the independent name reader.
type OCRACfg struct {
	Raw       string
	Hash      int
	Digits    int
	C, Q, P   bool
	S, T      bool
	QFormat   int // 0 none, 1 N08, 2 N10, 3 A08, 4 A10, 5 H08, 6 H10
	PHash     int // 0 none, 1 SHA1, 2 SHA256, 3 SHA512
	TimeStep  int
	SessionNN int // nnn of Snnn if written, else -1 (informational)
}

// OCRAIn are the five data fields.
type OCRAIn struct {
	C, Q, P, S, T []byte
}

// QMin is the minimal challenge length for a format.
func QMin(f int) int {
	switch f {
	case 1, 3, 5:
		return 8
	case 2, 4, 6:
		return 10
	}
	return 0
}

// PLen is the password-hash length for a password-hash id.
func PLen(p int) int {
	switch p {
	case 1:
		return 20
	case 2:
		return 32
	case 3:
		return 64
	}
	return -1
}

// SuiteUsable is the usability predicate of the statement of C14:
// digits 4..10, supported hash, every selected field has its format /
// password hash / positive time step specified.
func SuiteUsable(c OCRACfg) bool {
	if c.Digits < 4 || c.Digits > 10 {
		return false
	}
	if c.Hash < 0 || c.Hash > 2 {
		return false
	}
	if c.Q && c.QFormat == 0 {
		return false
	}
	if c.P && c.PHash == 0 {
		return false
	}
	if c.T && c.TimeStep <= 0 {
		return false
	}
	return true
}

// Admissible is the input admission predicate of the statement of C14.
// Only defined for QFormat 0..6 and PHash 0..3.
func Admissible(c OCRACfg, in OCRAIn) bool {
	if c.C && len(in.C) != 8 {
		return false
	}
	if c.Q {
		if len(in.Q) < QMin(c.QFormat) || len(in.Q) > 128 {
			return false
		}
	}
	if c.P {
		if len(in.P) == 0 || len(in.P) != PLen(c.PHash) {
			return false
		}
	}
	if c.S && len(in.S) > 128 {
		return false
	}
	if c.T && len(in.T) != 8 {
		return false
	}
	return true
}

func padRight(b []byte, n int) []byte {
	out := make([]byte, n)
	copy(out, b)
	return out
}

// OCRAMessage builds DataInput = suite ‖ 00 ‖ [C] ‖ [Q→128] ‖ [P] ‖ [S→128] ‖ [T].
func OCRAMessage(c OCRACfg, in OCRAIn) []byte {
	msg := []byte(c.Raw)
	msg = append(msg, 0)
	if c.C {
		msg = append(msg, in.C...)
	}
	if c.Q {
		msg = append(msg, padRight(in.Q, 128)...)
	}
	if c.P {
		msg = append(msg, in.P...)
	}
	if c.S {
		msg = append(msg, padRight(in.S, 128)...)
	}
	if c.T {
		msg = append(msg, in.T...)
	}
	return msg
}

// OCRA is the RFC 6287 value for a usable suite and an admissible input.
func OCRA(key []byte, c OCRACfg, in OCRAIn) (string, error) {
	if !SuiteUsable(c) || !Admissible(c, in) {
		return "", ErrUnsupported
	}
	return Render(DT(HMAC(c.Hash, key, OCRAMessage(c, in))), c.Digits), nil
}

// Offset returns the dynamic-truncation offset of the HOTP digest (for classification).
func Offset(key []byte, counter uint64, algo int) int {
	var c [8]byte
	for i := 0; i < 8; i++ {
		c[i] = byte(counter >> (56 - 8*uint(i)))
	}
	s := HMAC(algo, key, c[:])
	return int(s[len(s)-1] & 0x0f)
}

// B32DecodeLoose decodes a string of base32 alphabet characters (upper-case, no
// padding), ignoring the unused trailing bits. ok=false if a character is outside
// the alphabet or the length is impossible (1, 3, 6 mod 8).
func B32DecodeLoose(s string) ([]byte, bool) {
	switch len(s) % 8 {
	case 1, 3, 6:
		return nil, false
	}
	var out []byte
	var acc uint32
	bits := 0
	for i := 0; i < len(s); i++ {
		c := s[i]
		var v int
		switch {
		case c >= 'A' && c <= 'Z':
			v = int(c - 'A')
		case c >= '2' && c <= '7':
			v = int(c-'2') + 26
		default:
			return nil, false
		}
		acc = acc<<5 | uint32(v)
		bits += 5
		if bits >= 8 {
			out = append(out, byte(acc>>(uint(bits)-8)))
			bits -= 8
		}
	}
	return out, true
}
