package verifh

import (
	"fmt"
	"testing"

	otp "github.com/ja7ad/otp"
	"pgregory.net/rapid"

	"verifh/ev"
	"verifh/gen"
	"verifh/ref"
)

// ---------------------------------------------------------------------------
// C05 — OCRA codes are exactly the RFC 6287 value over the documented layout.

type c05Case struct {
	Suite suiteSpec    `json:"suite"`
	Key   []byte       `json:"key"`
	Sp    gen.Spelling `json:"spelling"`
	In    ref.OCRAIn   `json:"in"`   // admissible contents of the selected fields
	Junk  ref.OCRAIn   `json:"junk"` // contents put into the unselected fields for the second call
	// Spare > 0: every field is handed over as a prefix of a larger array whose spare capacity
	// (Spare bytes behind the length) is filled with non-zero bytes — padding must still be zeros.
	Spare int `json:"spare"`
	// an operation of another family run immediately before the call (see disturb; omitted = none)
	Before int `json:"before,omitempty"`
}

// withSpare returns a slice equal to b whose backing array continues with n garbage bytes.
func withSpare(b []byte, n int) []byte {
	if b == nil || n <= 0 {
		return b
	}
	arr := make([]byte, len(b)+n)
	copy(arr, b)
	for i := len(b); i < len(arr); i++ {
		arr[i] = 0xEE - byte(i)
	}
	return arr[:len(b)]
}

func spareIn(in ref.OCRAIn, n int) otp.OCRAInput {
	return otp.OCRAInput{Counter: withSpare(in.C, n), Challenge: withSpare(in.Q, n), Password: withSpare(in.P, n), SessionInfo: withSpare(in.S, n), Timestamp: withSpare(in.T, n)}
}

func checkC05(c c05Case) verdict {
	suite, cfg, lerr := c.Suite.resolve()
	labels := []string{c.Suite.label()}
	if lerr != nil {
		if c.Suite.Via == "parsed" {
			// a well-formed name the parser does not support: C15's business, not C05's
			return ok(false, append(labels, "parser-rejects")...)
		}
		return bad(true, labels, "library refused a usable suite %+v: %v", c.Suite, lerr)
	}
	secret := gen.Spell(c.Key, c.Sp)
	want, rerr := ref.OCRA(c.Key, cfg, c.In)
	if rerr != nil {
		return bad(true, labels, "HARNESS: generator produced an unusable case: %+v", cfg)
	}
	labels = append(labels, fmt.Sprintf("fields=%d", fieldCount(cfg)), fmt.Sprintf("digits=%d", cfg.Digits), fmt.Sprintf("hash=%d", cfg.Hash))
	if cfg.Q && len(c.In.Q) < 128 {
		labels = append(labels, "q<128")
	}
	if cfg.S {
		labels = append(labels, "session")
	}
	if want[0] == '0' {
		labels = append(labels, "leading0")
	}
	msgLen := len(cfg.Raw) + 1
	for _, x := range [][]byte{c.In.C, c.In.P, c.In.T} {
		msgLen += len(x)
	}
	if cfg.Q {
		msgLen += 128
	}
	if cfg.S {
		msgLen += 128
	}
	if msgLen > 256 {
		labels = append(labels, "msg>256")
	}
	nt := (cfg.Q && len(c.In.Q) < 128) || cfg.S || fieldCount(cfg) >= 3 || (cfg.Digits != 6 && cfg.Digits != 8) || !rfcVectorSuites[cfg.Raw]
	if c.Spare > 0 {
		labels = append(labels, "spare-capacity")
	}
	disturb(c.Before, secret)
	got, err := otp.GenerateOCRA(secret, suite, spareIn(c.In, c.Spare))
	if err != nil || got != want {
		return bad(nt, labels, "GenerateOCRA(suite %q via %s, cfg %+v, in %x) = %q, %v; RFC 6287 value is %q", cfg.Raw, c.Suite.Via, cfg, c.In, got, err, want)
	}
	if e := retainCheck(got, "OCRA code"); e != nil {
		return bad(true, labels, "%v", e)
	}
	// unselected fields have no influence
	for i, alt := range []ref.OCRAIn{overlay(cfg, c.In, c.Junk), overlay(cfg, c.In, ref.OCRAIn{})} {
		g2, e2 := otp.GenerateOCRA(secret, suite, spareIn(alt, c.Spare))
		if e2 != nil || g2 != want {
			return bad(true, append(labels, "unselected-garbage"), "GenerateOCRA changes with unselected fields (variant %d: %x): %q, %v; want %q", i, alt, g2, e2, want)
		}
	}
	return ok(nt, labels...)
}

var c05Main = newPart("C05", "main",
	"rapid: suite from {45 registered names, well-formed grammar strings the parser accepts, hand-built SuiteConfig over hash x digits 4..10 x every subset of {C,Q,P,S,T} x formats x password hashes with arbitrary Raw text passed as SuiteConfig / RawSuite{} / NewSuite} x secret (C01 keys, spellings) x admissible inputs with boundary lengths (challenge min..128, session 0..128 incl. nil) ; oracle: independent RFC 6287 message builder + HMAC + truncation; one case in three hands every field over as a prefix of a larger array with non-zero spare capacity (padding must be zeros, not the caller's memory behind the length); metamorphic: arbitrary junk and nil in unselected fields leave the code unchanged; non-trivial = challenge < 128 bytes or session selected or >= 3 fields or digits not in {6,8} or suite not one of the five RFC-vector suites",
	checkC05)

func genC05(t *rapid.T) c05Case {
	c := genC05Base(t)
	c.Before = drawDisturb(t) // drawn last: the cases of a seed are otherwise what they were
	return c
}

func genC05Base(t *rapid.T) c05Case {
	c := c05Case{Suite: drawSuite(t), Key: gen.Key().Draw(t, "key"), Sp: gen.DrawSpelling(t)}
	_, cfg, _ := c.Suite.resolve()
	c.In = drawAdmissible(t, cfg)
	c.Junk = drawJunk(t)
	if rapid.IntRange(0, 2).Draw(t, "spareK") == 0 {
		c.Spare = rapid.SampledFrom([]int{1, 8, 120, 128, 200}).Draw(t, "spare")
	}
	return c
}

func TestC05_Main(t *testing.T) {
	c05Main.rapid(t, ev.Pick(30_000, 400_000), genC05)
}

// Every registered suite x every digits/hash hand-built twin, enumerated.
var c05Reg = newPart("C05", "registered",
	"complete: each of the advertised suite names x 6 fixed inputs (challenge at min length, min+1, 127, 128 bytes; session empty/128; counter and timestamp 0 and 2^64-1 patterns); oracle as main; every case distinct",
	checkC05)

func TestC05_Registered(t *testing.T) {
	defer c05Reg.rec().Flush()
	i := 0
	for _, name := range registeredNames {
		rd, _ := ref.ReadSuite(name, true)
		cfg := rd.Cfg
		for v := 0; v < 6; v++ {
			i++
			if !ev.Mine(i) {
				continue
			}
			var in ref.OCRAIn
			fill := func(n int, b byte) []byte {
				x := make([]byte, n)
				for k := range x {
					x[k] = b + byte(k)
				}
				return x
			}
			if cfg.C {
				in.C = fill(8, byte(v*31))
			}
			if cfg.Q {
				n := []int{ref.QMin(cfg.QFormat), ref.QMin(cfg.QFormat) + 1, 127, 128, 64, 20}[v]
				in.Q = fill(n, byte(v))
			}
			if cfg.P {
				in.P = fill(ref.PLen(cfg.PHash), byte(200+v))
			}
			if cfg.S {
				in.S = fill([]int{0, 1, 127, 128, 64, 100}[v], byte(7*v))
			}
			if cfg.T {
				in.T = fill(8, byte(0xf8+v))
			}
			c05Reg.each(t, c05Case{Suite: suiteSpec{Via: "registered", Name: name}, Key: fill(20+v*20, 1), Sp: gen.Spelling{Pad: 1}, In: in,
				Junk: ref.OCRAIn{C: fill(3, 1), Q: fill(200, 2), P: fill(5, 3), S: fill(300, 4), T: fill(9, 5)}, Spare: []int{0, 130, 0, 7, 0, 200}[v]})
		}
	}
	c05Reg.rec().Exhaustive()
}
