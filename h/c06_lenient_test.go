package verifh

import (
	"crypto/sha1"
	"crypto/sha256"
	"crypto/sha512"
	"fmt"
	"strings"
	"testing"
	"time"

	otp "github.com/ja7ad/otp"
	"pgregory.net/rapid"

	"verifh/ev"
	"verifh/gen"
	"verifh/ref"
)

// ---------------------------------------------------------------------------
// C06 lenient completions — "Whenever generation would fail (undecodable secret, invalid suite, inadmissible
// input) validation returns false together with an error rather than accepting". A validator that quietly
// completes or repairs the data (fills a missing timestamp from its clock, pads or truncates a field, strips
// foreign characters from the secret, clamps the digits) accepts exactly one kind of string: the code of the
// repaired data. The main part submits the code of the generator's own unbroken draw; this part computes, at
// check time, the codes of every repair a lenient implementation could plausibly make and submits each.
//
// The check reads the wall clock (a timestamp "now" is one of the repairs). On a tree where the property
// holds the verdict does not depend on it: every submission must be refused whatever it is.

type c06LenCase struct {
	Suite  suiteSpec  `json:"suite"`
	Key    []byte     `json:"key"`    // raw key behind Secret before it was corrupted
	Secret string     `json:"secret"` // as passed
	In     ref.OCRAIn `json:"in"`     // as passed
}

func fit(b []byte, n int, left bool) []byte {
	if len(b) >= n {
		if left {
			return b[len(b)-n:]
		}
		return b[:n]
	}
	out := make([]byte, n)
	if left {
		copy(out[n-len(b):], b)
	} else {
		copy(out, b)
	}
	return out
}

// lenientCode renders the code ignoring admission and most of usability (digits 1..10, a known hash).
func lenientCode(key []byte, cfg ref.OCRACfg, in ref.OCRAIn) (string, bool) {
	if cfg.Hash < 0 || cfg.Hash > 2 || cfg.Digits < 1 || cfg.Digits > 10 {
		return "", false
	}
	return ref.Render(ref.DT(ref.HMAC(cfg.Hash, key, ref.OCRAMessage(cfg, in))), cfg.Digits), true
}

// repairs lists (description, key, configuration, input) tuples a lenient validator might use instead of the data as passed.
func (c c06LenCase) repairs(cfg ref.OCRACfg, now time.Time) (out []struct {
	what string
	key  []byte
	cfg  ref.OCRACfg
	in   ref.OCRAIn
}) {
	add := func(what string, key []byte, cf ref.OCRACfg, in ref.OCRAIn) {
		out = append(out, struct {
			what string
			key  []byte
			cfg  ref.OCRACfg
			in   ref.OCRAIn
		}{what, key, cf, in})
	}
	keys := map[string][]byte{"key": c.Key}
	// secrets: what remains after dropping foreign characters / mapping look-alike digits
	clean := strings.Map(func(r rune) rune {
		switch {
		case r >= 'a' && r <= 'z':
			return r - 32
		case r >= 'A' && r <= 'Z', r >= '2' && r <= '7':
			return r
		case r == '0':
			return 'O'
		case r == '1':
			return 'I'
		case r == '8':
			return 'B'
		}
		return -1
	}, c.Secret)
	for n := len(clean); n > 0 && n > len(clean)-3; n-- {
		if k, okk := ref.B32DecodeLoose(clean[:n]); okk {
			keys[fmt.Sprintf("secret-cleaned[:%d]", n)] = k
			break
		}
	}
	keys["empty-key"] = nil
	keys["secret-text-as-key"] = []byte(c.Secret)
	for kn, key := range keys {
		in := c.In
		add(kn+"/as-passed", key, cfg, in)
		// digits clamped into range
		if cfg.Digits < 4 || cfg.Digits > 10 {
			for _, d := range []int{4, 6, 8, 10} {
				cf := cfg
				cf.Digits = d
				add(fmt.Sprintf("%s/digits=%d", kn, d), key, cf, in)
			}
		}
		if cfg.Hash < 0 || cfg.Hash > 2 {
			cf := cfg
			cf.Hash = 0
			add(kn+"/hash=SHA1", key, cf, in)
		}
		if cfg.C && len(in.C) != 8 {
			r := in
			r.C = fit(in.C, 8, true)
			add(kn+"/counter-left-fitted", key, cfg, r)
			r.C = fit(in.C, 8, false)
			add(kn+"/counter-right-fitted", key, cfg, r)
		}
		if cfg.T && len(in.T) != 8 {
			r := in
			r.T = fit(in.T, 8, true)
			add(kn+"/timestamp-left-fitted", key, cfg, r)
			r.T = fit(in.T, 8, false)
			add(kn+"/timestamp-right-fitted", key, cfg, r)
			steps := []int{cfg.TimeStep, 1, 30, 60}
			for _, st := range steps {
				if st <= 0 {
					continue
				}
				for d := int64(-1); d <= 2; d++ {
					r.T = be8(uint64(now.Unix()/int64(st) + d))
					add(fmt.Sprintf("%s/timestamp=now/%d%+d", kn, st, d), key, cfg, r)
				}
			}
			r.T = be8(uint64(now.UnixMilli()))
			add(kn+"/timestamp=now-ms", key, cfg, r)
		}
		if cfg.T && cfg.TimeStep <= 0 { // unusable: a default step
			for _, st := range []int{1, 30, 60} {
				cf := cfg
				cf.TimeStep = st
				add(fmt.Sprintf("%s/timestep=%d", kn, st), key, cf, in)
			}
		}
		if cfg.Q {
			r := in
			if len(in.Q) > 128 {
				r.Q = in.Q[:128]
				add(kn+"/challenge-truncated", key, cfg, r)
			}
			if len(in.Q) < ref.QMin(cfg.QFormat) {
				r.Q = append(append([]byte{}, in.Q...), []byte(strings.Repeat("0", ref.QMin(cfg.QFormat)-len(in.Q)))...)
				add(kn+"/challenge-padded-with-'0'", key, cfg, r)
			}
		}
		if cfg.P {
			want := ref.PLen(cfg.PHash)
			if want > 0 && len(in.P) != want {
				r := in
				switch cfg.PHash {
				case 1:
					h := sha1.Sum(in.P)
					r.P = h[:]
				case 2:
					h := sha256.Sum256(in.P)
					r.P = h[:]
				case 3:
					h := sha512.Sum512(in.P)
					r.P = h[:]
				}
				add(kn+"/password-hashed-for-the-caller", key, cfg, r)
				r.P = fit(in.P, want, false)
				add(kn+"/password-right-fitted", key, cfg, r)
				r.P = fit(in.P, want, true)
				add(kn+"/password-left-fitted", key, cfg, r)
			}
			if want <= 0 { // no password hash named: any hash of the field, or the field dropped
				cf := cfg
				cf.P = false
				add(kn+"/password-ignored", key, cf, in)
			}
		}
		if cfg.S && len(in.S) > 128 {
			r := in
			r.S = in.S[:128]
			add(kn+"/session-truncated", key, cfg, r)
			r.S = in.S[len(in.S)-128:]
			add(kn+"/session-tail", key, cfg, r)
		}
		if cfg.Q && cfg.QFormat == 0 {
			cf := cfg
			cf.QFormat = 1
			add(kn+"/challenge-format=N08", key, cf, in)
		}
	}
	return out
}

func checkC06Len(c c06LenCase) verdict {
	labels := []string{c.Suite.label()}
	suite, cfg, _ := c.Suite.resolve()
	if suite == nil {
		return ok(false, append(labels, "suite-constructor-nil")...)
	}
	in := toLibIn(c.In)
	if _, gerr := otp.GenerateOCRA(c.Secret, suite, in); gerr == nil {
		return ok(false, append(labels, "generates")...) // generation succeeds: the main part's subject
	}
	labels = append(labels, "generation-fails")
	reps := c.repairs(cfg, time.Now())
	tried := 0
	seen := map[string]bool{}
	for _, r := range reps {
		code, okk := lenientCode(r.key, r.cfg, r.in)
		if !okk || seen[code] {
			continue
		}
		seen[code] = true
		tried++
		got, err := otp.ValidateOCRA(c.Secret, code, suite, in)
		if got || err == nil {
			return bad(true, labels, "generation fails for these data, but ValidateOCRA accepts %q = (%v, %v): the code of the repaired data (%s)", code, got, err, r.what)
		}
	}
	labels = append(labels, fmt.Sprintf("repairs=%d", min(tried, 10)/5*5))
	return ok(tried > 0, labels...)
}

var c06Len = newPart("C06", "lenient-completions",
	"rapid: data for which generation fails (undecodable secret, unusable hand-built configuration, one selected field missing / too short / too long) with, as submitted strings, the codes of every repair a lenient validator could make, computed at check time by the reference: the field left- or right-fitted to its width, truncated to 128, padded with '0', the password hashed for the caller, a missing timestamp filled from the clock (now / step for the suite's step and 1, 30, 60, with -1..+2 steps, and now in ms), digits clamped to 4/6/8/10, hash defaulted to SHA-1, a default time step or challenge format, the secret with foreign characters dropped or look-alike digits mapped, an empty key; oracle: ValidateOCRA returns (false, error) for each; non-trivial = generation fails and at least one repair code was submitted",
	checkC06Len)

func TestC06_Lenient(t *testing.T) {
	c06Len.rapid(t, ev.Pick(6_000, 120_000), func(t *rapid.T) c06LenCase {
		c := c06LenCase{Suite: drawSuite(t), Key: gen.Key().Draw(t, "key")}
		_, cfg, _ := c.Suite.resolve()
		in := drawAdmissible(t, cfg)
		full := overlay(cfg, in, drawJunk(t))
		c.Secret = gen.Spell(c.Key, gen.DrawSpelling(t))
		kind := rapid.IntRange(0, 5).Draw(t, "failKind")
		if kind == 1 && (c.Suite.Via == "registered" || c.Suite.Via == "parsed") {
			kind = 2
		}
		switch kind {
		case 0: // undecodable secret: a foreign or look-alike character inside an otherwise good text
			b := []byte(strings.TrimRight(strings.TrimSpace(c.Secret), "="))
			if len(b) == 0 {
				b = []byte("A")
			}
			i := rapid.IntRange(0, len(b)-1).Draw(t, "badPos")
			b[i] = rapid.SampledFrom([]byte{'0', '1', '8', '9', '!', '-', ' ', '_', '.'}).Draw(t, "badCh")
			c.Secret = string(b)
		case 1: // unusable configuration
			switch rapid.IntRange(0, 4).Draw(t, "badCfg") {
			case 0:
				c.Suite.Cfg.Digits = rapid.SampledFrom([]int{-1, 0, 1, 2, 3, 11, 12, 100}).Draw(t, "badDigits")
			case 1:
				c.Suite.Cfg.Hash = rapid.SampledFrom([]int{3, 4, 255, -1}).Draw(t, "badHash")
			case 2:
				c.Suite.Cfg.Q, c.Suite.Cfg.QFormat = true, 0
				full.Q = drawBytes(t, 8, "q0")
			case 3:
				c.Suite.Cfg.P, c.Suite.Cfg.PHash = true, 0
				full.P = drawBytes(t, rapid.SampledFrom([]int{0, 4, 20, 32}).Draw(t, "p0n"), "p0")
			case 4:
				c.Suite.Cfg.T, c.Suite.Cfg.TimeStep = true, rapid.SampledFrom([]int{0, -1}).Draw(t, "badStep")
				full.T = drawBytes(t, 8, "t0")
			}
			if c.Suite.Via == "newsuite" {
				c.Suite.Via = "rawsuite"
			}
		default: // inadmissible input: one selected field missing, short or long
			var sel []string
			for _, f := range []struct {
				on bool
				n  string
			}{{cfg.C, "C"}, {cfg.Q, "Q"}, {cfg.P, "P"}, {cfg.S, "S"}, {cfg.T, "T"}, {cfg.T, "T"}, {cfg.T, "T"}} {
				if f.on {
					sel = append(sel, f.n)
				}
			}
			if len(sel) > 0 {
				switch rapid.SampledFrom(sel).Draw(t, "breakField") {
				case "C":
					full.C = drawBytes(t, rapid.SampledFrom([]int{0, 1, 4, 7, 9, 16}).Draw(t, "bc"), "bcb")
				case "Q":
					full.Q = drawBytes(t, rapid.SampledFrom([]int{0, 1, ref.QMin(cfg.QFormat) - 1, 129, 200}).Draw(t, "bq"), "bqb")
				case "P":
					full.P = drawBytes(t, rapid.SampledFrom([]int{0, 4, 6, ref.PLen(cfg.PHash) - 1, ref.PLen(cfg.PHash) + 1, 128}).Draw(t, "bp"), "bpb")
				case "S":
					full.S = drawBytes(t, rapid.SampledFrom([]int{129, 130, 256}).Draw(t, "bs"), "bsb")
				case "T":
					full.T = drawBytes(t, rapid.SampledFrom([]int{0, 0, 0, 4, 7, 9}).Draw(t, "bt"), "btb")
				}
			}
		}
		c.In = full
		return c
	})
	if c06Len.rec().LabelCount("generation-fails") == 0 {
		t.Fatalf("INFRA: no failing generation was drawn")
	}
}
