package verifh

import (
	"errors"
	"fmt"
	"strconv"
	"strings"
	"testing"

	otp "github.com/ja7ad/otp"
	"pgregory.net/rapid"

	"verifh/ev"
	"verifh/gen"
	"verifh/ref"
)

// ---------------------------------------------------------------------------
// C06 — OCRA validation accepts a string iff generation returns it for the same data.

type c06Case struct {
	Suite   suiteSpec  `json:"suite"`
	Secret  string     `json:"secret"` // text as passed (may be undecodable)
	In      ref.OCRAIn `json:"in"`     // all five fields as passed (may be inadmissible)
	Code    []byte     `json:"code"`
	Origin  string     `json:"origin"`
	Failing string     `json:"failing"` // "", "secret", "suite", "input": why generation is expected to fail
	// an operation of another family run immediately before the call (see disturb; omitted = none)
	Before int `json:"before,omitempty"`
}

func checkC06(c c06Case) verdict {
	labels := []string{c.Suite.label(), "origin=" + c.Origin}
	suite, _, lerr := c.Suite.resolve()
	if lerr != nil || suite == nil {
		// the suite could not even be instantiated: use the value the constructor returned
		// when it is a usable interface value, otherwise skip (nil Suite is outside C10's domain)
		if suite == nil {
			return ok(false, append(labels, "suite-constructor-nil")...)
		}
		labels = append(labels, "constructor-error")
	}
	in := toLibIn(c.In)
	disturb(c.Before, c.Secret)
	g, gerr := otp.GenerateOCRA(c.Secret, suite, in)
	got, err := otp.ValidateOCRA(c.Secret, string(c.Code), suite, in)
	if gerr != nil {
		labels = append(labels, "generation-fails", "failing="+c.Failing)
		if got || err == nil {
			return bad(true, labels, "generation fails (%v) but ValidateOCRA(code %q) = (%v, %v); want (false, error)", gerr, c.Code, got, err)
		}
		return ok(true, labels...)
	}
	if c.Failing != "" {
		// the generator meant this case to fail; generation succeeding is C14's subject, not C06's
		labels = append(labels, "expected-failure-but-generates")
	}
	want := string(c.Code) == g
	labels = append(labels, fmt.Sprintf("want=%v", want))
	prefix := 0
	for prefix < len(g) && prefix < len(c.Code) && g[prefix] == c.Code[prefix] {
		prefix++
	}
	nt := !want && prefix >= 1
	if got != want {
		return bad(true, labels, "ValidateOCRA(code %q) = (%v, %v) but GenerateOCRA returns %q for the same secret, suite and input", c.Code, got, err, g)
	}
	if want && err != nil {
		return bad(true, labels, "ValidateOCRA accepted with error %v", err)
	}
	if !want && err == nil {
		return bad(true, labels, "ValidateOCRA rejected %q without an error", c.Code)
	}
	_ = errors.Is
	// the string the library itself returned for a NEIGHBOURING input (counter+1, timestamp+1, first challenge byte
	// flipped), submitted as returned, not as a copy: a returned code that still lives in a scratch buffer of the library
	// is overwritten by the derivation inside the validation and then compared with itself
	nb := otp.OCRAInput{Counter: bump(in.Counter, 7), Challenge: flip(in.Challenge, 0), Password: in.Password, SessionInfo: in.SessionInfo, Timestamp: bump(in.Timestamp, 7)}
	if g2, e2 := otp.GenerateOCRA(c.Secret, suite, nb); e2 == nil {
		keep := strings.Clone(g2)
		ok2, err2 := otp.ValidateOCRA(c.Secret, g2, suite, in)
		if g2 != keep {
			return bad(true, labels, "the code %q returned for a neighbouring input changed to %q during a later validation", keep, g2)
		}
		if ok2 != (keep == g) || (ok2 && err2 != nil) || (!ok2 && err2 == nil) {
			return bad(true, labels, "ValidateOCRA(the string returned for a neighbouring input, %q) = (%v, %v) but GenerateOCRA returns %q for this input", keep, ok2, err2, g)
		}
		labels = append(labels, "neighbour-as-returned")
	}
	// the decimal strings whose VALUE differs from the generated code by 2^31, 2^32, 2^63 or 2^64 modulo 10^digits: what a
	// comparison carried out on numbers (a wrapped unsigned difference, a narrowed integer) takes for the code (C06-r18a)
	if n := len(g); n >= 1 && n <= 10 && strings.Trim(g, "0123456789") == "" {
		v, _ := strconv.ParseUint(g, 10, 64)
		limit := uint64(1)
		for i := 0; i < n; i++ {
			limit *= 10
		}
		h63 := (uint64(1) << 63) % limit
		for _, m := range []uint64{(1 << 31) % limit, (1 << 32) % limit, h63, h63 * 2 % limit} {
			for _, a := range []uint64{(v + m) % limit, (v + limit - m) % limit} {
				s := fmt.Sprintf("%0*d", n, a)
				if s == g {
					continue
				}
				if ok3, err3 := otp.ValidateOCRA(c.Secret, s, suite, in); ok3 || err3 == nil {
					return bad(true, append(labels, "modular-alias"), "ValidateOCRA(%q) = (%v, %v) but GenerateOCRA returns %q for the same secret, suite and input (the values differ by a power of two modulo 10^%d)", s, ok3, err3, g, n)
				}
			}
		}
		labels = append(labels, "modular-aliases")
	}
	return ok(nt || want && c.Origin != "generated", labels...)
}

func bump(b []byte, i int) []byte {
	if i >= len(b) {
		return b
	}
	x := append([]byte(nil), b...)
	x[i]++
	return x
}

func flip(b []byte, i int) []byte {
	if i >= len(b) {
		return b
	}
	x := append([]byte(nil), b...)
	x[i] ^= 1
	return x
}

var c06Main = newPart("C06", "main",
	"rapid: C05 suites/secrets/inputs plus invalid suites (unusable configurations, zero RawSuite), inadmissible inputs (one selected field at a wrong length) and undecodable secrets; submitted strings: the generated code, single-character edits, truncations/extensions, the code for counter+1 / an edited challenge / timestamp+1 / a sibling suite (other digits or hash), the code of the same input in another ENCODING (decimal question vs. its RFC conversion, hex text vs. the bytes it spells), arbitrary strings, the string the library returned for a neighbouring input submitted as returned (not a copy), and in every generating case the modular aliases of the generated code (value +- 2^31 / 2^32 / 2^63 / 2^64 modulo 10^digits, each to be refused); oracle: GenerateOCRA on the same arguments (equivalence: ok == (x == g) when generation succeeds, (false, error) when it fails; accept => nil error, reject => error); non-trivial = rejected string sharing >= 1 leading character with the generated code, or a generation-fails case",
	checkC06)

func genC06(t *rapid.T) c06Case {
	c := genC06Base(t)
	c.Before = drawDisturb(t) // drawn last: the cases of a seed are otherwise what they were
	return c
}

func genC06Base(t *rapid.T) c06Case {
	c := c06Case{Suite: drawSuite(t)}
	key := gen.Key().Draw(t, "key")
	_, cfg, lerr := c.Suite.resolve()
	if lerr != nil { // well-formed name the parser rejects: still a legitimate "invalid suite" input for C06
		c.Failing = "suite"
	}
	in := drawAdmissible(t, cfg)
	full := overlay(cfg, in, drawJunk(t))
	c.Secret = gen.Spell(key, gen.DrawSpelling(t))
	kind := rapid.IntRange(0, 9).Draw(t, "failKind")
	switch {
	case kind == 0: // undecodable secret
		c.Secret = rapid.SampledFrom([]string{"!!!!", "A", "ABC", "MFRGG===A", "0189", "MZXW6\x00"}).Draw(t, "badSecret")
		c.Failing = "secret"
	case kind == 1 && c.Suite.Via != "registered" && c.Suite.Via != "parsed": // unusable configuration
		switch rapid.IntRange(0, 4).Draw(t, "badCfg") {
		case 0:
			c.Suite.Cfg.Digits = rapid.SampledFrom([]int{-1, 0, 3, 11, 12, 100}).Draw(t, "badDigits")
		case 1:
			c.Suite.Cfg.Hash = rapid.SampledFrom([]int{3, 4, 255}).Draw(t, "badHash")
		case 2:
			c.Suite.Cfg.Q, c.Suite.Cfg.QFormat = true, 0
		case 3:
			c.Suite.Cfg.P, c.Suite.Cfg.PHash = true, 0
		case 4:
			c.Suite.Cfg.T, c.Suite.Cfg.TimeStep = true, rapid.SampledFrom([]int{0, -1}).Draw(t, "badStep")
		}
		if c.Suite.Via == "newsuite" {
			c.Suite.Via = "rawsuite" // NewSuite would return a nil interface
		}
		c.Failing = "suite"
	case kind == 2: // inadmissible input: break one selected field
		var sel []string
		if cfg.C {
			sel = append(sel, "C")
		}
		if cfg.Q {
			sel = append(sel, "Q")
		}
		if cfg.P {
			sel = append(sel, "P")
		}
		if cfg.S {
			sel = append(sel, "S")
		}
		if cfg.T {
			sel = append(sel, "T")
		}
		if len(sel) > 0 {
			switch rapid.SampledFrom(sel).Draw(t, "breakField") {
			case "C":
				full.C = drawBytes(t, rapid.SampledFrom([]int{0, 7, 9, 16}).Draw(t, "bc"), "bcb")
			case "Q":
				full.Q = drawBytes(t, rapid.SampledFrom([]int{0, ref.QMin(cfg.QFormat) - 1, 129, 200}).Draw(t, "bq"), "bqb")
			case "P":
				full.P = drawBytes(t, rapid.SampledFrom([]int{0, ref.PLen(cfg.PHash) - 1, ref.PLen(cfg.PHash) + 1, 128}).Draw(t, "bp"), "bpb")
			case "S":
				full.S = drawBytes(t, rapid.SampledFrom([]int{129, 130, 256}).Draw(t, "bs"), "bsb")
			case "T":
				full.T = drawBytes(t, rapid.SampledFrom([]int{0, 7, 9}).Draw(t, "bt"), "btb")
			}
			c.Failing = "input"
		}
	}
	// a differently ENCODED input: the challenge as text (decimal question, hex text) vs. as the bytes that text stands
	// for — a validator that "helpfully" retries with the other encoding accepts the code of an input that was not given
	subKind := rapid.IntRange(0, 11).Draw(t, "subKind")
	var reenc *ref.OCRAIn
	if subKind >= 10 && cfg.Q && c.Failing == "" {
		alt := in
		switch rapid.IntRange(0, 3).Draw(t, "reencKind") {
		case 0: // ASCII decimal question given; the RFC conversion of it (hex of the number, right-padded) is the other encoding
			digits := drawDigits(t, decDigits, ref.QMin(cfg.QFormat), 20, "reencDec")
			in.Q = []byte(digits)
			alt.Q, _ = rfcQuestion(digits)
		case 1: // the RFC conversion given; the ASCII digits are the other encoding
			digits := drawDigits(t, decDigits, ref.QMin(cfg.QFormat), 20, "reencDec")
			in.Q, _ = rfcQuestion(digits)
			alt.Q = []byte(digits)
		case 2: // hex text given; the bytes it spells are the other encoding
			raw := rapid.SliceOfN(rapid.Byte(), ref.QMin(cfg.QFormat), 40).Draw(t, "reencRaw")
			in.Q = []byte(fmt.Sprintf("%x", raw))
			alt.Q = raw
		default: // bytes given; their hex text is the other encoding
			raw := rapid.SliceOfN(rapid.Byte(), ref.QMin(cfg.QFormat), 40).Draw(t, "reencRaw")
			in.Q = raw
			alt.Q = []byte(fmt.Sprintf("%X", raw))
		}
		full = overlay(cfg, in, full)
		reenc = &alt
	}
	c.In = full
	// what would be generated (reference), to build near-miss submissions
	base, rerr := ref.OCRA(key, cfg, in)
	if rerr != nil {
		base = "000000"
	}
	if reenc != nil {
		if alt, e := ref.OCRA(key, cfg, *reenc); e == nil {
			c.Code, c.Origin = []byte(alt), "reencoded-input"
			return c
		}
	}
	switch subKind % 10 {
	case 0, 1, 2:
		c.Code, c.Origin = []byte(base), "generated"
	case 3, 4, 5:
		c.Code, c.Origin = []byte(gen.MutateCode(t, base)), "mutated"
	case 6:
		// neighbour: counter+1 / challenge edited / timestamp+1
		n := in
		switch {
		case cfg.C && len(in.C) == 8:
			x := append([]byte{}, in.C...)
			x[7]++
			n.C = x
		case cfg.T && len(in.T) == 8:
			x := append([]byte{}, in.T...)
			x[7]++
			n.T = x
		case cfg.Q && len(in.Q) > 0:
			x := append([]byte{}, in.Q...)
			x[0] ^= 1
			n.Q = x
		}
		nb, e := ref.OCRA(key, cfg, n)
		if e != nil {
			nb = base
		}
		c.Code, c.Origin = []byte(nb), "neighbour-input"
	case 7:
		// sibling suite: other digit count or hash
		sc := cfg
		if rapid.Bool().Draw(t, "sibWhich") {
			sc.Digits = 4 + (cfg.Digits-4+1)%7
		} else {
			sc.Hash = (cfg.Hash + 1) % 3
		}
		sb, e := ref.OCRA(key, sc, in)
		if e != nil {
			sb = base
		}
		c.Code, c.Origin = []byte(sb), "sibling-suite"
	case 8:
		b := make([]byte, len(base))
		for i := range b {
			b[i] = '0' + byte(rapid.IntRange(0, 9).Draw(t, "rd"))
		}
		c.Code, c.Origin = b, "random-digits"
	default:
		c.Code, c.Origin = rapid.SliceOfN(rapid.Byte(), 0, 14).Draw(t, "raw"), "raw-bytes"
	}
	return c
}

func TestC06_Main(t *testing.T) {
	c06Main.rapid(t, ev.Pick(30_000, 400_000), genC06)
}
