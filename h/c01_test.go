package verifh

import (
	"fmt"
	"testing"

	otp "github.com/ja7ad/otp"
	"pgregory.net/rapid"

	"verifh/ev"
	"verifh/gen"
	"verifh/ref"
)

// ---------------------------------------------------------------------------
// C01 — HOTP codes equal the RFC 4226 value for every secret, counter, length, hash.

type c01Case struct {
	Key      []byte       `json:"key"`
	Sp       gen.Spelling `json:"spelling"`
	Counter  uint64       `json:"counter"`
	Digits   int          `json:"digits"` // 0..255
	Algo     int          `json:"algo"`   // 0..255
	NilParam bool         `json:"nil_param"`
	// parameter fields HOTP generation does not use: the code must not depend on them (omitted = 0)
	Skew   uint64 `json:"skew,omitempty"`
	Period uint64 `json:"period,omitempty"`
	// How the parameter set reaches the call (omitted = a freshly built *Param, or nil if NilParam):
	//  1: the values are written INTO the struct the exported otp.DefaultHOTPParam points to and that very pointer is passed
	//  2: otp.DefaultHOTPParam is REPLACED by a pointer to the values and that pointer is passed
	//  3: the values are written into the exported default and nil is passed ("If param is nil, DefaultHOTPParam is used")
	//  4: the exported otp.DefaultTOTPParam pointer is passed, holding the values
	// The exported defaults are restored after the call.
	Via int `json:"via,omitempty"`
	// an operation of another family run immediately before the call (see disturb; omitted = none)
	Before int `json:"before,omitempty"`
}

func counterClass(c uint64) string {
	switch {
	case c < 10:
		return "ctr<10"
	case c < 1<<31:
		return "ctr<2^31"
	case c < 1<<32:
		return "ctr<2^32"
	case c < 1<<63:
		return "ctr<2^63"
	default:
		return "ctr>=2^63"
	}
}

func keyClass(n int) string {
	switch {
	case n == 0:
		return "key=empty"
	case n <= 64:
		return "key<=64"
	case n <= 128:
		return "key<=128"
	default:
		return "key>128"
	}
}

func checkC01(c c01Case) verdict {
	secret := gen.Spell(c.Key, c.Sp)
	var param *otp.Param
	digits, algo := c.Digits, c.Algo
	if c.NilParam {
		digits, algo = 6, 0
	} else {
		param = &otp.Param{Digits: otp.Digits(c.Digits), Algorithm: otp.Algorithm(c.Algo), Skew: uint(c.Skew), Period: uint(c.Period)}
	}
	if c.Via != 0 && !c.NilParam {
		// an application that customises the exported defaults, or hands them in explicitly: what the struct holds decides
		hp, tp := otp.DefaultHOTPParam, otp.DefaultTOTPParam
		hv, tv := *hp, *tp
		defer func() { otp.DefaultHOTPParam, otp.DefaultTOTPParam = hp, tp; *hp, *tp = hv, tv }()
		switch c.Via {
		case 1:
			*otp.DefaultHOTPParam = *param
			param = otp.DefaultHOTPParam
		case 2:
			otp.DefaultHOTPParam = param
		case 3:
			*otp.DefaultHOTPParam = *param
			param = nil
		case 4:
			*otp.DefaultTOTPParam = *param
			param = otp.DefaultTOTPParam
		case 5: // OTHER values installed as defaults; the explicit set is passed as it is and decides
			*otp.DefaultHOTPParam = otp.Param{Digits: 8, Algorithm: otp.SHA256, Skew: 1, Period: 60}
			*otp.DefaultTOTPParam = otp.Param{Digits: 9, Algorithm: otp.SHA512, Skew: 1, Period: 60}
		case 6:
			otp.DefaultHOTPParam = &otp.Param{Digits: 7, Algorithm: otp.SHA512, Skew: 3, Period: 7}
			otp.DefaultTOTPParam = &otp.Param{Digits: 8, Algorithm: otp.SHA256, Skew: 2, Period: 45}
		}
	}
	disturb(c.Before, secret)
	got, err := otp.GenerateHOTP(secret, c.Counter, param)
	supported := digits >= 1 && digits <= 10 && algo >= 0 && algo <= 2
	labels := []string{counterClass(c.Counter), keyClass(len(c.Key))}
	if c.NilParam {
		labels = append(labels, "nilparam")
	}
	if c.Via != 0 && !c.NilParam {
		labels = append(labels, fmt.Sprintf("via-exported-default=%d", c.Via))
	}
	if !c.NilParam && (c.Skew != 0 || c.Period != 0) {
		labels = append(labels, "unused-param-fields-set")
		if c.Skew > 10 {
			labels = append(labels, "skew>10")
		}
	}
	if !supported {
		labels = append(labels, "unsupported")
		if err == nil || got != "" {
			return bad(true, labels, "unsupported digits=%d algo=%d answered with code %q err=%v (want error and no code)", digits, algo, got, err)
		}
		return ok(true, labels...)
	}
	labels = append(labels, fmt.Sprintf("digits=%d", digits), fmt.Sprintf("algo=%d", algo), fmt.Sprintf("off=%d", ref.Offset(c.Key, c.Counter, algo)))
	want := ref.MustHOTP(c.Key, c.Counter, digits, algo)
	block := 64
	if algo == 2 {
		block = 128
	}
	lead0 := want[0] == '0'
	if lead0 {
		labels = append(labels, "leading0")
	}
	nt := (digits != 6 && digits != 8) || c.Counter >= 1<<32 || len(c.Key) > block || len(c.Key) == 0 || lead0 || !c.Sp.Canonical()
	if err != nil {
		return bad(nt, labels, "GenerateHOTP(%q, %d, digits=%d algo=%d nil=%v) failed: %v (want %s)", secret, c.Counter, digits, algo, c.NilParam, err, want)
	}
	if got != want {
		return bad(nt, labels, "GenerateHOTP(%q, %d, digits=%d algo=%d nil=%v) = %q, RFC 4226 value is %q", secret, c.Counter, digits, algo, c.NilParam, got, want)
	}
	if e := retainCheck(got, "HOTP code"); e != nil {
		return bad(true, labels, "%v", e)
	}
	return ok(nt, labels...)
}

var c01Main = newPart("C01", "main",
	"rapid: key bytes (boundary lengths 0/1/19-21/63-65/127-129/200 or 0..256 random) x base32 spelling x counter (small, 2^31/2^32/2^63 +-13, top, uniform) x digits 0..255 x hash 0..255 x nil/explicit param, compared with an independent HMAC/truncate/format reference; non-trivial = digits not in {6,8} or counter>=2^32 or key longer than the HMAC block or empty key or leading-zero code or non-canonical spelling or unsupported digits/hash (error clause)",
	checkC01)

func genC01(t *rapid.T) c01Case {
	c := genC01Base(t)
	c.Before = drawDisturb(t) // drawn last: the cases of a seed are otherwise what they were
	return c
}

func genC01Base(t *rapid.T) c01Case {
	c := c01Case{Key: gen.Key().Draw(t, "key"), Sp: gen.DrawSpelling(t), Counter: gen.Counter().Draw(t, "counter")}
	switch rapid.IntRange(0, 9).Draw(t, "paramKind") {
	case 0:
		c.NilParam = true
	case 1: // unsupported digits
		c.Digits = rapid.SampledFrom([]int{0, 11, 12, 16, 100, 255}).Draw(t, "badDigits")
		c.Algo = rapid.IntRange(0, 2).Draw(t, "algo")
	case 2: // unsupported hash
		c.Digits = gen.Digits().Draw(t, "digits")
		c.Algo = rapid.SampledFrom([]int{3, 4, 127, 128, 255}).Draw(t, "badAlgo")
	case 3: // anything
		c.Digits = rapid.IntRange(0, 255).Draw(t, "anyDigits")
		c.Algo = rapid.IntRange(0, 255).Draw(t, "anyAlgo")
	default:
		c.Digits = gen.Digits().Draw(t, "digits")
		c.Algo = rapid.IntRange(0, 2).Draw(t, "algo")
	}
	if !c.NilParam && rapid.IntRange(0, 5).Draw(t, "viaQ") == 0 {
		c.Via = rapid.IntRange(1, 6).Draw(t, "via")
	}
	// the fields generation ignores: a window (also one validation would refuse) and a period, in a third of the cases
	if !c.NilParam && rapid.IntRange(0, 2).Draw(t, "unusedQ") == 0 {
		if rapid.Bool().Draw(t, "skewSmall") {
			c.Skew = uint64(rapid.IntRange(0, 10).Draw(t, "skew"))
		} else {
			c.Skew = gen.RefusedSkew(t)
		}
		c.Period = rapid.SampledFrom([]uint64{0, 30, 1, 60, 1 << 32, ^uint64(0)}).Draw(t, "period")
	}
	return c
}

func TestC01_Main(t *testing.T) {
	c01Main.rapid(t, ev.Pick(60_000, 1_500_000), genC01)
}

// Boundary grid, enumerated completely in both tiers.
var c01Grid = newPart("C01", "grid",
	"complete grid: 14 key lengths x 27 boundary counters x digits 1..10 x 3 hashes, key bytes a fixed pattern; every case distinct",
	checkC01)

func gridCounters() []uint64 {
	cs := []uint64{0, 1, 9}
	for _, b := range []uint64{1 << 31, 1 << 32, 1 << 63} {
		for d := int64(-2); d <= 2; d++ {
			cs = append(cs, b+uint64(d))
		}
	}
	for k := uint64(0); k < 9; k++ {
		cs = append(cs, 1<<64-1-k)
	}
	return cs
}

func TestC01_Grid(t *testing.T) {
	defer c01Grid.rec().Flush()
	i := 0
	for _, n := range gen.KeyLens {
		key := make([]byte, n)
		for j := range key {
			key[j] = byte(j*37 + n)
		}
		for _, ctr := range gridCounters() {
			for d := 1; d <= 10; d++ {
				for a := 0; a <= 2; a++ {
					i++
					if !ev.Mine(i) {
						continue
					}
					c01Grid.each(t, c01Case{Key: key, Sp: gen.Spelling{Pad: 1}, Counter: ctr, Digits: d, Algo: a})
				}
			}
		}
	}
	c01Grid.rec().Exhaustive()
}
