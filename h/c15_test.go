package verifh

import (
	"bytes"
	"encoding/json"
	"fmt"
	"os"
	"os/exec"
	"strconv"
	"strings"
	"testing"

	otp "github.com/ja7ad/otp"
	"pgregory.net/rapid"

	"verifh/ev"
	"verifh/ref"
)

// ---------------------------------------------------------------------------
// C15 — a suite's configuration always means what its suite string says.

type c15Case struct {
	Name       string `json:"name"`
	Registered bool   `json:"registered"` // taken from ListSuites
	Expect     string `json:"expect"`     // generator's intent: wellformed | malformed | any
	// what the process did with this very text before asking what it means (omitted = nothing): 1 a hand-built configuration
	// carrying the text as its name but saying something else is used in a derivation; 2 the value a constructor returned for
	// the text is changed and used; 3 the value a constructor returned for another suite is renamed to the text and used
	Pre int `json:"pre,omitempty"`
}

// c15Poison uses suite values that CARRY the name but say something else. What a name means afterwards must still be what
// the name says: values built by callers are theirs, not definitions.
func c15Poison(name string, pre int) {
	if pre == 0 {
		return
	}
	const sec = "GEZDGNBVGY3TQOJQGEZDGNBVGY3TQOJQ"
	in := otp.OCRAInput{Counter: make([]byte, 8), Challenge: []byte("1234567890123456"), Password: make([]byte, 20), SessionInfo: make([]byte, 16), Timestamp: make([]byte, 8)}
	other := toLib(ref.OCRACfg{Raw: name, Hash: 1, Digits: 9, C: true, Q: true, P: true, S: true, T: true, QFormat: 1, PHash: 1, TimeStep: 30})
	use := func(s otp.Suite) {
		if s == nil {
			return
		}
		code, _ := otp.GenerateOCRA(sec, s, in)
		otp.ValidateOCRA(sec, code, s, in)
		_ = s.String()
		s.Validate()
	}
	switch pre {
	case 1:
		use(other)
		use(&other)
		if s, err := otp.NewSuite(other); err == nil {
			use(s)
		}
	case 2:
		if s, err := otp.NewRawSuite(name); err == nil {
			if rs, isRaw := s.(otp.RawSuite); isRaw {
				rs.SuiteConfig = other
				use(rs)
				use(&rs)
			}
		}
	case 3:
		if s, err := otp.NewRawSuite("OCRA-1:HOTP-SHA1-6:QN08"); err == nil {
			if rs, isRaw := s.(otp.RawSuite); isRaw {
				rs.Raw, rs.Digits, rs.IncludeCounter = name, 7, true
				use(rs)
			}
		}
	}
}

func sameCfg(got otp.SuiteConfig, rd ref.Reading) string {
	w := rd.Cfg
	if int(got.Hash) != w.Hash {
		return fmt.Sprintf("hash %v, name says %d", got.Hash, w.Hash)
	}
	if got.Digits != w.Digits {
		return fmt.Sprintf("digits %d, name says %d", got.Digits, w.Digits)
	}
	if got.IncludeCounter != w.C || got.IncludeChallenge != w.Q || got.IncludePassword != w.P || got.IncludeSession != w.S || got.IncludeTimestamp != w.T {
		return fmt.Sprintf("fields C=%v Q=%v P=%v S=%v T=%v, name says C=%v Q=%v P=%v S=%v T=%v", got.IncludeCounter, got.IncludeChallenge, got.IncludePassword, got.IncludeSession, got.IncludeTimestamp, w.C, w.Q, w.P, w.S, w.T)
	}
	if w.Q && int(got.Challenge) != w.QFormat {
		return fmt.Sprintf("challenge format %d, name says %d", got.Challenge, w.QFormat)
	}
	if !w.Q && got.Challenge != 0 {
		return fmt.Sprintf("challenge format %d without a challenge in the name", got.Challenge)
	}
	if int(got.PasswordHash) != w.PHash {
		return fmt.Sprintf("password hash %d, name says %d", got.PasswordHash, w.PHash)
	}
	if w.T {
		okk := false
		for _, ts := range rd.TimeSteps {
			if got.TimeStep == ts {
				okk = true
			}
		}
		if !okk {
			return fmt.Sprintf("time step %d s, name says %v", got.TimeStep, rd.TimeSteps)
		}
	} else if got.TimeStep != 0 {
		return fmt.Sprintf("time step %d without a T token", got.TimeStep)
	}
	return ""
}

func checkC15(c c15Case) verdict {
	rd, cls := ref.ReadSuite(c.Name, c.Registered)
	labels := []string{"class=" + cls.String()}
	if c.Registered {
		labels = append(labels, "registered")
	}
	if c.Pre != 0 {
		labels = append(labels, fmt.Sprintf("after-a-namesake=%d", c.Pre))
		c15Poison(c.Name, c.Pre)
	}
	su, err := otp.NewRawSuite(c.Name)
	known := otp.IsKnownSuite(c.Name)
	fromRaws := otp.SuiteConfigFromRaws(c.Name)
	if known != c.Registered {
		return bad(true, labels, "IsKnownSuite(%q) = %v but ListSuites membership is %v", c.Name, known, c.Registered)
	}
	if !c.Registered && fromRaws != (otp.SuiteConfig{}) {
		return bad(true, labels, "SuiteConfigFromRaws(%q) returns a configuration for a name ListSuites does not advertise", c.Name)
	}
	if c.Registered {
		if cls != ref.WellFormed {
			return bad(true, labels, "advertised name %q is not a well-formed RFC 6287 suite string (%s)", c.Name, rd.Why)
		}
		if err != nil {
			return bad(true, labels, "advertised name %q cannot be instantiated: %v", c.Name, err)
		}
		if fromRaws == (otp.SuiteConfig{}) {
			return bad(true, labels, "SuiteConfigFromRaws(%q) is the zero configuration for an advertised name", c.Name)
		}
		cfg := su.Config()
		cfgNoRaw := cfg
		cfgNoRaw.Raw = fromRaws.Raw
		if cfgNoRaw != fromRaws {
			return bad(true, labels, "lookup by name disagrees: NewRawSuite(%q).Config() = %+v, SuiteConfigFromRaws = %+v", c.Name, cfg, fromRaws)
		}
		// a code can be generated with it
		in := ref.OCRAIn{}
		if rd.Cfg.C {
			in.C = make([]byte, 8)
		}
		if rd.Cfg.Q {
			in.Q = make([]byte, ref.QMin(rd.Cfg.QFormat))
		}
		if rd.Cfg.P {
			in.P = make([]byte, ref.PLen(rd.Cfg.PHash))
		}
		if rd.Cfg.T {
			in.T = make([]byte, 8)
		}
		if code, gerr := otp.GenerateOCRA("MFRGGZDFMZTWQ2LK", su, toLibIn(in)); gerr != nil || len(code) != rd.Cfg.Digits {
			return bad(true, labels, "advertised suite %q cannot generate a code: %q, %v", c.Name, code, gerr)
		}
	}
	switch cls {
	case ref.Malformed:
		if err == nil {
			return bad(true, labels, "NewRawSuite(%q) accepted a malformed suite string (%s) as %+v", c.Name, rd.Why, su.Config())
		}
		return ok(true, append(labels, "rejected")...)
	case ref.Unclassified:
		if err == nil {
			cfg := su.Config()
			_ = su.String()
			_ = su.Validate()
			// one thing an unclassified string still says unmistakably: a digit count written with leading zeros is that
			// decimal number (the suite grammar knows no other radix) — accepted as 8 when it says 010, it is misread
			if cp := strings.Split(strings.Split(c.Name+"::", ":")[1], "-"); len(cp) == 3 && len(cp[2]) > 1 && cp[2][0] == '0' && rd.Why == "" {
				dec := 0
				for _, ch := range cp[2] {
					if ch < '0' || ch > '9' {
						dec = -1
						break
					}
					if dec < 1000 {
						dec = dec*10 + int(ch-'0')
					}
				}
				if dec >= 0 && cfg.Digits != dec {
					return bad(true, labels, "NewRawSuite(%q) reads the digit count %q as %d; written in decimal it is %d", c.Name, cp[2], cfg.Digits, dec)
				}
			}
		}
		return ok(false, labels...)
	}
	// well-formed: faithful if accepted
	if err != nil {
		return ok(true, append(labels, "rejected")...)
	}
	labels = append(labels, "accepted")
	if d := sameCfg(su.Config(), rd); d != "" {
		return bad(true, labels, "NewRawSuite(%q): configuration has %s", c.Name, d)
	}
	if su.String() != c.Name || su.Config().Raw != c.Name {
		return bad(true, labels, "suite instantiated from %q reports the name %q (Raw %q)", c.Name, su.String(), su.Config().Raw)
	}
	if verr := su.Validate(); verr != nil {
		return bad(true, labels, "NewRawSuite(%q) returned a suite that does not validate: %v", c.Name, verr)
	}
	return ok(true, labels...)
}

var c15Reg = newPart("C15", "registered",
	"complete: every name returned by ListSuites (and ListSuites returns each once): well-formed by the independent name reader, NewRawSuite succeeds, configuration equals the reading (hash, digits, five include flags, challenge format, password hash, time step in {n,60n,3600n} for the unit-less T<n>), String() == name, IsKnownSuite and SuiteConfigFromRaws agree with the list and with NewRawSuite, a code can be generated; each name also after a namesake was used (a hand-built configuration, a changed or renamed constructor result carrying the name but saying something else, used in a derivation); every name is a distinct case",
	checkC15)

func TestC15_Registered(t *testing.T) {
	defer c15Reg.rec().Flush()
	names := otp.ListSuites()
	seen := map[string]bool{}
	for _, n := range names {
		if seen[n] {
			t.Fatalf("INFRA/C15: ListSuites lists %q twice", n)
		}
		seen[n] = true
	}
	for i, n := range registeredNames {
		if ev.Mine(i) {
			for pre := 0; pre <= 3; pre++ {
				c15Reg.each(t, c15Case{Name: n, Registered: true, Expect: "wellformed", Pre: pre})
			}
		}
	}
	if len(registeredNames) == 0 {
		c15Reg.each(t, c15Case{Name: "", Registered: true})
	}
	c15Reg.rec().Exhaustive()
}

var c15Grammar = newPart("C15", "grammar",
	"complete enumeration of OCRA-1:HOTP-<SHA1|SHA256|SHA512>-<0..11>:[C-]Q<N|A|H><08|10>[-PSHA<1|256|512>][-S|-S064|-S128 (thorough: also S000,S512,S999)][-T<1..59>S|-T<1..59>M|-T<1..48>H]; oracle: independent name reader; a string the library accepts must yield exactly the reading and report itself as its name, rejection is allowed; names not advertised must be unknown to IsKnownSuite / SuiteConfigFromRaws; one string in thirteen is asked about after a namesake (a suite value carrying the string as its name but saying something else) was used in a derivation; every string distinct",
	checkC15)

func grammarAll(yield func(string)) {
	sOpts := []string{"", "-S", "-S064", "-S128"}
	if ev.Thorough() {
		sOpts = append(sOpts, "-S000", "-S512", "-S999")
	}
	var tOpts []string
	tOpts = append(tOpts, "")
	for n := 1; n <= 59; n++ {
		tOpts = append(tOpts, fmt.Sprintf("-T%dS", n), fmt.Sprintf("-T%dM", n))
		if n <= 48 {
			tOpts = append(tOpts, fmt.Sprintf("-T%dH", n))
		}
	}
	for _, h := range []string{"SHA1", "SHA256", "SHA512"} {
		for d := 0; d <= 11; d++ {
			for _, c := range []string{"", "C-"} {
				for _, q := range []string{"QN08", "QN10", "QA08", "QA10", "QH08", "QH10"} {
					for _, p := range []string{"", "-PSHA1", "-PSHA256", "-PSHA512"} {
						for _, s := range sOpts {
							for _, tt := range tOpts {
								yield(fmt.Sprintf("OCRA-1:HOTP-%s-%d:%s%s%s%s%s", h, d, c, q, p, s, tt))
							}
						}
					}
				}
			}
		}
	}
}

func TestC15_Grammar(t *testing.T) {
	rec := c15Grammar.rec()
	defer rec.Flush()
	reg := map[string]bool{}
	for _, n := range registeredNames {
		reg[n] = true
	}
	var n, accepted int64
	i := 0
	var sample c15Case
	grammarAll(func(s string) {
		i++
		if !ev.Mine(i) {
			return
		}
		c := c15Case{Name: s, Registered: reg[s], Expect: "wellformed"}
		if i%13 == 0 {
			c.Pre = 1 + (i/13)%3 // one string in thirteen is asked about after a namesake was used
		}
		v := c15Grammar.safe(c)
		if v.Err != nil {
			c15Grammar.each(t, c)
		}
		n++
		for _, l := range v.Labels {
			if l == "accepted" {
				accepted++
				sample = c
			}
		}
	})
	rec.CountOnly(n, "grammar strings", sample)
	rec.Label("accepted", accepted)
	rec.Label("rejected", n-accepted)
	rec.Exhaustive()
	if accepted == 0 {
		t.Fatalf("INFRA: the parser accepted no grammar string at all")
	}
}

// malformed strings and case variants
var c15Mut = newPart("C15", "malformed-and-variants",
	"rapid: (a) malformed strings derived from grammar strings and registered names: a ':' part removed, version changed (OCRA-2, OCRA-10, OCRA-1x, OCRA, empty), crypto function broken (TOTP-, HOTP only, unknown hash SHA3/SHA384/MD5, non-numeric or empty digits, extra part), a data token replaced or appended by an unknown one (X, SFOO, S1, S1234, CX, QX08, QN8, QN008, QN04..QN64 other than 08/10, QA16, PSHA2, PMD5, P, T, TM, T5X, T1D, time tokens in other duration grammars such as T1500MS, T2.5S, T1.5M, T1H30M, T1E3S, T5MIN, T1W, empty token, non-ASCII letters that Unicode-upper-case to ASCII such as U+017F, tokens damaged by invalid UTF-8, any single bit of any byte flipped) => must be rejected when the independent reader calls the result malformed; (b) lower/mixed-case variants of well-formed strings => faithful if accepted, String() is the text as given; (c) unclassified strings (4th part, duplicates, reordering, out-of-range time values) => no panic; oracle: independent name reader; non-trivial = malformed or accepted-variant cases",
	checkC15)

var badTokens = []string{"X", "SFOO", "S1", "S12", "S1234", "S06A", "CX", "CC", "QX08", "QN8", "QN008", "QN04", "QN09", "QN12", "QN64", "QN99", "QA16", "QH04", "QNAA", "Q", "QN", "PSHA2", "PSHA", "PMD5", "P", "T", "TM", "T5X", "T1D", "TS", "S\xff", "s\xff", "S\xff\xfe", "S06\xff", "QN\xff8", "QN08\xff", "\xffC", "C\xff", "PSHA1\xff", "T1\xffM", "T\xff", "\xff", "S\u00e9", "T1500MS", "T2.5S", "T1.5M", "T.5H", "T1H30M", "T1M30S", "T1000000US", "T1E3S", "T0X10S", "T1_0S", "T+5M", "T5 M", "T٥M", "T5Ｍ", "T5MIN", "T5SEC", "T1W", "T1Y", "T30", "T0M", "T0H", "T0S", "T00M", "T+0H", "T60S", "T49H", "", "Z9", "1", "ſ", "ſ064", "qn08x", "PSHA1X", "C1", "HOTP"}

func genC15Mut(t *rapid.T) c15Case {
	var base string
	if rapid.Bool().Draw(t, "fromReg") {
		base = rapid.SampledFrom(registeredNames).Draw(t, "reg")
	} else {
		base = grammarSuite(t)
	}
	parts := strings.Split(base, ":")
	toks := strings.Split(parts[2], "-")
	switch rapid.IntRange(0, 11).Draw(t, "mut") {
	case 10, 11: // one bit of one byte flipped (a case-folding or table lookup that ignores a bit reads the damaged byte as the original)
		b := []byte(base)
		i := rapid.IntRange(0, len(b)-1).Draw(t, "flipAt")
		b[i] ^= 1 << uint(rapid.IntRange(0, 7).Draw(t, "flipBit"))
		return c15Case{Name: string(b), Expect: "any"}
	case 0: // missing part
		k := rapid.IntRange(0, 2).Draw(t, "drop")
		parts = append(parts[:k], parts[k+1:]...)
		return c15Case{Name: strings.Join(parts, ":"), Expect: "malformed"}
	case 1: // version
		parts[0] = rapid.SampledFrom([]string{"OCRA-2", "OCRA-10", "OCRA-1x", "OCRA", "", "OCRA-11", "XOCRA-1", "OCRA-1 ", "OCRA_1",
			// the version read as a number: other spellings of 1 are not the version string, and the prefix is not optional
			"OCRA-01", "OCRA-001", "OCRA-+1", "OCRA-1.0", "OCRA-0x1", "OCRA- 1", "OCRA--1", "OCRA-1e0", "OCRA-١", "OCRA-１", "1", "01", "+1", "-1", "OCRA-", "OCRA-OCRA-1", "OCRA-1-1", "ocra-01"}).Draw(t, "ver")
		return c15Case{Name: strings.Join(parts, ":"), Expect: "malformed"}
	case 2: // crypto
		if rapid.IntRange(0, 2).Draw(t, "digitsSpelt") == 0 {
			// the digit count as another language's integer parser would read it: radix prefixes, separators, signs (not
			// decimal numbers: malformed), and leading zeros (a decimal number all the same: if accepted, it is that number)
			d := rapid.SampledFrom([]string{"0x8", "0X8", "0xA", "0b110", "0o10", "1_0", "#8", "8.0", "1e1", "8 ", " 8", "٦", "６", "010", "012", "08", "06", "006", "0010"}).Draw(t, "digitsAs")
			if rapid.Bool().Draw(t, "digitsForeignByte") {
				// a digit, a byte next to the digits in the code table (below '0': control bytes, blank, ! " # % & ' * + , . /; above
				// '9': ; < = > ? @), perhaps another digit: a hand-written number reader that tests only one side of the digit range
				// folds the foreign byte into the number
				fb := rapid.SampledFrom([]byte{0, 1, 2, 7, 9, 10, 13, 27, 31, ' ', '!', '"', '#', '$', '%', '&', '\'', '(', ')', '*', '+', ',', '.', '/', ';', '<', '=', '>', '?', '@'}).Draw(t, "foreignByte")
				d = strconv.Itoa(rapid.IntRange(0, 9).Draw(t, "d1")) + string(fb)
				switch rapid.IntRange(0, 2).Draw(t, "foreignShape") {
				case 1:
					d += strconv.Itoa(rapid.IntRange(0, 9).Draw(t, "d2"))
				case 2:
					d = string(fb) + d[:1]
				}
			}
			cp := strings.Split(parts[1], "-")
			cp[len(cp)-1] = d
			parts[1] = strings.Join(cp, "-")
			return c15Case{Name: strings.Join(parts, ":"), Expect: "any"}
		}
		parts[1] = rapid.SampledFrom([]string{"TOTP-SHA1-6", "HOTP", "HOTP-SHA1", "HOTP-SHA3-6", "HOTP-SHA384-6", "HOTP-MD5-6", "HOTP-SHA1-x", "HOTP-SHA1-", "HOTP-SHA1-6-6", "HOTP-SHA-6", "HMAC-SHA1-6", "HOTP-ſHA1-6", "HOTPSHA1-6", "HOTP-SHA1-6x"}).Draw(t, "crypto")
		return c15Case{Name: strings.Join(parts, ":"), Expect: "malformed"}
	case 3, 4: // unknown token replaces / is appended
		bt := rapid.SampledFrom(badTokens).Draw(t, "badTok")
		if rapid.Bool().Draw(t, "append") {
			toks = append(toks, bt)
		} else {
			toks[rapid.IntRange(0, len(toks)-1).Draw(t, "at")] = bt
		}
		parts[2] = strings.Join(toks, "-")
		return c15Case{Name: strings.Join(parts, ":"), Expect: "malformed"}
	case 5, 6: // case variant
		b := []byte(base)
		mask := rapid.Uint64().Draw(t, "mask")
		lowerAll := rapid.Bool().Draw(t, "lowerAll")
		for i, ch := range b {
			if ch >= 'A' && ch <= 'Z' && (lowerAll || (mask>>(uint(i)%64))&1 == 1) {
				b[i] = ch + 32
			}
		}
		return c15Case{Name: string(b), Expect: "wellformed"}
	case 7: // unclassified: 4th part / duplicate / reorder
		switch rapid.IntRange(0, 2).Draw(t, "unc") {
		case 0:
			return c15Case{Name: base + ":" + rapid.SampledFrom([]string{"", "x", "QN08"}).Draw(t, "p4"), Expect: "any"}
		case 1:
			toks = append(toks, toks[rapid.IntRange(0, len(toks)-1).Draw(t, "dup")])
		default:
			if len(toks) > 1 {
				toks[0], toks[len(toks)-1] = toks[len(toks)-1], toks[0]
			}
		}
		parts[2] = strings.Join(toks, "-")
		return c15Case{Name: strings.Join(parts, ":"), Expect: "any"}
	case 8: // time values outside the RFC range / odd numbers
		parts[2] = parts[2] + "-T" + rapid.SampledFrom([]string{"0S", "60S", "60M", "49H", "99H", "01M", "+5M", "-5M", "9223372036854775807H", "99999999999999999999S", "5"}).Draw(t, "tv")
		return c15Case{Name: strings.Join(parts, ":"), Expect: "any"}
	default: // arbitrary text
		return c15Case{Name: rapid.StringN(0, 40, 80).Draw(t, "any"), Expect: "any"}
	}
}

func TestC15_Malformed(t *testing.T) {
	reg := map[string]bool{}
	for _, n := range registeredNames {
		reg[n] = true
	}
	c15Mut.rapid(t, ev.Pick(40_000, 600_000), func(t *rapid.T) c15Case {
		c := genC15Mut(t)
		c.Registered = reg[c.Name]
		return c
	})
}

// Fresh-process call orders: the four ways of looking a name up must agree whatever is called FIRST
// in a process (tables built on first use must be built by every entry point).
type c15OrderCase struct {
	Order string `json:"order"` // permutation of L (ListSuites), K (IsKnownSuite), F (SuiteConfigFromRaws), N (NewRawSuite)
	Name  string `json:"name"`
}

type c15ChildOut struct {
	Listed bool            `json:"listed"`
	NList  int             `json:"n_list"`
	Known  bool            `json:"known"`
	From   otp.SuiteConfig `json:"from"`
	New    otp.SuiteConfig `json:"new"`
	NewRaw string          `json:"new_raw"`
	NewErr string          `json:"new_err"`
}

// runChild executes "c15:<order>:<name>" in a process where nothing of the library has run yet.
func runChild(spec string) {
	parts := strings.SplitN(spec, ":", 3)
	if len(parts) == 3 && parts[0] == "c12" {
		mode, _ := strconv.Atoi(parts[1])
		runChildC12(mode, parts[2])
		return
	}
	if len(parts) >= 2 && parts[0] == "c11" {
		runChildC11(strings.SplitN(spec, ":", 2)[1])
		return
	}
	if len(parts) >= 1 && parts[0] == "c08" {
		runChildC08()
		return
	}
	if len(parts) != 3 || parts[0] != "c15" {
		fmt.Println("{}")
		return
	}
	name := parts[2]
	var out c15ChildOut
	for _, step := range parts[1] {
		switch step {
		case 'L':
			l := otp.ListSuites()
			out.NList = len(l)
			for _, x := range l {
				if x == name {
					out.Listed = true
				}
			}
		case 'K':
			out.Known = otp.IsKnownSuite(name)
		case 'F':
			out.From = otp.SuiteConfigFromRaws(name)
		case 'N':
			su, err := otp.NewRawSuite(name)
			if err != nil {
				out.NewErr = err.Error()
			} else {
				out.New, out.NewRaw = su.Config(), su.Config().Raw
			}
		}
	}
	b, _ := json.Marshal(out)
	fmt.Println(string(b))
}

func checkC15Order(c c15OrderCase) verdict {
	cmd := exec.Command(os.Args[0], "-test.run", "^$")
	cmd.Env = append(os.Environ(), "VERIF_CHILD=c15:"+c.Order+":"+c.Name)
	raw, err := cmd.Output()
	var got c15ChildOut
	if err != nil || json.Unmarshal(bytes.TrimSpace(raw), &got) != nil {
		fmt.Println("INFRA: child process for C15 call orders failed:", err, string(raw))
		os.Exit(3)
	}
	labels := []string{"first=" + c.Order[:1]}
	// what this (long initialised) process says
	wantFrom := otp.SuiteConfigFromRaws(c.Name)
	su, werr := otp.NewRawSuite(c.Name)
	reg := otp.IsKnownSuite(c.Name)
	if got.Known != reg || got.Listed != reg || got.NList != len(otp.ListSuites()) {
		return bad(true, labels, "fresh process calling %s for %q: IsKnownSuite=%v, listed=%v (%d names); an initialised process says known=%v (%d names)", c.Order, c.Name, got.Known, got.Listed, got.NList, reg, len(otp.ListSuites()))
	}
	wantFrom.Raw, got.From.Raw = "", ""
	if got.From != wantFrom {
		return bad(true, labels, "fresh process calling %s: SuiteConfigFromRaws(%q) = %+v; an initialised process returns %+v", c.Order, c.Name, got.From, wantFrom)
	}
	wantNew, wantRaw := otp.SuiteConfig{}, ""
	if werr == nil {
		wantNew = su.Config()
		wantRaw, wantNew.Raw = wantNew.Raw, "" // Raw does not travel through JSON (json:"-"): compared separately
	}
	wantFrom.Raw, got.From.Raw = "", ""
	if (werr == nil) != (got.NewErr == "") || got.New != wantNew || got.NewRaw != wantRaw {
		return bad(true, labels, "fresh process calling %s: NewRawSuite(%q) = %+v / %q; an initialised process returns %+v / %v", c.Order, c.Name, got.New, got.NewErr, su, werr)
	}
	return ok(true, labels...)
}

var c15Order = newPart("C15", "first-call-orders",
	"complete: all 24 orders of the four lookups (ListSuites, IsKnownSuite, SuiteConfigFromRaws, NewRawSuite) x 4 names (shortest and longest registered name, a parsed unregistered name, nonsense), each executed in a FRESH child process of the test binary in which nothing of the library has run before; oracle: the answers equal those of the long-initialised parent process; every case distinct",
	checkC15Order)

func TestC15_FirstCallOrders(t *testing.T) {
	defer c15Order.rec().Flush()
	names := []string{registeredNames[0], "OCRA-1:HOTP-SHA512-8:C-QH10-PSHA512-S-T1", "OCRA-1:HOTP-SHA1-7:QN08-T5M", "nonsense"}
	for _, n := range registeredNames {
		if len(n) < len(names[0]) {
			names[0] = n
		}
	}
	i := 0
	var perm func(prefix, rest string)
	perm = func(prefix, rest string) {
		if rest == "" {
			for _, n := range names {
				i++
				if ev.Mine(i) {
					c15Order.each(t, c15OrderCase{Order: prefix, Name: n})
				}
			}
			return
		}
		for k := range rest {
			perm(prefix+rest[k:k+1], rest[:k]+rest[k+1:])
		}
	}
	perm("", "LKFN")
	c15Order.rec().Exhaustive()
}

// ---------------------------------------------------------------------------
// The advertised list belongs to the registry, not to whoever asked for it last: callers filter, sort, re-case and
// overwrite the slice they were given. Whatever they do to it, the next ListSuites advertises the same names, each known
// and instantiable.

type c15ListCase struct {
	Mutation string `json:"mutation"`
}

func checkC15List(c c15ListCase) verdict {
	base := append([]string(nil), registeredNames...)
	got := otp.ListSuites()
	switch c.Mutation {
	case "overwrite":
		for i := range got {
			got[i] = "x"
		}
	case "filter-in-place":
		kept := got[:0]
		for _, n := range got {
			if strings.Contains(n, "SHA512") {
				kept = append(kept, n)
			}
		}
	case "lower-case":
		for i := range got {
			got[i] = strings.ToLower(got[i])
		}
	case "reverse":
		for i, j := 0, len(got)-1; i < j; i, j = i+1, j-1 {
			got[i], got[j] = got[j], got[i]
		}
	case "append-within-capacity":
		if cap(got) > len(got) {
			_ = append(got, "OCRA-1:HOTP-SHA1-6:QN08-EXTRA")
		}
		_ = append(got[:len(got)/2], "OCRA-1:HOTP-SHA1-6:QN08-OVERWRITE")
	case "truncate":
		got = got[:1]
		_ = got
	}
	again := otp.ListSuites()
	sortStrings(again)
	if len(again) != len(base) {
		return bad(true, []string{"mutation=" + c.Mutation}, "after a caller did %q to the slice ListSuites had returned, ListSuites advertises %d names (was %d)", c.Mutation, len(again), len(base))
	}
	for i := range base {
		if again[i] != base[i] {
			return bad(true, []string{"mutation=" + c.Mutation}, "after a caller did %q to the slice ListSuites had returned, ListSuites advertises %q where it advertised %q", c.Mutation, again[i], base[i])
		}
		if !otp.IsKnownSuite(again[i]) {
			return bad(true, []string{"mutation=" + c.Mutation}, "advertised name %q is not known", again[i])
		}
		if _, err := otp.NewRawSuite(again[i]); err != nil {
			return bad(true, []string{"mutation=" + c.Mutation}, "advertised name %q cannot be instantiated: %v", again[i], err)
		}
	}
	return ok(true, "mutation="+c.Mutation)
}

var c15List = newPart("C15", "list-callers",
	"complete: six things a caller does to the slice ListSuites returned (overwrite every entry, filter in place, lower-case in place, reverse, append within and over the length, truncate), each followed by a fresh ListSuites; oracle: the same 45 names as at start-up, each known to IsKnownSuite and instantiable; every case distinct and non-trivial",
	checkC15List)

func TestC15_ListCallers(t *testing.T) {
	defer c15List.rec().Flush()
	for i, m := range []string{"overwrite", "filter-in-place", "lower-case", "reverse", "append-within-capacity", "truncate"} {
		if ev.Mine(i) {
			c15List.each(t, c15ListCase{Mutation: m})
		}
	}
	c15List.rec().Exhaustive()
}
